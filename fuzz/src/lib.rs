// stub, see Cargo.toml
