#![no_main]
//! bytes -> arbitrary::Unstructured -> choice words -> (indexes, history, wild statement) over the
//! fixed schema of C24::build_fixed -> the C24 oracle. Known open findings are tolerated.
use arbitrary::{Arbitrary, Unstructured};
use libfuzzer_sys::fuzz_target;
use std::sync::OnceLock;

static ALLOW: OnceLock<Vec<String>> = OnceLock::new();

fuzz_target!(|data: &[u8]| {
    let allow = ALLOW.get_or_init(|| {
        vcore::runner::install_panic_hook();
        chk_total::fuzzbridge::load_allow()
    });
    // the Unstructured view and the replay conversion (fuzzbridge::artifact_to_case_c24) read the
    // same little-endian u32 words
    let mut u = Unstructured::new(data);
    let mut words: Vec<u32> = Vec::with_capacity(data.len() / 4 + 1);
    while !u.is_empty() {
        match u32::arbitrary(&mut u) {
            Ok(w) => words.push(w),
            Err(_) => break,
        }
    }
    let case = chk_total::fuzzbridge::case_from_words_c24(&words, allow);
    if let Err(sig) = chk_total::fuzzbridge::exec_case(&case, allow) {
        eprintln!("C24 failure not in the allowlist: {}", sig);
        std::process::abort();
    }
});
