#![no_main]
//! bytes -> lossy UTF-8 -> Parser::parse_sql under the C23 oracle (panic = failure).
//! Known open findings (VERIF_FUZZ_ALLOW) are tolerated in-target; anything else aborts.
use libfuzzer_sys::fuzz_target;
use std::sync::OnceLock;

static ALLOW: OnceLock<Vec<String>> = OnceLock::new();

fuzz_target!(|data: &[u8]| {
    let allow = ALLOW.get_or_init(|| {
        // replace libfuzzer-sys' abort-on-panic hook: panics are caught and classified
        vcore::runner::install_panic_hook();
        chk_total::fuzzbridge::load_allow()
    });
    if let Err(sig) = chk_total::fuzzbridge::parse_one(data, allow) {
        eprintln!("C23 failure not in the allowlist: {}", sig);
        std::process::abort();
    }
});
