#!/bin/bash
# dev helper: build harness, show only errors and warnings from /verif code
cd /verif/harness && cargo build --profile verif -p vcheck "$@" 2>&1 | python3 -c "
import sys,re
txt=sys.stdin.read()
blocks=re.split(r'\n(?=(?:warning|error)(?:\[|:))',txt)
for b in blocks:
    if b.startswith('error') or ('/verif/' in b and b.startswith('warning')):
        print(b)
last=[l for l in txt.splitlines() if l.strip().startswith('Finished') or 'could not compile' in l]
print('\n'.join(last))
"
