#!/bin/bash
# MANIFEST.setup_cmd: offline build of the harness from files on disk only.
set -eu
ROOT="$(cd "$(dirname "$0")" && pwd)"
export CARGO_NET_OFFLINE=true
unset RUSTC_WRAPPER
mkdir -p "$ROOT/target" "$ROOT/evidence"
cd "$ROOT/harness"
for pkg in vcheck chk_srv chk_cli chk_store; do
  cargo build --profile verif -p "$pkg" 2>&1 | tail -2
done
