#!/bin/bash
# MANIFEST.setup_cmd: offline build of the harness from files on disk only.
set -eu
ROOT="$(cd "$(dirname "$0")" && pwd)"
export CARGO_NET_OFFLINE=true
unset RUSTC_WRAPPER
mkdir -p "$ROOT/target" "$ROOT/evidence"
cd "$ROOT/harness"
for pkg in vcheck chk_srv chk_cli chk_store chk_sec chk_total chk_persist; do
  cargo build --profile verif -p "$pkg" 2>&1 | tail -2
done
# Python extension for C30 (the check rebuilds it itself; this only warms the cache)
( cd "$ROOT" && mkdir -p target/py && cd target/py && RUSTC_WRAPPER= PYO3_PYTHON=/usr/local/bin/python3-vt cargo build --release --offline --manifest-path /repo/crates/vibesql-python-bindings/Cargo.toml --target-dir "$ROOT/target/py" 2>&1 | tail -1 ) || true
