//! chk_cli C31 quick|thorough|--replay <file> [--cases N] [--strict] [--survey] [--focus text]
//! chk_cli probe   (dev aid: lines from stdin, SQL or meta commands, to one CLI session)

fn main() {
    let argv: Vec<String> = std::env::args().skip(1).collect();
    if argv.first().map(|s| s == "probe").unwrap_or(false) {
        // dev helper: feed lines (SQL or meta commands) from stdin to a CLI session
        vcore::runner::install_panic_hook();
        let mut s = chk_cli::cli::Session::new().unwrap();
        let mut txt = String::new();
        std::io::Read::read_to_string(&mut std::io::stdin(), &mut txt).unwrap();
        for l in txt.lines() {
            if l.trim().is_empty() {
                continue;
            }
            println!("> {}", l);
            match vcore::runner::catch(|| s.line(l)) {
                Ok(o) => {
                    match &o.result {
                        Ok(Some(r)) => {
                            println!("  columns={:?} row_count={}", r.columns, r.row_count);
                            for row in &r.rows {
                                println!("  {:?}", row);
                            }
                        }
                        Ok(None) => println!("  ok"),
                        Err(e) => println!("  Error: {}", e),
                    }
                    for x in o.stdout {
                        println!("  [out] {}", x);
                    }
                    for x in o.stderr {
                        println!("  [err] {}", x);
                    }
                }
                Err(p) => println!("  PANIC {}", p),
            }
        }
        return;
    }
    if argv.first().map(|s| s == "mkreplays").unwrap_or(false) {
        // dev helper: write the minimal replay of every recorded finding whose case fails with exactly that
        // signature; `--open a,b` marks signatures as open first (needed for findings that sit behind another one)
        use vcore::Check;
        vcore::runner::install_panic_hook();
        let dir = std::path::PathBuf::from(argv.get(1).expect("mkreplays <dir> [--open sig,sig]"));
        if argv.get(2).map(|s| s == "--open").unwrap_or(false) {
            vcore::kf::set_open_sigs(argv.get(3).map(|s| s.split(',').map(|x| x.to_string()).collect()).unwrap_or_default());
        }
        std::fs::create_dir_all(&dir).unwrap();
        for (file, sig, case) in chk_cli::kfcases::kf_cases() {
            let (v, _) = vcore::runner::run_local(&chk_cli::C31, &case);
            match v {
                vcore::Verdict::Fail { sig: got, detail } if got == sig => {
                    let rf = vcore::runner::ReplayFile { property: "C31".into(), signature: got, detail, rendered: chk_cli::C31.render(&case), case };
                    std::fs::write(dir.join(file), serde_json::to_string_pretty(&rf).unwrap()).unwrap();
                    println!("wrote {} ({})", file, sig);
                }
                other => println!("skipped {}: wanted {}, got {:?}", file, sig, match other {
                    vcore::Verdict::Fail { sig, .. } => format!("FAIL {}", sig),
                    vcore::Verdict::Pass => "PASS".into(),
                    vcore::Verdict::Harness(m) => format!("HARNESS {}", m),
                }),
            }
        }
        return;
    }
    let code = match vcore::runner::parse_args(&argv) {
        Err(e) => {
            eprintln!("{}", e.replace("vcheck", "chk_cli"));
            2
        }
        Ok(args) => match args.id.as_str() {
            "C31" => vcore::runner::run_check(chk_cli::C31, args),
            other => {
                eprintln!("unknown property id {} (this binary serves C31)", other);
                2
            }
        },
    };
    std::process::exit(code);
}
