//! A CLI session: the `SqlExecutor` of the REPL plus the REPL's own dispatch of one input line.

use crate::commands::MetaCommand;
use crate::executor::{QueryResult, SqlExecutor};

pub struct Session {
    pub ex: SqlExecutor,
}

#[derive(Debug, Clone)]
pub struct LineOut {
    /// `Err` = what the REPL prints after "Error: "
    pub result: Result<Option<QueryResult>, String>,
    pub stdout: Vec<String>,
    pub stderr: Vec<String>,
}

impl Session {
    pub fn new() -> Result<Session, String> {
        SqlExecutor::new(None).map(|ex| Session { ex }).map_err(|e| e.to_string())
    }

    /// Mirror of `Repl::run`'s loop body + `Repl::handle_meta_command` for the commands the check uses:
    /// a line is a meta command if `MetaCommand::parse` says so, otherwise SQL for `SqlExecutor::execute`.
    pub fn line(&mut self, line: &str) -> LineOut {
        let _ = crate::sink::take();
        let result = if let Some(cmd) = MetaCommand::parse(line) {
            match cmd {
                MetaCommand::Copy { table, file_path, direction, format } => {
                    self.ex.handle_copy(&table, &file_path, direction, format).map(|_| None).map_err(|e| format!("{}", e))
                }
                MetaCommand::ListTables => self.ex.list_tables().map(|_| None).map_err(|e| format!("{}", e)),
                other => Err(format!("harness: meta command {:?} is not driven by this check", other)),
            }
        } else {
            self.ex.execute(line).map(Some).map_err(|e| format!("{}", e))
        };
        let (stdout, stderr) = crate::sink::take();
        LineOut { result, stdout, stderr }
    }
}
