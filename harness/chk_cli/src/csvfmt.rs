//! The harness's own RFC 4180 writer and reader (independent of the code under test and of the
//! `csv` crate). The writer turns a typed file description into bytes; the reader is the oracle's
//! definition of "the records of the file".

use serde::{Deserialize, Serialize};

#[derive(Clone, Debug, PartialEq, Eq, Serialize, Deserialize)]
pub struct Field {
    pub text: String,
    /// enclose in double quotes although the content does not need it (RFC 4180 rule 5)
    #[serde(default)]
    pub quoted: bool,
}

#[derive(Clone, Copy, Debug, PartialEq, Eq, Serialize, Deserialize)]
pub enum Eol {
    Lf,
    CrLf,
}

#[derive(Clone, Debug, Serialize, Deserialize)]
pub struct CsvFile {
    pub header: Vec<Field>,
    pub records: Vec<Vec<Field>>,
    pub eol: Eol,
    /// line break after the last record (optional in RFC 4180 rule 2)
    pub final_eol: bool,
}

pub fn needs_quotes(s: &str) -> bool {
    s.contains(',') || s.contains('"') || s.contains('\n') || s.contains('\r')
}

impl Field {
    pub fn plain(s: &str) -> Field {
        Field { text: s.to_string(), quoted: false }
    }
    /// will this field be written enclosed in double quotes?
    pub fn is_enclosed(&self, alone_in_record: bool) -> bool {
        self.quoted || needs_quotes(&self.text) || (alone_in_record && self.text.is_empty())
    }
}

fn write_record(out: &mut String, rec: &[Field]) {
    for (i, f) in rec.iter().enumerate() {
        if i > 0 {
            out.push(',');
        }
        // a record consisting of one empty field is written as `""`: an empty line would be ambiguous
        if f.is_enclosed(rec.len() == 1) {
            out.push('"');
            out.push_str(&f.text.replace('"', "\"\""));
            out.push('"');
        } else {
            out.push_str(&f.text);
        }
    }
}

impl CsvFile {
    pub fn render(&self) -> String {
        let eol = match self.eol {
            Eol::Lf => "\n",
            Eol::CrLf => "\r\n",
        };
        let mut out = String::new();
        write_record(&mut out, &self.header);
        for r in &self.records {
            out.push_str(eol);
            write_record(&mut out, r);
        }
        if self.final_eol {
            out.push_str(eol);
        }
        out
    }
}

/// RFC 4180 reader: records of fields. CRLF or LF ends a record; a field enclosed in double quotes may
/// contain commas, line breaks and `""` (one double quote). Spaces are part of a field.
pub fn read(text: &str) -> Result<Vec<Vec<String>>, String> {
    #[derive(PartialEq)]
    enum St {
        FieldStart,
        Unquoted,
        Quoted,
        AfterQuote,
    }
    let cs: Vec<char> = text.chars().collect();
    let mut recs: Vec<Vec<String>> = Vec::new();
    let mut rec: Vec<String> = Vec::new();
    let mut field = String::new();
    let mut st = St::FieldStart;
    let mut rec_started = false;
    let mut i = 0;
    while i < cs.len() {
        let c = cs[i];
        // line break outside quotes?
        let eol_len = if st != St::Quoted {
            if c == '\n' {
                1
            } else if c == '\r' && cs.get(i + 1) == Some(&'\n') {
                2
            } else {
                0
            }
        } else {
            0
        };
        if eol_len > 0 {
            rec.push(std::mem::take(&mut field));
            recs.push(std::mem::take(&mut rec));
            st = St::FieldStart;
            rec_started = false;
            i += eol_len;
            continue;
        }
        match st {
            St::FieldStart => match c {
                '"' => {
                    st = St::Quoted;
                    rec_started = true;
                }
                ',' => {
                    rec.push(std::mem::take(&mut field));
                    rec_started = true;
                }
                '\r' => return Err(format!("bare CR outside quotes at char {}", i)),
                _ => {
                    field.push(c);
                    st = St::Unquoted;
                    rec_started = true;
                }
            },
            St::Unquoted => match c {
                ',' => {
                    rec.push(std::mem::take(&mut field));
                    st = St::FieldStart;
                }
                '"' => return Err(format!("double quote inside an unquoted field at char {}", i)),
                '\r' => return Err(format!("bare CR outside quotes at char {}", i)),
                _ => field.push(c),
            },
            St::Quoted => match c {
                '"' => st = St::AfterQuote,
                _ => field.push(c),
            },
            St::AfterQuote => match c {
                '"' => {
                    field.push('"');
                    st = St::Quoted;
                }
                ',' => {
                    rec.push(std::mem::take(&mut field));
                    st = St::FieldStart;
                }
                _ => return Err(format!("character after closing quote at char {}", i)),
            },
        }
        i += 1;
    }
    if st == St::Quoted {
        return Err("unterminated quoted field".into());
    }
    if rec_started || st != St::FieldStart {
        rec.push(field);
        recs.push(rec);
    }
    Ok(recs)
}
