//! Minimal hand-written inputs for the recorded findings of C31 (written to replays/C31/kf-<n>.json
//! by `chk_cli mkreplays <dir>`).

use crate::c31::*;
use crate::csvfmt::{CsvFile, Eol, Field};
use crate::jsonfmt::{JVal, JsonFile};
use vcore::val::V;

fn col(name: &str, ty: Ty) -> Col {
    Col { name: name.into(), ty, delimited: false }
}
fn dcol(name: &str, ty: Ty) -> Col {
    Col { name: name.into(), ty, delimited: true }
}
fn table(cols: Vec<Col>, rows: Vec<Vec<V>>) -> TableData {
    TableData { def: TableDef { name: "t".into(), cols }, rows }
}
fn s(x: &str) -> V {
    V::Varchar(x.into())
}
fn roundtrip(rel: Rel, cols: Vec<Col>, rows: Vec<Vec<V>>) -> Case {
    Case { rel, target: table(cols, rows), others: vec![], csv: None, json: None, excluded: 0 }
}
fn csv(cols: Vec<Col>, header: Vec<Field>, records: Vec<Vec<Field>>) -> Case {
    Case { rel: Rel::ImportCsv, target: table(cols, vec![]), others: vec![], csv: Some(CsvFile { header, records, eol: Eol::Lf, final_eol: true }), json: None, excluded: 0 }
}
fn json(cols: Vec<Col>, records: Vec<Vec<(&str, JVal)>>) -> Case {
    let records = records.into_iter().map(|r| r.into_iter().map(|(k, v)| (k.to_string(), v)).collect()).collect();
    Case { rel: Rel::ImportJson, target: table(cols, vec![]), others: vec![], csv: None, json: Some(JsonFile { records, style: 0 }), excluded: 0 }
}
fn p(x: &str) -> Field {
    Field::plain(x)
}
fn q(x: &str) -> Field {
    Field { text: x.into(), quoted: true }
}

/// (file name, signature, case)
pub fn kf_cases() -> Vec<(&'static str, &'static str, Case)> {
    let other = TableData {
        def: TableDef { name: "other".into(), cols: vec![col("x", Ty::Int), col("y", Ty::Varchar)] },
        rows: vec![vec![V::Int(1), s("secret")]],
    };
    let mut later = json(vec![col("a", Ty::Varchar)], vec![vec![("a", JVal::Str("x".into()))], vec![("a) SELECT y FROM other --", JVal::Str("v".into()))]]);
    later.others = vec![other];
    vec![
        ("kf-1.json", X_CSV_HEADER, roundtrip(Rel::RoundTripCsv, vec![col("a", Ty::Int)], vec![vec![V::Int(1)]])),
        ("kf-2.json", X_CSV_DEBUG, roundtrip(Rel::RoundTripCsv, vec![col("a", Ty::Varchar)], vec![vec![s("bob")]])),
        ("kf-3.json", X_JSON_KEYS, roundtrip(Rel::RoundTripJson, vec![col("a", Ty::Int), col("b", Ty::Varchar)], vec![vec![V::Int(1), s("x")]])),
        ("kf-4.json", X_JSON_DEBUG, roundtrip(Rel::RoundTripJson, vec![col("a", Ty::Varchar)], vec![vec![s("bob")]])),
        ("kf-5.json", I_CSV_QHEADER, csv(vec![col("a", Ty::Varchar)], vec![q("a")], vec![vec![p("x")]])),
        ("kf-6.json", I_CSV_QCOMMA, csv(vec![col("a", Ty::Varchar)], vec![p("a")], vec![vec![p("x,y")]])),
        ("kf-7.json", I_CSV_QNEWLINE, csv(vec![col("a", Ty::Varchar)], vec![p("a")], vec![vec![p("x\ny")]])),
        ("kf-8.json", I_CSV_QKEPT, csv(vec![col("a", Ty::Varchar)], vec![p("a")], vec![vec![q("x")]])),
        ("kf-9.json", I_CSV_TYPED, csv(vec![col("a", Ty::Int)], vec![p("a")], vec![vec![p("1")]])),
        ("kf-10.json", I_CSV_EMPTY_TYPED, csv(vec![col("a", Ty::Varchar), col("b", Ty::Int)], vec![p("a"), p("b")], vec![vec![p("x"), p("")]])),
        ("kf-11.json", I_CSV_TRIM, csv(vec![col("a", Ty::Varchar)], vec![p("a")], vec![vec![p(" x")]])),
        ("kf-12.json", I_CSV_ODDCOL, csv(vec![dcol("my col", Ty::Varchar)], vec![p("my col")], vec![vec![p("x")]])),
        ("kf-13.json", I_JSON_LATERKEY, later),
        ("kf-14.json", I_JSON_TYPED, json(vec![col("a", Ty::Int)], vec![vec![("a", JVal::Int(1))]])),
        ("kf-15.json", I_JSON_STRNULL, json(vec![col("a", Ty::Varchar)], vec![vec![("a", JVal::Str("NULL".into()))]])),
        ("kf-16.json", I_JSON_ODDCOL, json(vec![dcol("my col", Ty::Varchar)], vec![vec![("my col", JVal::Str("x".into()))]])),
    ]
}
