//! Typed description of a JSON import file and the harness's own writer for it (key order as
//! generated, several whitespace / escape styles). Reading back is done with `serde_json::Value`.

use serde::{Deserialize, Serialize};

#[derive(Clone, Debug, PartialEq, Serialize, Deserialize)]
pub enum JVal {
    Null,
    Str(String),
    Int(i64),
    /// a JSON number literal, kept as text (`1.5`, `1e3`, `-0.25`)
    Num(String),
    Bool(bool),
    /// a nested value (array / object) given as raw JSON text
    Nested(String),
}

#[derive(Clone, Debug, Serialize, Deserialize)]
pub struct JsonFile {
    /// objects in file order; members in written order
    pub records: Vec<Vec<(String, JVal)>>,
    /// 0 compact, 1 pretty, 2 spaces around separators, 3 compact + non-ASCII as \uXXXX escapes
    pub style: u8,
}

pub fn escape(s: &str, ascii_only: bool) -> String {
    let mut o = String::with_capacity(s.len() + 2);
    o.push('"');
    for c in s.chars() {
        match c {
            '"' => o.push_str("\\\""),
            '\\' => o.push_str("\\\\"),
            '\n' => o.push_str("\\n"),
            '\r' => o.push_str("\\r"),
            '\t' => o.push_str("\\t"),
            c if (c as u32) < 0x20 => o.push_str(&format!("\\u{:04x}", c as u32)),
            c if ascii_only && (c as u32) > 0x7e => {
                let mut buf = [0u16; 2];
                for u in c.encode_utf16(&mut buf) {
                    o.push_str(&format!("\\u{:04x}", u));
                }
            }
            c => o.push(c),
        }
    }
    o.push('"');
    o
}

impl JVal {
    fn render(&self, ascii_only: bool) -> String {
        match self {
            JVal::Null => "null".into(),
            JVal::Str(s) => escape(s, ascii_only),
            JVal::Int(i) => i.to_string(),
            JVal::Num(t) => t.clone(),
            JVal::Bool(b) => b.to_string(),
            JVal::Nested(raw) => raw.clone(),
        }
    }
}

impl JsonFile {
    pub fn render(&self) -> String {
        let ascii = self.style == 3;
        let (open, sep, close, kv, item_sep, arr_open, arr_close) = match self.style {
            1 => ("{\n    ", ",\n    ", "\n  }", ": ", ",\n  ", "[\n  ", "\n]\n"),
            2 => ("{ ", " , ", " }", " : ", " ,\n", "[ ", " ]"),
            _ => ("{", ",", "}", ":", ",", "[", "]"),
        };
        if self.records.is_empty() {
            return "[]".into();
        }
        let mut o = String::from(arr_open);
        for (i, r) in self.records.iter().enumerate() {
            if i > 0 {
                o.push_str(item_sep);
            }
            if r.is_empty() {
                o.push_str("{}");
                continue;
            }
            o.push_str(open);
            for (j, (k, v)) in r.iter().enumerate() {
                if j > 0 {
                    o.push_str(sep);
                }
                o.push_str(&escape(k, ascii));
                o.push_str(kv);
                o.push_str(&v.render(ascii));
            }
            o.push_str(close);
        }
        o.push_str(arr_close);
        o
    }
}
