//! chk_cli — check C31 (CLI import/export transfers data faithfully and safely).
//!
//! `vibesql-cli` is a binary crate and `\copy` exists only in its interactive REPL, so the
//! real source files are compiled into this crate unchanged (`#[path]`) and driven exactly the
//! way `repl.rs` drives them: `MetaCommand::parse(line)` and then
//! `SqlExecutor::handle_copy(&table, &file_path, direction, format)`.
//!
//! The only stand-in is for the terminal: `println!` / `eprintln!` are shadowed (textual macro
//! scope) so that the CLI's progress messages and per-row warnings go to a thread-local buffer
//! instead of the check's stdout. Nothing on the import/export path is altered.
#![allow(dead_code, unused_imports, unused_macros, clippy::all)]

pub mod sink;

macro_rules! println {
    () => { $crate::sink::out(String::new()) };
    ($($t:tt)*) => { $crate::sink::out(format!($($t)*)) };
}
macro_rules! eprintln {
    () => { $crate::sink::err(String::new()) };
    ($($t:tt)*) => { $crate::sink::err(format!($($t)*)) };
}

#[path = "/repo/crates/vibesql-cli/src/commands.rs"]
pub mod commands;
#[cfg_attr(not(feature = "mutant"), path = "/repo/crates/vibesql-cli/src/data_io.rs")]
#[cfg_attr(feature = "mutant", path = "/tmp/c31_mutant/data_io.rs")]
pub mod data_io;
#[path = "/repo/crates/vibesql-cli/src/executor/mod.rs"]
pub mod executor;
#[path = "/repo/crates/vibesql-cli/src/formatter.rs"]
pub mod formatter;

pub mod cli;
pub mod csvfmt;
pub mod jsonfmt;
pub mod c31;
pub mod kfcases;
pub use c31::C31;
