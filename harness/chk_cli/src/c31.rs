//! C31 — CLI import/export transfers data faithfully and safely.
//!
//! Relation (a) `roundtrip_*`: `\copy t TO file` in one CLI session, `\copy t FROM file` into an empty
//! table of the same schema in a second session => same rows.
//! Relation (b) `import_*`: `\copy t FROM file` for an independently generated RFC 4180 CSV file / JSON
//! array => t == (rows before) + (records of the file according to the harness's own reader), the set of
//! tables is unchanged and every other table has the same contents.
//!
//! NULL / empty string (decision, from docs/CLI_GUIDE.md "File Format Details"): the documented CSV
//! representation of NULL is the *empty field*; RFC 4180 itself only knows the empty string. The oracle
//! therefore treats NULL and '' as one class in VARCHAR columns for CSV (either outcome is accepted, in
//! both relations); for INTEGER/DOUBLE/BOOLEAN/DATE columns an empty CSV field means NULL. The *text*
//! `NULL` is ordinary data in both formats. In JSON `null` is NULL, `""` is the empty string and `"NULL"`
//! is a four-character string; no confusion among them is accepted.

use crate::cli::{LineOut, Session};
use crate::csvfmt::{self, CsvFile, Eol, Field};
use crate::jsonfmt::{JVal, JsonFile};
use serde::{Deserialize, Serialize};
use std::path::PathBuf;
use std::sync::atomic::{AtomicU64, Ordering};
use vcore::val::V;
use vcore::{Check, GenCfg, Obs, Tape, Tier, Verdict};

pub struct C31;

// ---------------------------------------------------------------------------------------------
// known-finding signatures (relation + trigger)

pub const X_CSV_HEADER: &str = "export_csv.header_not_column_names";
pub const X_CSV_DEBUG: &str = "export_csv.debug_formatted_values";
pub const X_JSON_KEYS: &str = "export_json.keys_not_column_names";
pub const X_JSON_DEBUG: &str = "export_json.debug_formatted_values";
pub const I_CSV_QHEADER: &str = "import_csv.quoted_header_rejected";
pub const I_CSV_QCOMMA: &str = "import_csv.quoted_field.comma_splits_field";
pub const I_CSV_QNEWLINE: &str = "import_csv.quoted_field.newline_splits_record";
pub const I_CSV_QKEPT: &str = "import_csv.quoted_field.quotes_kept_as_data";
pub const I_CSV_TYPED: &str = "import_csv.typed_column_value_rejected";
pub const I_CSV_EMPTY_TYPED: &str = "import_csv.empty_field_typed_column";
pub const I_CSV_TRIM: &str = "import_csv.edge_whitespace_trimmed";
pub const I_CSV_ODDCOL: &str = "import_csv.column_name_not_delimited";
pub const I_JSON_LATERKEY: &str = "import_json.later_object_key_not_validated";
pub const I_JSON_TYPED: &str = "import_json.typed_column_value_rejected";
pub const I_JSON_STRNULL: &str = "import_json.string_NULL_becomes_null";
pub const I_JSON_ODDCOL: &str = "import_json.column_name_not_delimited";

// ---------------------------------------------------------------------------------------------
// case description

#[derive(Clone, Copy, Debug, PartialEq, Eq, Serialize, Deserialize)]
pub enum Ty {
    Int,
    Varchar,
    Double,
    Bool,
    Date,
}
impl Ty {
    fn sql(self) -> &'static str {
        match self {
            Ty::Int => "INTEGER",
            Ty::Varchar => "VARCHAR(200)",
            Ty::Double => "DOUBLE PRECISION",
            Ty::Bool => "BOOLEAN",
            Ty::Date => "DATE",
        }
    }
    /// INTEGER / DOUBLE / BOOLEAN: a quoted string literal is not accepted by the engine for these
    fn strict_typed(self) -> bool {
        matches!(self, Ty::Int | Ty::Double | Ty::Bool)
    }
}

#[derive(Clone, Debug, PartialEq, Eq, Serialize, Deserialize)]
pub struct Col {
    pub name: String,
    pub ty: Ty,
    /// declared as a delimited identifier ("my col"): the name is stored exactly as written
    #[serde(default)]
    pub delimited: bool,
}
impl Col {
    fn decl(&self) -> String {
        if self.delimited {
            format!("\"{}\" {}", self.name, self.ty.sql())
        } else {
            format!("{} {}", self.name, self.ty.sql())
        }
    }
    /// does a header field / JSON key name this column? (the CLI documents a case-insensitive match)
    fn named_by(&self, key: &str) -> bool {
        self.name.eq_ignore_ascii_case(key)
    }
}

#[derive(Clone, Debug, Serialize, Deserialize)]
pub struct TableDef {
    pub name: String,
    pub cols: Vec<Col>,
}
impl TableDef {
    fn create_sql(&self) -> String {
        format!("CREATE TABLE {} ({})", self.name, self.cols.iter().map(|c| c.decl()).collect::<Vec<_>>().join(", "))
    }
}

#[derive(Clone, Debug, Serialize, Deserialize)]
pub struct TableData {
    pub def: TableDef,
    pub rows: Vec<Vec<V>>,
}

#[derive(Clone, Copy, Debug, PartialEq, Eq, Serialize, Deserialize)]
pub enum Rel {
    RoundTripCsv,
    RoundTripJson,
    ImportCsv,
    ImportJson,
}

#[derive(Clone, Debug, Serialize, Deserialize)]
pub struct Case {
    pub rel: Rel,
    /// the exported table (round trip) / the import target with its pre-existing rows
    pub target: TableData,
    /// other tables of the database (import relations)
    #[serde(default)]
    pub others: Vec<TableData>,
    #[serde(default)]
    pub csv: Option<CsvFile>,
    #[serde(default)]
    pub json: Option<JsonFile>,
    /// generator switches turned off because of open known findings
    #[serde(default)]
    pub excluded: u32,
}

// ---------------------------------------------------------------------------------------------
// value pools

/// index 0 is the simplest entry
pub const STR_POOL: &[&str] = &[
    "a",
    "",
    "NULL",
    "bob",
    "it's",
    "a,b",
    "say \"hi\"",
    "line1\nline2",
    "x\r\ny",
    "'); DROP TABLE other; --",
    "x'); DELETE FROM other; --",
    "' OR '1'='1",
    "'), ('extra",
    "a'', ''b",
    "--",
    ";",
    "\\",
    "a\\'b",
    " lead",
    "trail ",
    "\ttab",
    " ",
    "é",
    "日本",
    "NULL,NULL",
    "\"",
    "''",
    "'",
    "0",
    "1e3",
    "true",
    "null",
    "(SELECT y FROM other)",
    "x' || (SELECT y FROM other) || '",
    "'; INSERT INTO other VALUES (99, 'pwn'); --",
    "Robert'); DROP TABLE users;--",
    "\"quoted\"",
    "a\"b,c\nd",
    "Column",
    "Null",
    "Integer(1)",
    "%s{}",
    "/* c */",
    "x'--",
    "',NULL); --",
];

const ODD_COL_NAMES: &[&str] = &["my col", "select", "NULL", "MiXed", "x-y", "order"];
const DOUBLE_TEXTS: &[&str] = &["1.5", "-0.25", "0.1", "100.0", "3", "1e3", "-2.5E-3", "10000000000.0", "0.0"];
const I64_POOL: &[i64] = &[0, 1, -1, 42, 100, -100, i64::MAX, i64::MIN, 1 << 53];

fn edge_ws(s: &str) -> bool {
    s.trim() != s
}
fn has_nl(s: &str) -> bool {
    s.contains('\n') || s.contains('\r')
}
fn sql_fragment(s: &str) -> bool {
    ["DROP ", "DELETE ", "INSERT ", "SELECT ", " OR ", "--", ";", "VALUES", "/*", "||"].iter().any(|k| s.contains(k)) || s.contains("'), (")
}
fn metachar(s: &str) -> bool {
    s.is_empty() || s == "NULL" || edge_ws(s) || s.chars().any(|c| matches!(c, ',' | '\'' | '"' | '\n' | '\r' | '\\' | ';' | '(' | ')' | '\t')) || s.contains("--")
}

/// the values the property names explicitly get a third of the draws
const CORE_POOL: &[&str] = &["a", "", "NULL", "it's", "'); DROP TABLE other; --", "a,b", "say \"hi\"", "line1\nline2"];

fn gen_str(t: &mut Tape, allow: &dyn Fn(&str) -> bool) -> String {
    let core = t.chance(1, 3);
    let mut pool: Vec<&str> = if core { CORE_POOL } else { STR_POOL }.iter().copied().filter(|s| allow(s)).collect();
    if pool.is_empty() {
        pool.push("a");
    }
    let a = pool[t.below(pool.len())].to_string();
    if t.chance(1, 6) {
        let b = pool[t.below(pool.len())];
        let c = format!("{}{}", a, b);
        if allow(&c) {
            return c;
        }
    }
    a
}

fn gen_i64(t: &mut Tape) -> i64 {
    match t.weighted(&[3, 2, 1]) {
        0 => t.range(0, 9),
        1 => *t.pick(I64_POOL),
        _ => (((t.raw() as u64) << 32) | t.raw() as u64) as i64,
    }
}
fn gen_date(t: &mut Tape) -> (i32, u8, u8) {
    let y = match t.weighted(&[4, 1]) {
        0 => t.range(1999, 2024) as i32,
        _ => *t.pick(&[1, 9999, 1000, 999, 1970]),
    };
    (y, t.range(1, 12) as u8, t.range(1, 28) as u8)
}

/// a table cell for the setup INSERTs (expressible as an SQL literal)
fn gen_cell(t: &mut Tape, ty: Ty) -> V {
    if t.chance(1, 6) {
        return V::Null;
    }
    match ty {
        Ty::Int => V::Int(gen_i64(t)),
        Ty::Varchar => V::Varchar(gen_str(t, &|_| true)),
        Ty::Double => V::dbl(match t.weighted(&[3, 1]) {
            0 => t.range(-40, 40) as f64 / 8.0,
            _ => *t.pick(&[0.1, 1e10, -1.5e-7, 100.0, 1.0 / 3.0, 1e300]),
        }),
        Ty::Bool => V::Bool(t.chance(1, 2)),
        Ty::Date => {
            let (y, m, d) = gen_date(t);
            V::Date(y, m, d)
        }
    }
}

fn gen_cols(t: &mut Tape, allow_odd: bool, force_varchar: bool) -> Vec<Col> {
    let n = 1 + t.weighted(&[2, 4, 3, 2]);
    let mut cols = Vec::new();
    let mut odd_used: Vec<&str> = Vec::new();
    for i in 0..n {
        let ty = match t.weighted(&[5, 2, 1, 1, 1]) {
            0 => Ty::Varchar,
            1 => Ty::Int,
            2 => Ty::Double,
            3 => Ty::Bool,
            _ => Ty::Date,
        };
        let odd = allow_odd && t.chance(1, 10);
        if odd {
            let name = *t.pick(ODD_COL_NAMES);
            if !odd_used.contains(&name) {
                odd_used.push(name);
                cols.push(Col { name: name.to_string(), ty, delimited: true });
                continue;
            }
        }
        cols.push(Col { name: ["a", "b", "c", "d"][i].to_string(), ty, delimited: false });
    }
    if force_varchar && !cols.iter().any(|c| c.ty == Ty::Varchar && !c.delimited) {
        cols[0] = Col { name: "a".into(), ty: Ty::Varchar, delimited: false };
    }
    cols
}

fn gen_rows(t: &mut Tape, cols: &[Col], max: usize) -> Vec<Vec<V>> {
    let n = t.below(max + 1);
    (0..n).map(|_| cols.iter().map(|c| gen_cell(t, c.ty)).collect()).collect()
}

fn gen_others(t: &mut Tape) -> Vec<TableData> {
    let mut v = vec![TableData {
        def: TableDef { name: "other".into(), cols: vec![Col { name: "x".into(), ty: Ty::Int, delimited: false }, Col { name: "y".into(), ty: Ty::Varchar, delimited: false }] },
        rows: vec![],
    }];
    let n = 1 + t.below(3);
    for i in 0..n {
        v[0].rows.push(vec![V::Int(i as i64 + 1), V::Varchar(["keep", "secret", "it's"][i].to_string())]);
    }
    if t.chance(1, 3) {
        v.push(TableData {
            def: TableDef { name: "users".into(), cols: vec![Col { name: "name".into(), ty: Ty::Varchar, delimited: false }] },
            rows: vec![vec![V::Varchar("root".into())]],
        });
    }
    v
}

/// identity on an exhausted tape
fn shuffle<T>(t: &mut Tape, v: &mut [T]) {
    for i in (1..v.len()).rev() {
        let j = i - t.below(i + 1);
        v.swap(i, j);
    }
}

fn vary_case(t: &mut Tape, c: &Col) -> String {
    if c.delimited {
        return c.name.clone();
    }
    match t.weighted(&[3, 1, 1]) {
        0 => c.name.clone(),
        1 => c.name.to_uppercase(),
        _ => c.name.to_lowercase(),
    }
}

// ---------------------------------------------------------------------------------------------
// generator

struct Avoid {
    x_csv: bool,
    x_json: bool,
    qheader: bool,
    qcomma: bool,
    qnewline: bool,
    qkept: bool,
    csv_typed: bool,
    csv_empty_typed: bool,
    trim: bool,
    csv_oddcol: bool,
    laterkey: bool,
    json_typed: bool,
    strnull: bool,
    json_oddcol: bool,
}

fn gen_csv(t: &mut Tape, def: &TableDef, av: &Avoid) -> CsvFile {
    // which columns the file supplies, in which order
    let mut idx: Vec<usize> = (0..def.cols.len()).filter(|&i| !(av.csv_typed && def.cols[i].ty.strict_typed())).collect();
    let mut keep: Vec<usize> = Vec::new();
    for &i in &idx {
        if !t.chance(1, 4) {
            keep.push(i);
        }
    }
    if keep.is_empty() {
        keep.push(idx[0]);
    }
    idx = keep;
    shuffle(t, &mut idx);
    let mut header: Vec<Field> = idx.iter().map(|&i| Field { text: vary_case(t, &def.cols[i]), quoted: false }).collect();
    if !av.qheader && t.chance(1, 12) {
        for h in header.iter_mut() {
            h.quoted = true;
        }
    }
    // sometimes a header that does not name columns of the table (the import must refuse or skip)
    if t.chance(1, 15) {
        let bad = *t.pick(&["zzz", "a) SELECT y FROM other --", "a; DROP TABLE other", "other.y", "*", "a) VALUES ('x') --"]);
        let pos = t.below(header.len() + 1);
        header.insert(pos, Field::plain(bad));
        idx.insert(pos, usize::MAX);
    }
    let allow = |s: &str| {
        !(av.qcomma && s.contains(','))
            && !(av.qnewline && has_nl(s))
            && !(av.qkept && s.contains('"'))
            && !(av.trim && edge_ws(s))
            // an unquoted empty field alone in a record would be an empty line
            && !(av.qkept && idx.len() == 1 && s.is_empty())
    };
    let nrec = t.weighted(&[1, 3, 3, 2, 1, 1]);
    let mut records = Vec::new();
    for _ in 0..nrec {
        let mut rec = Vec::new();
        for &i in &idx {
            if i == usize::MAX {
                rec.push(Field::plain("v"));
                continue;
            }
            let ty = def.cols[i].ty;
            let empty_ok = !(ty != Ty::Varchar && av.csv_empty_typed) && allow("");
            let text = if ty != Ty::Varchar && empty_ok && t.chance(1, 6) {
                String::new()
            } else {
                match ty {
                    Ty::Varchar => gen_str(t, &allow),
                    Ty::Int => gen_i64(t).to_string(),
                    Ty::Double => t.pick(DOUBLE_TEXTS).to_string(),
                    Ty::Bool => if t.chance(1, 2) { "true" } else { "false" }.to_string(),
                    Ty::Date => {
                        let (y, m, d) = gen_date(t);
                        format!("{:04}-{:02}-{:02}", y, m, d)
                    }
                }
            };
            let quoted = !av.qkept && t.chance(1, 8);
            rec.push(Field { text, quoted });
        }
        records.push(rec);
    }
    CsvFile { header, records, eol: if t.chance(1, 3) { Eol::CrLf } else { Eol::Lf }, final_eol: !t.chance(1, 4) }
}

fn gen_json(t: &mut Tape, def: &TableDef, av: &Avoid) -> JsonFile {
    let nrec = t.weighted(&[1, 3, 3, 2, 1, 1]);
    let first_varchar = def.cols.iter().find(|c| c.ty == Ty::Varchar && !c.delimited).map(|c| c.name.clone()).unwrap_or_else(|| "a".into());
    let bad_keys: Vec<String> = vec![
        "zzz".into(),
        format!("{}) VALUES ('inj1'), ('inj2') --", first_varchar),
        format!("{}) SELECT y FROM other --", first_varchar),
        format!("{}; DROP TABLE other; --", first_varchar),
        "it's".into(),
        "a,b \"q\"".into(),
        "line\nbreak".into(),
        "'); DROP TABLE other; --".into(),
        format!("{}) VALUES (NULL) --", first_varchar),
    ];
    let allow_str = |s: &str| !(av.strnull && s == "NULL");
    let mut records = Vec::new();
    for r in 0..nrec {
        let mut idx: Vec<usize> = (0..def.cols.len()).collect();
        shuffle(t, &mut idx);
        let mut rec: Vec<(String, JVal)> = Vec::new();
        for &i in &idx {
            let c = &def.cols[i];
            if t.chance(1, 5) {
                continue; // member missing
            }
            let key = vary_case(t, c);
            let typed_ok = !(av.json_typed && c.ty.strict_typed());
            let v = if t.chance(1, 6) || !typed_ok {
                JVal::Null
            } else {
                match c.ty {
                    Ty::Varchar => {
                        if t.chance(1, 14) {
                            JVal::Nested(t.pick(&["[1,2]", "{\"k\": \"it's\", \"j\": null}", "[\"a,b\", {\"q\": \"x'); DROP TABLE other; --\"}]", "[]", "{}"]).to_string())
                        } else {
                            JVal::Str(gen_str(t, &allow_str))
                        }
                    }
                    Ty::Int => JVal::Int(gen_i64(t)),
                    Ty::Double => JVal::Num(t.pick(DOUBLE_TEXTS).to_string()),
                    Ty::Bool => JVal::Bool(t.chance(1, 2)),
                    Ty::Date => {
                        let (y, m, d) = gen_date(t);
                        JVal::Str(format!("{:04}-{:02}-{:02}", y, m, d))
                    }
                }
            };
            rec.push((key, v));
        }
        // a member whose key is not a column of the table
        let bad_allowed = r == 0 || !av.laterkey;
        if bad_allowed && t.chance(1, if r == 0 { 14 } else { 5 }) {
            let k = bad_keys[t.below(bad_keys.len())].clone();
            let pos = t.below(rec.len() + 1);
            rec.insert(pos, (k, JVal::Str(gen_str(t, &allow_str))));
        }
        if rec.is_empty() {
            let c = &def.cols[0];
            rec.push((c.name.clone(), JVal::Null));
        }
        records.push(rec);
    }
    JsonFile { records, style: t.below(4) as u8 }
}

impl C31 {
    fn build_case(&self, t: &mut Tape, cfg: &GenCfg) -> Case {
        let av = Avoid {
            x_csv: cfg.avoiding(X_CSV_HEADER) || cfg.avoiding(X_CSV_DEBUG),
            x_json: cfg.avoiding(X_JSON_KEYS) || cfg.avoiding(X_JSON_DEBUG),
            qheader: cfg.avoiding(I_CSV_QHEADER),
            qcomma: cfg.avoiding(I_CSV_QCOMMA),
            qnewline: cfg.avoiding(I_CSV_QNEWLINE),
            qkept: cfg.avoiding(I_CSV_QKEPT),
            csv_typed: cfg.avoiding(I_CSV_TYPED),
            csv_empty_typed: cfg.avoiding(I_CSV_EMPTY_TYPED),
            trim: cfg.avoiding(I_CSV_TRIM),
            csv_oddcol: cfg.avoiding(I_CSV_ODDCOL),
            laterkey: cfg.avoiding(I_JSON_LATERKEY),
            json_typed: cfg.avoiding(I_JSON_TYPED),
            strnull: cfg.avoiding(I_JSON_STRNULL),
            json_oddcol: cfg.avoiding(I_JSON_ODDCOL),
        };
        // export is broken for every non-empty table on the pinned tree: where those findings are being
        // avoided the round-trip relation keeps only a small share and the import relation gets the rest
        let w_csv = if av.x_csv { 1 } else { 3 };
        let w_json = if av.x_json { 1 } else { 3 };
        let rel = match t.weighted(&[12, 12, w_csv, w_json]) {
            0 => Rel::ImportCsv,
            1 => Rel::ImportJson,
            2 => Rel::RoundTripCsv,
            _ => Rel::RoundTripJson,
        };
        let mut excluded = 0;
        match rel {
            Rel::RoundTripCsv | Rel::RoundTripJson => {
                excluded += if rel == Rel::RoundTripCsv { av.x_csv } else { av.x_json } as u32;
                let cols = gen_cols(t, false, false);
                let rows = gen_rows(t, &cols, 5);
                Case { rel, target: TableData { def: TableDef { name: "t".into(), cols }, rows }, others: vec![], csv: None, json: None, excluded }
            }
            Rel::ImportCsv => {
                for b in [av.qheader, av.qcomma, av.qnewline, av.qkept, av.csv_typed, av.csv_empty_typed, av.trim, av.csv_oddcol] {
                    excluded += b as u32;
                }
                let cols = gen_cols(t, !av.csv_oddcol, true);
                let def = TableDef { name: "t".into(), cols };
                let rows = if t.chance(1, 4) { gen_rows(t, &def.cols, 2) } else { vec![] };
                let others = gen_others(t);
                let csv = gen_csv(t, &def, &av);
                Case { rel, target: TableData { def, rows }, others, csv: Some(csv), json: None, excluded }
            }
            Rel::ImportJson => {
                for b in [av.laterkey, av.json_typed, av.strnull, av.json_oddcol] {
                    excluded += b as u32;
                }
                let cols = gen_cols(t, !av.json_oddcol, true);
                let def = TableDef { name: "t".into(), cols };
                let rows = if t.chance(1, 4) { gen_rows(t, &def.cols, 2) } else { vec![] };
                let others = gen_others(t);
                let json = gen_json(t, &def, &av);
                Case { rel, target: TableData { def, rows }, others, csv: None, json: Some(json), excluded }
            }
        }
    }
}

// ---------------------------------------------------------------------------------------------
// observation helpers

/// a row as the CLI shows it: Debug text of every value (exact: type tag + value)
type DRow = Vec<String>;

fn dbg_cell(v: &V) -> String {
    format!("{:?}", v.to_sql())
}
fn dbg_row(r: &[V]) -> DRow {
    r.iter().map(dbg_cell).collect()
}

struct TmpDir(PathBuf);
impl TmpDir {
    fn new() -> Result<TmpDir, String> {
        static N: AtomicU64 = AtomicU64::new(0);
        let p = PathBuf::from("/verif/target/tmp/c31").join(format!("{}-{}", std::process::id(), N.fetch_add(1, Ordering::Relaxed)));
        std::fs::create_dir_all(&p).map_err(|e| format!("cannot create {}: {}", p.display(), e))?;
        Ok(TmpDir(p))
    }
    fn file(&self, name: &str) -> String {
        self.0.join(name).to_string_lossy().into_owned()
    }
}
impl Drop for TmpDir {
    fn drop(&mut self) {
        let _ = std::fs::remove_dir_all(&self.0);
    }
}

fn sql(s: &mut Session, line: &str) -> Result<LineOut, String> {
    let o = s.line(line);
    match &o.result {
        Ok(_) => Ok(o),
        Err(e) => Err(format!("CLI rejected harness setup/observation line `{}`: {}", line, e)),
    }
}

fn table_rows(s: &mut Session, name: &str) -> Result<Vec<DRow>, String> {
    let o = sql(s, &format!("SELECT * FROM {}", name))?;
    let mut rows = o.result.ok().flatten().map(|r| r.rows).unwrap_or_default();
    rows.sort();
    Ok(rows)
}

/// `\dt` as the CLI prints it
fn list_tables(s: &mut Session) -> Result<Vec<String>, String> {
    let o = sql(s, "\\dt")?;
    let mut v: Vec<String> = o.stdout.iter().filter(|l| l.starts_with("  ")).map(|l| l.trim().to_string()).collect();
    v.sort();
    Ok(v)
}

fn setup_table(s: &mut Session, td: &TableData) -> Result<(), String> {
    sql(s, &td.def.create_sql())?;
    for r in &td.rows {
        let lits: Vec<String> = r.iter().map(|v| vcore::engine::lit(&v.to_sql())).collect();
        sql(s, &format!("INSERT INTO {} VALUES ({})", td.def.name, lits.join(", ")))?;
    }
    let mut want: Vec<DRow> = td.rows.iter().map(|r| dbg_row(r)).collect();
    want.sort();
    let have = table_rows(s, &td.def.name)?;
    if want != have {
        return Err(format!("setup of table {} not faithful: wanted {:?} have {:?}", td.def.name, want, have));
    }
    Ok(())
}

/// multiset difference a − b; Err(rows of b not found in a)
fn msub(a: &[DRow], b: &[DRow]) -> Result<Vec<DRow>, Vec<DRow>> {
    let mut rest: Vec<DRow> = a.to_vec();
    let mut missing = Vec::new();
    for r in b {
        if let Some(p) = rest.iter().position(|x| x == r) {
            rest.remove(p);
        } else {
            missing.push(r.clone());
        }
    }
    if missing.is_empty() {
        Ok(rest)
    } else {
        Err(missing)
    }
}

/// inverse of Rust's `Debug` for `str` (content between the quotes)
fn undebug(s: &str) -> Option<String> {
    let mut out = String::new();
    let mut it = s.chars();
    while let Some(c) = it.next() {
        if c != '\\' {
            out.push(c);
            continue;
        }
        match it.next()? {
            'n' => out.push('\n'),
            'r' => out.push('\r'),
            't' => out.push('\t'),
            '0' => out.push('\0'),
            '\\' => out.push('\\'),
            '"' => out.push('"'),
            '\'' => out.push('\''),
            'u' => {
                if it.next()? != '{' {
                    return None;
                }
                let mut h = String::new();
                loop {
                    let d = it.next()?;
                    if d == '}' {
                        break;
                    }
                    h.push(d);
                }
                out.push(char::from_u32(u32::from_str_radix(&h, 16).ok()?)?);
            }
            _ => return None,
        }
    }
    Some(out)
}

/// canonical form of a VARCHAR cell holding JSON array/object text (used only in cases with nested values)
fn canon_nested_cell(cell: &str) -> String {
    if let Some(inner) = cell.strip_prefix("Varchar(\"").and_then(|x| x.strip_suffix("\")")) {
        if let Some(txt) = undebug(inner) {
            if let Ok(v) = serde_json::from_str::<serde_json::Value>(&txt) {
                if v.is_array() || v.is_object() {
                    return format!("{:?}", vibesql_types::SqlValue::Varchar(v.to_string()));
                }
            }
        }
    }
    cell.to_string()
}

/// CSV: NULL and '' are one class in VARCHAR columns (documented NULL representation = empty field)
fn canon_csv_row(def: &TableDef, r: &DRow) -> DRow {
    r.iter()
        .enumerate()
        .map(|(i, c)| if def.cols.get(i).map(|c| c.ty) == Some(Ty::Varchar) && c == "Null" { "Varchar(\"\")".to_string() } else { c.clone() })
        .collect()
}

fn show_rows(rows: &[DRow]) -> String {
    if rows.is_empty() {
        return "  (no rows)\n".into();
    }
    rows.iter().take(12).map(|r| format!("  ({})\n", r.join(", "))).collect()
}

fn show_out(o: &LineOut) -> String {
    let mut s = match &o.result {
        Ok(_) => "CLI: ok\n".to_string(),
        Err(e) => format!("CLI: Error: {}\n", e),
    };
    for l in o.stdout.iter().chain(o.stderr.iter()).take(8) {
        s.push_str(&format!("CLI: {}\n", l));
    }
    s
}

// ---------------------------------------------------------------------------------------------
// expected rows of an import file

struct Expect {
    /// rows that must be added
    required: Vec<DRow>,
    /// index (in the file) of the record behind each required row
    req_rec: Vec<usize>,
    opt_rec: Vec<usize>,
    /// rows that may be added (records with nested JSON values: stored as JSON text or skipped)
    optional: Vec<DRow>,
    /// some record cannot be mapped onto the table (unknown / duplicate key): the import may refuse the whole
    /// file (nothing added) or skip those records; it must never add anything else
    refusal_allowed: bool,
    /// harness self-check failure
    harness: Option<String>,
}

/// map header fields / keys onto column indexes; None if a key names no column or a column is named twice
fn map_keys(def: &TableDef, keys: &[String]) -> Option<Vec<usize>> {
    let mut out = Vec::new();
    for k in keys {
        let i = def.cols.iter().position(|c| c.named_by(k))?;
        if out.contains(&i) {
            return None;
        }
        out.push(i);
    }
    Some(out)
}

fn parse_date(s: &str) -> Option<V> {
    let p: Vec<&str> = s.split('-').collect();
    if p.len() != 3 {
        return None;
    }
    Some(V::Date(p[0].parse().ok()?, p[1].parse().ok()?, p[2].parse().ok()?))
}

/// typed value of a CSV field text for a column (generated typed fields are canonical)
fn csv_value(ty: Ty, text: &str) -> Option<V> {
    if text.is_empty() {
        return Some(if ty == Ty::Varchar { V::Varchar(String::new()) } else { V::Null });
    }
    Some(match ty {
        Ty::Varchar => V::Varchar(text.to_string()),
        Ty::Int => V::Int(text.parse().ok()?),
        Ty::Double => V::dbl(text.parse().ok()?),
        Ty::Bool => V::Bool(match text {
            "true" => true,
            "false" => false,
            _ => return None,
        }),
        Ty::Date => parse_date(text)?,
    })
}

fn expect_csv(def: &TableDef, file_text: &str, intended: &CsvFile) -> Expect {
    let mut e = Expect { required: vec![], req_rec: vec![], opt_rec: vec![], optional: vec![], refusal_allowed: false, harness: None };
    let recs = match csvfmt::read(file_text) {
        Ok(r) => r,
        Err(m) => {
            e.harness = Some(format!("harness CSV writer produced a file its RFC 4180 reader rejects: {}", m));
            return e;
        }
    };
    // self-check: reader(writer(x)) == x
    let mut want: Vec<Vec<String>> = vec![intended.header.iter().map(|f| f.text.clone()).collect()];
    want.extend(intended.records.iter().map(|r| r.iter().map(|f| f.text.clone()).collect::<Vec<_>>()));
    if recs != want {
        e.harness = Some(format!("RFC 4180 reader/writer disagree: wrote {:?}, read {:?}", want, recs));
        return e;
    }
    // self-check: the `csv` crate (default RFC 4180 dialect) reads the same records
    let mut rd = csv::ReaderBuilder::new().has_headers(false).flexible(true).from_reader(file_text.as_bytes());
    let third: Result<Vec<Vec<String>>, csv::Error> = rd.records().map(|r| r.map(|rec| rec.iter().map(|f| f.to_string()).collect())).collect();
    match third {
        Ok(t) if t == recs => {}
        other => {
            e.harness = Some(format!("harness RFC 4180 reader and the csv crate disagree on {:?}: harness {:?}, csv crate {:?}", file_text, recs, other));
            return e;
        }
    }
    let Some(map) = map_keys(def, &recs[0]) else {
        e.refusal_allowed = true;
        return e;
    };
    for (ri, r) in recs[1..].iter().enumerate() {
        let mut row = vec![V::Null; def.cols.len()];
        for (f, &ci) in r.iter().zip(map.iter()) {
            match csv_value(def.cols[ci].ty, f) {
                Some(v) => row[ci] = v,
                None => {
                    e.harness = Some(format!("generated CSV field {:?} is not canonical for {:?}", f, def.cols[ci].ty));
                    return e;
                }
            }
        }
        e.required.push(dbg_row(&row));
        e.req_rec.push(ri);
    }
    e
}

fn expect_json(def: &TableDef, file_text: &str, intended: &JsonFile) -> Expect {
    let mut e = Expect { required: vec![], req_rec: vec![], opt_rec: vec![], optional: vec![], refusal_allowed: false, harness: None };
    let parsed: serde_json::Value = match serde_json::from_str(file_text) {
        Ok(v) => v,
        Err(m) => {
            e.harness = Some(format!("harness JSON writer produced invalid JSON: {}\n{}", m, file_text));
            return e;
        }
    };
    let Some(arr) = parsed.as_array() else {
        e.harness = Some("generated JSON is not an array".into());
        return e;
    };
    if arr.len() != intended.records.len() {
        e.harness = Some("JSON reader/writer disagree on the number of records".into());
        return e;
    }
    for (ri, (obj, want)) in arr.iter().zip(intended.records.iter()).enumerate() {
        let Some(obj) = obj.as_object() else {
            e.harness = Some("generated JSON record is not an object".into());
            return e;
        };
        // self-check: every intended member is read back with the intended value
        if obj.len() != want.len() {
            e.harness = Some(format!("JSON reader/writer disagree on members: wrote {:?}, read {:?}", want, obj));
            return e;
        }
        for (k, v) in want {
            let got = obj.get(k);
            let ok = match (v, got) {
                (JVal::Null, Some(serde_json::Value::Null)) => true,
                (JVal::Str(s), Some(serde_json::Value::String(g))) => s == g,
                (JVal::Int(i), Some(serde_json::Value::Number(n))) => n.as_i64() == Some(*i),
                (JVal::Num(txt), Some(serde_json::Value::Number(n))) => txt.parse::<f64>().ok() == n.as_f64(),
                (JVal::Bool(b), Some(serde_json::Value::Bool(g))) => b == g,
                (JVal::Nested(raw), Some(g)) => serde_json::from_str::<serde_json::Value>(raw).ok().as_ref() == Some(g),
                _ => false,
            };
            if !ok {
                e.harness = Some(format!("JSON reader/writer disagree on member {:?}: wrote {:?}, read {:?}", k, v, got));
                return e;
            }
        }
        // the record as a row of the table
        let keys: Vec<String> = obj.keys().cloned().collect();
        let Some(map) = map_keys(def, &keys) else {
            e.refusal_allowed = true;
            continue;
        };
        let mut row = vec![V::Null; def.cols.len()];
        let mut nested = false;
        for (k, &ci) in keys.iter().zip(map.iter()) {
            let ty = def.cols[ci].ty;
            let v = &obj[k];
            let cell = match (ty, v) {
                (_, serde_json::Value::Null) => Some(V::Null),
                (Ty::Varchar, serde_json::Value::String(s)) => Some(V::Varchar(s.clone())),
                (Ty::Varchar, v) if v.is_array() || v.is_object() => {
                    nested = true;
                    Some(V::Varchar(v.to_string()))
                }
                (Ty::Int, serde_json::Value::Number(n)) => n.as_i64().map(V::Int),
                (Ty::Double, serde_json::Value::Number(n)) => n.as_f64().map(V::dbl),
                (Ty::Bool, serde_json::Value::Bool(b)) => Some(V::Bool(*b)),
                (Ty::Date, serde_json::Value::String(s)) => parse_date(s),
                _ => None,
            };
            match cell {
                Some(c) => row[ci] = c,
                None => {
                    e.harness = Some(format!("generated JSON value {} is not canonical for {:?}", v, ty));
                    return e;
                }
            }
        }
        if nested {
            e.optional.push(dbg_row(&row));
            e.opt_rec.push(ri);
        } else {
            e.required.push(dbg_row(&row));
            e.req_rec.push(ri);
        }
    }
    e
}

// ---------------------------------------------------------------------------------------------
// triggers of recorded findings present in a case

/// Input features that are the triggers of recorded findings. `file`: features whose effect is file-wide
/// (the import is refused or every row is affected); `rec[i]`: features of record i (affect that record only).
struct Triggers {
    file: Vec<&'static str>,
    rec: Vec<Vec<&'static str>>,
}

const SIG_ORDER: &[&str] = &[
    I_CSV_QHEADER,
    I_CSV_QCOMMA,
    I_CSV_QNEWLINE,
    I_CSV_QKEPT,
    I_CSV_TYPED,
    I_CSV_EMPTY_TYPED,
    I_CSV_TRIM,
    I_CSV_ODDCOL,
    I_JSON_LATERKEY,
    I_JSON_TYPED,
    I_JSON_STRNULL,
    I_JSON_ODDCOL,
];

impl Triggers {
    /// candidates for a failure that involves the given records (None = cannot be narrowed down: all records)
    fn candidates(&self, records: Option<&[usize]>) -> Vec<&'static str> {
        let mut c: Vec<&'static str> = self.file.clone();
        match records {
            Some(ix) => {
                for &i in ix {
                    if let Some(r) = self.rec.get(i) {
                        c.extend(r.iter().copied());
                    }
                }
            }
            None => c.extend(self.rec.iter().flatten().copied()),
        }
        let mut out: Vec<&'static str> = SIG_ORDER.iter().copied().filter(|s| c.contains(s)).collect();
        out.dedup();
        out
    }
}

/// The signature of a failure: the first candidate trigger that is recorded as open, else the first candidate,
/// else `unclassified`.
fn pick_sig(cands: &[&'static str], fallback: String) -> String {
    if let Some(s) = cands.iter().find(|s| vcore::kf::is_open_global(s)) {
        return s.to_string();
    }
    cands.first().map(|s| s.to_string()).unwrap_or(fallback)
}

fn csv_triggers(def: &TableDef, f: &CsvFile) -> Triggers {
    let mut file = Vec::new();
    let keys: Vec<String> = f.header.iter().map(|h| h.text.clone()).collect();
    let map = map_keys(def, &keys);
    let single = f.header.len() == 1;
    if f.header.iter().any(|h| h.is_enclosed(single)) {
        file.push(I_CSV_QHEADER);
    }
    // a comma / line break inside a quoted field derails the line-and-comma splitter for the whole file
    let fields = || f.records.iter().flat_map(|r| r.iter());
    if fields().any(|x| x.text.contains(',')) {
        file.push(I_CSV_QCOMMA);
    }
    if fields().any(|x| has_nl(&x.text)) {
        file.push(I_CSV_QNEWLINE);
    }
    if let Some(map) = &map {
        if !f.records.is_empty() && map.iter().any(|&ci| def.cols[ci].delimited) {
            file.push(I_CSV_ODDCOL);
        }
    }
    let mut rec = Vec::new();
    for r in &f.records {
        let mut v = Vec::new();
        if r.iter().any(|x| x.is_enclosed(single)) {
            v.push(I_CSV_QKEPT);
        }
        if let Some(map) = &map {
            let any = |pred: &dyn Fn(Ty, &str) -> bool| r.iter().zip(map.iter()).any(|(x, &ci)| pred(def.cols[ci].ty, &x.text));
            if any(&|ty, s| ty.strict_typed() && !s.is_empty()) {
                v.push(I_CSV_TYPED);
            }
            if any(&|ty, s| ty != Ty::Varchar && s.is_empty()) {
                v.push(I_CSV_EMPTY_TYPED);
            }
        }
        if r.iter().any(|x| edge_ws(&x.text)) {
            v.push(I_CSV_TRIM);
        }
        rec.push(v);
    }
    Triggers { file, rec }
}

fn json_triggers(def: &TableDef, f: &JsonFile) -> Triggers {
    let mut file = Vec::new();
    let unmappable = |r: &Vec<(String, JVal)>| {
        let keys: Vec<String> = r.iter().map(|(k, _)| k.clone()).collect();
        map_keys(def, &keys).is_none()
    };
    if f.records.iter().skip(1).any(unmappable) {
        file.push(I_JSON_LATERKEY);
    }
    let mut rec = Vec::new();
    for r in &f.records {
        let mut v = Vec::new();
        if r.iter().any(|(k, x)| matches!(x, JVal::Int(_) | JVal::Num(_) | JVal::Bool(_)) && def.cols.iter().any(|c| c.named_by(k) && c.ty.strict_typed())) {
            v.push(I_JSON_TYPED);
        }
        if r.iter().any(|(_, x)| matches!(x, JVal::Str(s) if s == "NULL")) {
            v.push(I_JSON_STRNULL);
        }
        if r.iter().any(|(k, _)| def.cols.iter().any(|c| c.delimited && c.named_by(k))) {
            v.push(I_JSON_ODDCOL);
        }
        rec.push(v);
    }
    Triggers { file, rec }
}

// ---------------------------------------------------------------------------------------------
// relation (b)

fn run_import(case: &Case, obs: &mut Obs) -> Verdict {
    let is_csv = case.rel == Rel::ImportCsv;
    let relname = if is_csv { "import_csv" } else { "import_json" };
    let def = &case.target.def;
    let (file_text, triggers) = if is_csv {
        let Some(f) = &case.csv else { return Verdict::Harness("ImportCsv case without csv file".into()) };
        (f.render(), csv_triggers(def, f))
    } else {
        let Some(f) = &case.json else { return Verdict::Harness("ImportJson case without json file".into()) };
        (f.render(), json_triggers(def, f))
    };
    let exp = if is_csv { expect_csv(def, &file_text, case.csv.as_ref().unwrap()) } else { expect_json(def, &file_text, case.json.as_ref().unwrap()) };
    if let Some(m) = exp.harness {
        return Verdict::Harness(m);
    }
    let dir = match TmpDir::new() {
        Ok(d) => d,
        Err(e) => return Verdict::Harness(e),
    };
    let path = dir.file(if is_csv { "in.csv" } else { "in.json" });
    if let Err(e) = std::fs::write(&path, file_text.as_bytes()) {
        return Verdict::Harness(format!("cannot write {}: {}", path, e));
    }
    let mut s = match Session::new() {
        Ok(s) => s,
        Err(e) => return Verdict::Harness(e),
    };
    for td in std::iter::once(&case.target).chain(case.others.iter()) {
        if let Err(e) = setup_table(&mut s, td) {
            return Verdict::Harness(e);
        }
    }
    let snap = |s: &mut Session| -> Result<(Vec<String>, Vec<Vec<DRow>>), String> {
        let tables = list_tables(s)?;
        let mut contents = Vec::new();
        for td in &case.others {
            contents.push(table_rows(s, &td.def.name)?);
        }
        Ok((tables, contents))
    };
    let before = match snap(&mut s) {
        Ok(x) => x,
        Err(e) => return Verdict::Harness(e),
    };
    let pre = match table_rows(&mut s, &def.name) {
        Ok(x) => x,
        Err(e) => return Verdict::Harness(e),
    };
    // the documented form: \copy users FROM '/tmp/users.csv'
    let line = format!("\\copy {} FROM '{}'", def.name, path);
    let out = s.line(&line);
    obs.sub_evals += 1;
    let ctx = |what: &str| format!("{}\n{}file:\n{}\n", what, show_out(&out), vcore::runner::truncate(&file_text, 1500));
    // safety: set of tables and other tables' contents (never attributed to a recorded finding)
    let tables_after = match list_tables(&mut s) {
        Ok(x) => x,
        Err(e) => return Verdict::fail(format!("{}.safety.catalog_unreadable", relname), ctx(&e)),
    };
    if tables_after != before.0 {
        return Verdict::fail(format!("{}.safety.set_of_tables_changed", relname), ctx(&format!("tables before {:?}, after {:?}", before.0, tables_after)));
    }
    for (i, td) in case.others.iter().enumerate() {
        match table_rows(&mut s, &td.def.name) {
            Ok(rows) if rows == before.1[i] => {}
            Ok(rows) => {
                return Verdict::fail(
                    format!("{}.safety.other_table_changed", relname),
                    ctx(&format!("table {} before:\n{}after:\n{}", td.def.name, show_rows(&before.1[i]), show_rows(&rows))),
                )
            }
            Err(e) => return Verdict::fail(format!("{}.safety.other_table_unreadable", relname), ctx(&e)),
        }
    }
    let actual = match table_rows(&mut s, &def.name) {
        Ok(x) => x,
        Err(e) => return Verdict::fail(format!("{}.safety.target_unreadable", relname), ctx(&e)),
    };
    // fidelity
    let has_nested = !exp.optional.is_empty();
    let canon = |r: &DRow| -> DRow {
        let r = if is_csv { canon_csv_row(def, r) } else { r.clone() };
        if has_nested {
            r.iter().map(|c| canon_nested_cell(c)).collect()
        } else {
            r
        }
    };
    let actual_c: Vec<DRow> = actual.iter().map(&canon).collect();
    let pre_c: Vec<DRow> = pre.iter().map(&canon).collect();
    let required: Vec<DRow> = exp.required.iter().map(&canon).collect();
    let optional: Vec<DRow> = exp.optional.iter().map(&canon).collect();
    // (shape, text, records involved: Some(indexes) when the failure can be pinned on records of the file)
    let problem: Option<(&str, String, Option<Vec<usize>>)> = match msub(&actual_c, &pre_c) {
        Err(lost) => Some(("preexisting_rows_lost", format!("rows present before the import are gone:\n{}", show_rows(&lost)), Some(vec![]))),
        Ok(added) => {
            if exp.refusal_allowed && added.is_empty() {
                None
            } else {
                match msub(&added, &required) {
                    Err(missing) => {
                        let involved: Vec<usize> = required.iter().zip(exp.req_rec.iter()).filter(|(r, _)| missing.contains(r)).map(|(_, &i)| i).collect();
                        Some(("missing_rows", format!("records of the file that are not in the table:\n{}rows added by the import:\n{}", show_rows(&missing), show_rows(&added)), Some(involved)))
                    }
                    Ok(extra) => match msub(&optional, &extra) {
                        Ok(_) => None,
                        // rows that are no record of the file: file-wide triggers, or a mangled optional record
                        Err(alien) => {
                            let involved: Vec<usize> = optional.iter().zip(exp.opt_rec.iter()).filter(|(r, _)| !extra.contains(r)).map(|(_, &i)| i).collect();
                            Some((
                                "extra_rows",
                                format!("rows in the table that are not records of the file:\n{}records of the file:\n{}{}", show_rows(&alien), show_rows(&required), show_rows(&optional)),
                                Some(involved),
                            ))
                        }
                    },
                }
            }
        }
    };
    let Some((shape, text, involved)) = problem else {
        return Verdict::Pass;
    };
    let cands = if shape == "preexisting_rows_lost" { vec![] } else { triggers.candidates(involved.as_deref()) };
    let sig = pick_sig(&cands, format!("{}.unclassified.{}", relname, shape));
    Verdict::fail(sig, ctx(&format!("[{}] {}", shape, text)))
}

// ---------------------------------------------------------------------------------------------
// relation (a)

fn import_fresh(def: &TableDef, path: &str) -> Result<(Vec<DRow>, LineOut), String> {
    let mut s = Session::new()?;
    sql(&mut s, &def.create_sql())?;
    let out = s.line(&format!("\\copy {} FROM '{}'", def.name, path));
    let rows = table_rows(&mut s, &def.name)?;
    Ok((rows, out))
}

/// A finding inside a case: if it is recorded as open, note it and let the case go on; otherwise fail now.
macro_rules! known_or_fail {
    ($obs:expr, $sig:expr, $detail:expr) => {
        if vcore::kf::is_open_global($sig) {
            if !$obs.known_hits.iter().any(|k| k == $sig) {
                $obs.known_hits.push($sig.to_string());
            }
        } else {
            return Verdict::fail($sig, $detail);
        }
    };
}

fn run_roundtrip(case: &Case, obs: &mut Obs) -> Verdict {
    let is_csv = case.rel == Rel::RoundTripCsv;
    let def = &case.target.def;
    let dir = match TmpDir::new() {
        Ok(d) => d,
        Err(e) => return Verdict::Harness(e),
    };
    let mut s = match Session::new() {
        Ok(s) => s,
        Err(e) => return Verdict::Harness(e),
    };
    if let Err(e) = setup_table(&mut s, &case.target) {
        return Verdict::Harness(e);
    }
    // rows in the order `SELECT * FROM t` returns them (the order the export writes them)
    let original: Vec<DRow> = match sql(&mut s, &format!("SELECT * FROM {}", def.name)) {
        Ok(o) => o.result.ok().flatten().map(|r| r.rows).unwrap_or_default(),
        Err(e) => return Verdict::Harness(e),
    };
    let canon = |r: &DRow| if is_csv { canon_csv_row(def, r) } else { r.clone() };
    let same = |rows: &[DRow]| {
        let mut a: Vec<DRow> = original.iter().map(&canon).collect();
        let mut b: Vec<DRow> = rows.iter().map(&canon).collect();
        a.sort();
        b.sort();
        a == b
    };
    let path = dir.file(if is_csv { "out.csv" } else { "out.json" });
    let xout = s.line(&format!("\\copy {} TO '{}'", def.name, path));
    obs.sub_evals += 1;
    let fmt = if is_csv { "csv" } else { "json" };
    if let Err(e) = &xout.result {
        return Verdict::fail(format!("export_{}.error", fmt), format!("\\copy t TO failed: {}", e));
    }
    let file_text = match std::fs::read_to_string(&path) {
        Ok(t) => t,
        Err(e) => return Verdict::fail(format!("export_{}.no_file", fmt), format!("export reported success but {} cannot be read: {}", path, e)),
    };
    let (rows2, iout) = match import_fresh(def, &path) {
        Ok(x) => x,
        Err(e) => return Verdict::Harness(e),
    };
    obs.sub_evals += 1;
    if same(&rows2) {
        return Verdict::Pass;
    }
    let detail = |what: &str, rows: &[DRow], iout: &LineOut| {
        format!(
            "{}\noriginal rows:\n{}rows after export + import into an empty table of the same schema:\n{}import: {}exported file:\n{}",
            what,
            show_rows(&original),
            show_rows(rows),
            show_out(iout),
            vcore::runner::truncate(&file_text, 1500)
        )
    };
    let names: Vec<String> = def.cols.iter().map(|c| c.name.clone()).collect();
    let dbg_everywhere = |cells: &[Vec<String>]| !original.is_empty() && cells.len() == original.len() && cells.iter().zip(original.iter()).all(|(a, b)| a == b);
    if is_csv {
        let recs = match csvfmt::read(&file_text) {
            Ok(r) if !r.is_empty() => r,
            Ok(_) => return Verdict::fail("export_csv.empty_file", detail("exported file has no header", &rows2, &iout)),
            Err(m) => return Verdict::fail("export_csv.not_rfc4180", detail(&format!("exported file is not RFC 4180: {}", m), &rows2, &iout)),
        };
        let mut path_now = path.clone();
        let mut rows_now = rows2;
        let mut iout_now = iout;
        let header_ok = recs[0].len() == names.len() && recs[0].iter().zip(names.iter()).all(|(h, n)| h.eq_ignore_ascii_case(n));
        if !header_ok {
            known_or_fail!(obs, X_CSV_HEADER, detail(&format!("header of the exported file is {:?}, the columns are {:?}", recs[0], names), &rows_now, &iout_now));
            // look behind the finding: same file with the header line the import documents (column names)
            let Some(nl) = file_text.find('\n') else { return Verdict::Pass };
            let repaired = format!("{}{}", names.join(","), &file_text[nl..]);
            path_now = dir.file("repaired.csv");
            if let Err(e) = std::fs::write(&path_now, repaired) {
                return Verdict::Harness(format!("cannot write repaired file: {}", e));
            }
            match import_fresh(def, &path_now) {
                Ok((r, o)) => {
                    rows_now = r;
                    iout_now = o;
                }
                Err(e) => return Verdict::Harness(e),
            }
            obs.sub_evals += 1;
            if same(&rows_now) {
                return Verdict::Pass;
            }
        }
        let _ = path_now;
        if dbg_everywhere(&recs[1..]) {
            known_or_fail!(obs, X_CSV_DEBUG, detail("every exported field is the Rust Debug text of the value (type tag included), which the import stores as a string", &rows_now, &iout_now));
            return Verdict::Pass;
        }
        // values are not Debug text: the remaining suspects are the import-side findings on this file
        let as_file = CsvFile {
            header: recs[0].iter().map(|s| Field::plain(s)).collect(),
            records: recs[1..].iter().map(|r| r.iter().map(|s| Field::plain(s)).collect()).collect(),
            eol: Eol::Lf,
            final_eol: true,
        };
        let sig = pick_sig(&csv_triggers(def, &as_file).candidates(None), "roundtrip_csv.rows_differ".into());
        Verdict::fail(sig, detail("rows differ after the round trip", &rows_now, &iout_now))
    } else {
        let parsed: Option<Vec<serde_json::Map<String, serde_json::Value>>> = serde_json::from_str(&file_text).ok();
        let Some(objs) = parsed else {
            return Verdict::fail("export_json.not_an_array_of_objects", detail("exported file is not a JSON array of objects", &rows2, &iout));
        };
        let mut rows_now = rows2;
        let mut iout_now = iout;
        let keys_ok = objs.iter().all(|o| o.len() == names.len() && names.iter().all(|n| o.keys().any(|k| k.eq_ignore_ascii_case(n))));
        if !keys_ok || objs.len() != original.len() {
            known_or_fail!(
                obs,
                X_JSON_KEYS,
                detail(&format!("keys of the exported objects are {:?}, the columns are {:?}", objs.first().map(|o| o.keys().cloned().collect::<Vec<_>>()), names), &rows_now, &iout_now)
            );
            // look behind: possible only for one-column tables (otherwise the colliding keys have lost the data)
            if names.len() != 1 || objs.iter().any(|o| o.len() != 1) || objs.len() != original.len() {
                return Verdict::Pass;
            }
            let repaired: Vec<serde_json::Value> = objs.iter().map(|o| serde_json::json!({ names[0].clone(): o.values().next().cloned().unwrap_or(serde_json::Value::Null) })).collect();
            let p = dir.file("repaired.json");
            if let Err(e) = std::fs::write(&p, serde_json::to_string(&repaired).unwrap_or_default()) {
                return Verdict::Harness(format!("cannot write repaired file: {}", e));
            }
            match import_fresh(def, &p) {
                Ok((r, o)) => {
                    rows_now = r;
                    iout_now = o;
                }
                Err(e) => return Verdict::Harness(e),
            }
            obs.sub_evals += 1;
            if same(&rows_now) {
                return Verdict::Pass;
            }
        }
        // Debug text everywhere? (objects with one colliding key hold the last column only)
        let cells: Vec<Vec<String>> = objs.iter().map(|o| o.values().map(|v| v.as_str().unwrap_or("").to_string()).collect()).collect();
        let last_or_all = !original.is_empty()
            && cells.len() == original.len()
            && cells.iter().zip(original.iter()).all(|(c, o)| c.iter().all(|x| o.contains(x)) && !c.is_empty());
        if last_or_all {
            known_or_fail!(obs, X_JSON_DEBUG, detail("every exported value is a JSON string holding the Rust Debug text of the value (type tag included)", &rows_now, &iout_now));
            return Verdict::Pass;
        }
        Verdict::fail("roundtrip_json.rows_differ", detail("rows differ after the round trip", &rows_now, &iout_now))
    }
}

// ---------------------------------------------------------------------------------------------
// classes / non-triviality

fn classify(case: &Case, obs: &mut Obs) {
    obs.class(match case.rel {
        Rel::RoundTripCsv => "rel:roundtrip_csv",
        Rel::RoundTripJson => "rel:roundtrip_json",
        Rel::ImportCsv => "rel:import_csv",
        Rel::ImportJson => "rel:import_json",
    });
    let mut strs: Vec<String> = Vec::new();
    let mut nulls = 0;
    let in_rows = matches!(case.rel, Rel::RoundTripCsv | Rel::RoundTripJson);
    if in_rows {
        for r in &case.target.rows {
            for v in r {
                match v {
                    V::Null => nulls += 1,
                    V::Varchar(s) => strs.push(s.clone()),
                    _ => {}
                }
            }
        }
        if case.target.rows.is_empty() {
            obs.class("table:empty");
        }
    }
    if let Some(f) = &case.csv {
        for r in &f.records {
            for x in r {
                strs.push(x.text.clone());
                if x.text.is_empty() {
                    nulls += 1;
                }
            }
        }
        if f.records.iter().flat_map(|r| r.iter()).any(|x| x.is_enclosed(f.header.len() == 1)) {
            obs.class("csv:quoted_field");
        }
        if f.eol == Eol::CrLf {
            obs.class("csv:crlf");
        }
        if !f.final_eol {
            obs.class("csv:no_final_eol");
        }
        if f.records.is_empty() {
            obs.class("file:no_records");
        }
        let keys: Vec<String> = f.header.iter().map(|h| h.text.clone()).collect();
        if map_keys(&case.target.def, &keys).is_none() {
            obs.class("csv:header_not_columns");
        } else if f.header.len() < case.target.def.cols.len() {
            obs.class("file:column_subset");
        }
    }
    if let Some(f) = &case.json {
        for (i, r) in f.records.iter().enumerate() {
            let keys: Vec<String> = r.iter().map(|(k, _)| k.clone()).collect();
            if map_keys(&case.target.def, &keys).is_none() {
                obs.class(if i == 0 { "json:first_object_key_not_column" } else { "json:later_object_key_not_column" });
                if keys.iter().any(|k| sql_fragment(k)) {
                    obs.class("json:key_sql_fragment");
                }
            }
            if r.len() < case.target.def.cols.len() {
                obs.class("file:column_subset");
            }
            for (_, v) in r {
                match v {
                    JVal::Null => nulls += 1,
                    JVal::Str(s) => strs.push(s.clone()),
                    JVal::Nested(_) => obs.class("json:nested_value"),
                    _ => {}
                }
            }
        }
        if f.records.is_empty() {
            obs.class("file:no_records");
        }
    }
    if !in_rows && !case.target.rows.is_empty() {
        obs.class("target:preexisting_rows");
    }
    if case.target.def.cols.iter().any(|c| c.ty != Ty::Varchar) {
        obs.class("col:non_varchar");
    }
    if case.target.def.cols.iter().any(|c| c.delimited) {
        obs.class("col:delimited_name");
    }
    let mut nt = nulls > 0;
    if nulls > 0 {
        obs.class("has:null_or_empty_field");
    }
    for s in &strs {
        if metachar(s) {
            nt = true;
        }
        if s.is_empty() {
            obs.class("has:empty_string");
        }
        if s == "NULL" {
            obs.class("has:text_NULL");
        }
        if s.contains(',') {
            obs.class("has:comma");
        }
        if s.contains('\'') {
            obs.class("has:single_quote");
        }
        if s.contains('"') {
            obs.class("has:double_quote");
        }
        if has_nl(s) {
            obs.class("has:newline");
        }
        if sql_fragment(s) {
            obs.class("has:sql_fragment");
        }
    }
    obs.nontrivial = nt;
    obs.excluded = case.excluded as u64;
}

// ---------------------------------------------------------------------------------------------

fn vc(name: &str) -> Col {
    Col { name: name.into(), ty: Ty::Varchar, delimited: false }
}

impl Check for C31 {
    type Case = Case;
    fn id(&self) -> &'static str {
        "C31"
    }
    fn rule(&self) -> String {
        "One table t of 1-4 columns over INTEGER/VARCHAR(200)/DOUBLE PRECISION/BOOLEAN/DATE (10% delimited names such as \"my col\"), values from a \
         pool with commas, single/double quotes, LF/CRLF, backslashes, SQL fragments ('); DROP TABLE other; --  '), ('extra  ' OR '1'='1 ...), the text \
         NULL, '', leading/trailing blanks, non-ASCII, and NULL (1/6). Relation (a), ~20% of cases (~8% where the export findings are avoided): 0-5 rows, \
         `\\copy t TO f.csv|f.json`, then `\\copy t FROM f` in a fresh CLI session with an empty t => same multiset of rows. Relation (b), the rest: tables \
         other(x,y) [+ users(name)] with rows, t with 0-2 rows, an import file written by the harness's own RFC 4180 writer (0-5 records, column \
         subset/permutation, header case, optional/needed quoting, \"\" escapes, embedded line breaks, LF/CRLF, optional final EOL, 1/15 a header that names no \
         column) or JSON writer (0-5 objects, shuffled/missing members, null, numbers, booleans, nested values, 4 whitespace/escape styles, keys that are not \
         columns incl. SQL fragments in the first or a later object); `\\copy t FROM f` => t == rows before + records per the harness's RFC 4180 / serde_json \
         reader mapped by column name and type, `\\dt` unchanged, every other table unchanged. All CLI calls go through MetaCommand::parse + \
         SqlExecutor::handle_copy exactly as repl.rs does. Non-trivial = at least one string value with a metacharacter (, ' \" CR LF \\ ; ( ) TAB -- edge blank), \
         the text NULL, '' or a NULL/empty field. Distinct = hash of the serialised case."
            .into()
    }
    fn assumptions(&self) -> Vec<String> {
        vec![
            "the REPL is not driven through a tty: its per-line dispatch (MetaCommand::parse, then SqlExecutor::handle_copy / SqlExecutor::execute) is mirrored in chk_cli/src/cli.rs; println!/eprintln! of the CLI sources are captured instead of printed".into(),
            "CSV: NULL and '' are one class in VARCHAR columns (docs/CLI_GUIDE.md: 'NULL values represented as empty fields'); an empty field in a non-VARCHAR column means NULL".into(),
            "records that cannot be mapped onto the table (key/header names no column) may be skipped or make the import refuse the whole file; records with nested JSON values may be stored as JSON text or skipped".into(),
            "typed fields in generated files are canonical (decimal integers, true/false, YYYY-MM-DD, plain decimal/exponent doubles)".into(),
            "table contents are observed with the CLI's own SELECT * (Debug text of every value) and `\\dt`".into(),
        ]
    }
    fn cases(&self, tier: Tier) -> u64 {
        match tier {
            Tier::Quick => 40_000,
            Tier::Thorough => 1_200_000,
        }
    }
    fn tape_len(&self, _t: Tier) -> usize {
        300
    }
    fn floors(&self) -> Vec<(&'static str, f64)> {
        vec![("rel:import_csv", 0.25), ("rel:import_json", 0.25), ("rel:roundtrip_csv", 0.02), ("rel:roundtrip_json", 0.02), ("has:sql_fragment", 0.15), ("has:single_quote", 0.15)]
    }
    fn build(&self, t: &mut Tape, cfg: &GenCfg) -> Case {
        self.build_case(t, cfg)
    }
    fn fixed_cases(&self, _tier: Tier) -> Vec<Case> {
        if std::env::var("VERIF_C31_NO_FIXED").is_ok() {
            // dev aid for sensitivity experiments: let only the generator speak
            return vec![];
        }
        let other = TableData {
            def: TableDef { name: "other".into(), cols: vec![Col { name: "x".into(), ty: Ty::Int, delimited: false }, vc("y")] },
            rows: vec![vec![V::Int(1), V::Varchar("keep".into())]],
        };
        let users = TableDef { name: "t".into(), cols: vec![vc("name"), vc("email")] };
        let rec = |a: &str, b: &str| vec![Field::plain(a), Field::plain(b)];
        vec![
            // the classic: every field is an injection attempt, no RFC 4180 quoting needed
            Case {
                rel: Rel::ImportCsv,
                target: TableData { def: users.clone(), rows: vec![] },
                others: vec![other.clone()],
                csv: Some(CsvFile {
                    header: rec("name", "email"),
                    records: vec![rec("Robert'); DROP TABLE other;--", "x'); DELETE FROM other; --"), rec("' OR '1'='1", "NULL"), rec("", "it's")],
                    eol: Eol::Lf,
                    final_eol: true,
                }),
                json: None,
                excluded: 0,
            },
            Case {
                rel: Rel::ImportJson,
                target: TableData { def: users.clone(), rows: vec![] },
                others: vec![other.clone()],
                csv: None,
                json: Some(JsonFile {
                    records: vec![
                        vec![("email".into(), JVal::Str("x'); DELETE FROM other; --".into())), ("name".into(), JVal::Str("Robert'); DROP TABLE other;--".into()))],
                        vec![("name".into(), JVal::Null), ("email".into(), JVal::Str("".into()))],
                    ],
                    style: 1,
                }),
                excluded: 0,
            },
            // the example of docs/CLI_GUIDE.md (INT + VARCHAR columns)
            Case {
                rel: Rel::ImportCsv,
                target: TableData { def: TableDef { name: "t".into(), cols: vec![Col { name: "id".into(), ty: Ty::Int, delimited: false }, vc("name"), vc("email")] }, rows: vec![] },
                others: vec![other],
                csv: Some(CsvFile {
                    header: vec![Field::plain("id"), Field::plain("name"), Field::plain("email")],
                    records: vec![
                        vec![Field::plain("1"), Field::plain("Alice"), Field::plain("alice@example.com")],
                        vec![Field::plain("2"), Field::plain("Bob"), Field::plain("bob@example.com")],
                    ],
                    eol: Eol::Lf,
                    final_eol: true,
                }),
                json: None,
                excluded: 0,
            },
        ]
    }
    fn render(&self, c: &Case) -> String {
        let mut s = format!("relation: {:?}\n", c.rel);
        for td in std::iter::once(&c.target).chain(c.others.iter()) {
            s.push_str(&format!("{};\n", td.def.create_sql()));
            for r in &td.rows {
                s.push_str(&format!("INSERT INTO {} VALUES ({});\n", td.def.name, r.iter().map(|v| vcore::engine::lit(&v.to_sql())).collect::<Vec<_>>().join(", ")));
            }
        }
        match c.rel {
            Rel::RoundTripCsv => s.push_str("\\copy t TO 'out.csv'   -- then, in a new session with an empty t:  \\copy t FROM 'out.csv'\n"),
            Rel::RoundTripJson => s.push_str("\\copy t TO 'out.json'   -- then, in a new session with an empty t:  \\copy t FROM 'out.json'\n"),
            Rel::ImportCsv => {
                if let Some(f) = &c.csv {
                    s.push_str(&format!("\\copy t FROM 'in.csv'   -- in.csv ({:?}, final EOL {}):\n{}\n", f.eol, f.final_eol, f.render()));
                }
            }
            Rel::ImportJson => {
                if let Some(f) = &c.json {
                    s.push_str(&format!("\\copy t FROM 'in.json'   -- in.json:\n{}\n", f.render()));
                }
            }
        }
        s
    }
    fn run(&self, case: &Case, obs: &mut Obs) -> Verdict {
        classify(case, obs);
        match case.rel {
            Rel::RoundTripCsv | Rel::RoundTripJson => run_roundtrip(case, obs),
            Rel::ImportCsv | Rel::ImportJson => run_import(case, obs),
        }
    }
}
