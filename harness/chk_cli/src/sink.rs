//! Thread-local capture of what the CLI code prints (stdout and stderr lines).

use std::cell::RefCell;

thread_local! {
    static OUT: RefCell<Vec<String>> = const { RefCell::new(Vec::new()) };
    static ERR: RefCell<Vec<String>> = const { RefCell::new(Vec::new()) };
}

pub fn out(s: String) {
    let _ = OUT.try_with(|o| o.borrow_mut().push(s));
}
pub fn err(s: String) {
    let _ = ERR.try_with(|o| o.borrow_mut().push(s));
}
/// Take (stdout lines, stderr lines) printed since the last call.
pub fn take() -> (Vec<String>, Vec<String>) {
    (OUT.with(|o| std::mem::take(&mut *o.borrow_mut())), ERR.with(|o| std::mem::take(&mut *o.borrow_mut())))
}
