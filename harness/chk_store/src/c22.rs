//! C22 — Temporal values round-trip through text and parsing is total.
//!
//! Half (a): for every valid DATE / TIME / TIMESTAMP / INTERVAL value `v`,
//!           `parse(format(v)) == v` (equality as the type defines it).
//! Half (b): `parse(s)` for an arbitrary string `s` returns Ok or Err, never panics.
//!
//! Observed at `FromStr` / `Display` of `vibesql_types::{Date, Time, Timestamp, Interval}`
//! (and `Display for SqlValue`, which delegates to them).

use serde::{Deserialize, Serialize};
use std::str::FromStr;
use vcore::runner::catch;
use vcore::{Check, GenCfg, Obs, Tape, Tier, Verdict};

#[cfg(feature = "mutant")]
use crate::mutant_temporal::{Date, Interval, Time, Timestamp};
#[cfg(not(feature = "mutant"))]
use vibesql_types::{Date, Interval, Time, Timestamp};

pub struct C22;

// Signatures of the known panics (relation `parse_total`, site file, panic class).
pub const SIG_TIME_CB: &str = "parse_total.panic.time.char_boundary";
pub const SIG_IV_CB: &str = "parse_total.panic.interval.char_boundary";
pub const SIG_TS_CB: &str = "parse_total.panic.timestamp.char_boundary";
pub const SIG_IV_OVF: &str = "parse_total.panic.interval.int_overflow";
pub const SIG_IV_OOB: &str = "parse_total.panic.interval.index_oob";

#[derive(Clone, Copy, Debug, PartialEq, Eq, Serialize, Deserialize)]
pub enum Kind {
    Date,
    Time,
    Ts,
    Interval,
}
impl Kind {
    fn name(self) -> &'static str {
        match self {
            Kind::Date => "date",
            Kind::Time => "time",
            Kind::Ts => "timestamp",
            Kind::Interval => "interval",
        }
    }
}

#[derive(Clone, Debug, Serialize, Deserialize)]
pub enum Case {
    /// round trip of a DATE value
    RtDate { y: i32, m: u8, d: u8 },
    /// round trip of a TIME value
    RtTime { h: u8, mi: u8, s: u8, ns: u32 },
    /// round trip of a TIMESTAMP value
    RtTs { y: i32, m: u8, d: u8, h: u8, mi: u8, s: u8, ns: u32 },
    /// a TIMESTAMP value written in one of the input forms the type documents
    /// (form: 0 'T', 1 'T'+Z, 2 +HH:MM, 3 -HHMM, 4 +HH, 5 surrounding blanks, 6 lower-case z)
    TsForm { y: i32, m: u8, d: u8, h: u8, mi: u8, s: u8, ns: u32, form: u8 },
    /// round trip of an INTERVAL value given by its (documented-form) text
    RtInterval { text: String },
    /// totality: `text` is a mutation of the valid text `base`
    Parse {
        kind: Kind,
        base: String,
        text: String,
        /// triggers of open known findings removed by the generator (avoid mode)
        #[serde(default)]
        excluded: u32,
    },
}

// ------------------------------------------------------------------------------------------
// valid values

fn leap(y: i32) -> bool {
    (y % 4 == 0 && y % 100 != 0) || y % 400 == 0
}
fn days_in_month(y: i32, m: u8) -> u8 {
    match m {
        1 | 3 | 5 | 7 | 8 | 10 | 12 => 31,
        4 | 6 | 9 | 11 => 30,
        _ => {
            if leap(y) {
                29
            } else {
                28
            }
        }
    }
}

fn gen_date(t: &mut Tape) -> (i32, u8, u8) {
    let y = match t.weighted(&[3, 2, 3]) {
        0 => t.range(1990, 2030) as i32,
        1 => *t.pick(&[1i32, 9999, 999, 1000, 99, 100, 9, 10, 2000, 1900, 2024]),
        _ => t.range(1, 9999) as i32,
    };
    let m = t.range(1, 12) as u8;
    let dim = days_in_month(y, m);
    let d = match t.weighted(&[3, 1, 1]) {
        0 => t.range(1, dim as i64) as u8,
        1 => 1,
        _ => dim,
    };
    (y, m, d)
}

/// nanoseconds with exactly `k` significant fractional digits (0..=9)
fn gen_ns(t: &mut Tape) -> u32 {
    let k = t.below(10) as u32;
    if k == 0 {
        return 0;
    }
    let max = 10u64.pow(k) - 1;
    let f = match t.weighted(&[3, 1, 1]) {
        0 => t.range(0, max as i64) as u64,
        1 => 1,
        _ => max,
    };
    (f * 10u64.pow(9 - k)) as u32
}

fn gen_time(t: &mut Tape) -> (u8, u8, u8, u32) {
    let edge = |t: &mut Tape, hi: i64| -> u8 {
        match t.weighted(&[3, 1, 1]) {
            0 => t.range(0, hi) as u8,
            1 => 0,
            _ => hi as u8,
        }
    };
    let h = edge(t, 23);
    let mi = edge(t, 59);
    let s = edge(t, 59);
    (h, mi, s, gen_ns(t))
}

fn fmt_frac(ns: u32) -> String {
    if ns == 0 {
        String::new()
    } else {
        format!(".{}", format!("{:09}", ns).trim_end_matches('0'))
    }
}

fn small_num(t: &mut Tape) -> u64 {
    match t.weighted(&[4, 2, 2]) {
        0 => t.range(0, 99) as u64,
        1 => *t.pick(&[0u64, 1, 12, 99, 100, 999_999]),
        _ => t.range(0, 999_999) as u64,
    }
}

fn unit(t: &mut Tape, u: &str) -> String {
    match t.weighted(&[5, 2, 2]) {
        0 => u.to_string(),
        1 => u.to_lowercase(),
        _ => format!("{}S", u),
    }
}

fn sec_frac(t: &mut Tape) -> String {
    let k = t.below(7);
    if k == 0 {
        return String::new();
    }
    let mut s = String::from(".");
    for _ in 0..k {
        s.push((b'0' + t.below(10) as u8) as char);
    }
    s
}

/// INTERVAL text in one of the forms `Interval`'s docs and `parse_interval` document.
fn gen_interval(t: &mut Tape) -> String {
    let sign = if t.chance(1, 6) { "-" } else { "" };
    let n = small_num(t);
    match t.below(13) {
        0 => format!("{}{} {}", sign, n, unit(t, "YEAR")),
        1 => format!("{}{} {}", sign, n, unit(t, "MONTH")),
        2 => format!("{}{} {}", sign, n, unit(t, "DAY")),
        3 => format!("{}{} {}", sign, n, unit(t, "HOUR")),
        4 => format!("{}{} {}", sign, n, unit(t, "MINUTE")),
        5 => format!("{}{}{} {}", sign, n, sec_frac(t), unit(t, "SECOND")),
        6 => format!("{}{}-{} YEAR TO MONTH", sign, n, t.range(0, 11)),
        7 => format!("{}{} YEAR TO MONTH", sign, n),
        8 => format!("{}{} {:02}:{:02}:{:02}{} DAY TO SECOND", sign, n, t.range(0, 23), t.range(0, 59), t.range(0, 59), sec_frac(t)),
        9 => {
            if t.chance(1, 2) {
                format!("{}{} {:02} DAY TO HOUR", sign, n, t.range(0, 23))
            } else {
                format!("{}{} {:02}:{:02} DAY TO MINUTE", sign, n, t.range(0, 23), t.range(0, 59))
            }
        }
        10 => format!("{}{}:{:02}:{:02}{} HOUR TO SECOND", sign, n, t.range(0, 59), t.range(0, 59), sec_frac(t)),
        11 => format!("{}{}:{:02} HOUR TO MINUTE", sign, n, t.range(0, 59)),
        _ => format!("{}{}:{:02}{} MINUTE TO SECOND", sign, n, t.range(0, 59), sec_frac(t)),
    }
}

fn valid_text(t: &mut Tape, kind: Kind) -> String {
    match kind {
        Kind::Date => {
            let (y, m, d) = gen_date(t);
            format!("{:04}-{:02}-{:02}", y, m, d)
        }
        Kind::Time => {
            let (h, mi, s, ns) = gen_time(t);
            format!("{:02}:{:02}:{:02}{}", h, mi, s, fmt_frac(ns))
        }
        Kind::Ts => {
            let (y, m, d) = gen_date(t);
            let (h, mi, s, ns) = gen_time(t);
            let sep = if t.chance(1, 3) { 'T' } else { ' ' };
            let tz = match t.weighted(&[5, 1, 1, 1, 1]) {
                0 => "",
                1 => "Z",
                2 => "+05:30",
                3 => "-0800",
                _ => "+01",
            };
            format!("{:04}-{:02}-{:02}{}{:02}:{:02}:{:02}{}{}", y, m, d, sep, h, mi, s, fmt_frac(ns), tz)
        }
        Kind::Interval => gen_interval(t),
    }
}

// ------------------------------------------------------------------------------------------
// mutations for the totality half

const ALPHABET: &[char] = &[
    '0', '9', '5', '1', '-', '+', ':', '.', ' ', 'T', 'Z', 'z', 'e', 'E', 'x', '/', ',', '\t', '\n', '\0', // ASCII
    '٣', '３', '௧', '₂', '²', // non-ASCII digits (Arabic-Indic, fullwidth, Tamil, subscript, superscript)
    'é', 'ß', '日', '€', '😀', '\u{a0}', '\u{2003}', '\u{200b}', '\u{301}', // multibyte (2, 3, 4 bytes), unicode blanks, combining
];
const MULTIBYTE: &[char] = &['é', '٣', '３', '日', '😀', '\u{301}', '€'];
const HUGE: &[&str] = &[
    "99999999999999999999",
    "2147483647",
    "2147483648",
    "178956970",
    "178956971",
    "200000000",
    "9223372036854775807",
    "9223372036854775808",
    "2562047788015",
    "2562047788016",
    "153722867280912",
    "153722867280913",
    "9223372036854",
    "9223372036855",
    "4294967295",
    "4294967296",
    "255",
    "256",
    "00000000000000000000000000000001",
    "340282366920938463463374607431768211456",
];

fn digit_runs(cs: &[char]) -> Vec<(usize, usize)> {
    let mut v = Vec::new();
    let mut i = 0;
    while i < cs.len() {
        if cs[i].is_ascii_digit() {
            let s = i;
            while i < cs.len() && cs[i].is_ascii_digit() {
                i += 1;
            }
            v.push((s, i));
        } else {
            i += 1;
        }
    }
    v
}

fn mutate(t: &mut Tape, base: &str, kind: Kind) -> String {
    let mut cs: Vec<char> = base.chars().collect();
    let n = 1 + t.weighted(&[6, 3, 1]);
    for _ in 0..n {
        let len = cs.len();
        match t.below(9) {
            0 => {
                // replace one char
                if len > 0 {
                    let p = t.below(len);
                    cs[p] = *t.pick(ALPHABET);
                }
            }
            1 => {
                let p = t.below(len + 1);
                cs.insert(p, *t.pick(ALPHABET));
            }
            2 => {
                if len > 0 {
                    let p = t.below(len);
                    cs.remove(p);
                }
            }
            3 => {
                // a numeric field becomes huge / sits on an integer-width boundary
                let runs = digit_runs(&cs);
                let h: Vec<char> = t.pick(HUGE).chars().collect();
                if runs.is_empty() {
                    cs.extend(h);
                } else {
                    let (s, e) = runs[t.below(runs.len())];
                    cs.splice(s..e, h);
                }
            }
            4 => {
                // multibyte char at a chosen offset of the fractional part (created if absent)
                let c = *t.pick(MULTIBYTE);
                let k = t.below(11);
                match cs.iter().position(|&c| c == '.') {
                    Some(dot) => {
                        // end of the fractional digit run
                        let mut e = dot + 1;
                        while e < cs.len() && cs[e].is_ascii_digit() {
                            e += 1;
                        }
                        let have = e - (dot + 1);
                        if have < k {
                            let pad: Vec<char> = std::iter::repeat('1').take(k - have).collect();
                            cs.splice(e..e, pad);
                        }
                        cs.insert(dot + 1 + k, c);
                    }
                    None => {
                        // after the last digit of the text
                        let p = cs.iter().rposition(|c| c.is_ascii_digit()).map(|p| p + 1).unwrap_or(cs.len());
                        let mut ins = vec!['.'];
                        ins.extend(std::iter::repeat('1').take(k));
                        ins.push(c);
                        cs.splice(p..p, ins);
                    }
                }
            }
            5 => {
                // missing parts: cut at a separator or anywhere
                if len > 0 {
                    let p = t.below(len);
                    if t.chance(1, 2) {
                        cs.truncate(p);
                    } else {
                        cs.drain(..p);
                    }
                }
            }
            6 => {
                // sign in front of a numeric field
                let runs = digit_runs(&cs);
                let sg = *t.pick(&['-', '+']);
                if runs.is_empty() {
                    cs.insert(0, sg);
                } else {
                    let (s, _) = runs[t.below(runs.len())];
                    cs.insert(s, sg);
                }
            }
            7 => {
                // an ASCII digit becomes a non-ASCII digit
                let ds: Vec<usize> = cs.iter().enumerate().filter(|(_, c)| c.is_ascii_digit()).map(|(i, _)| i).collect();
                if !ds.is_empty() {
                    let p = ds[t.below(ds.len())];
                    cs[p] = *t.pick(&['٣', '３', '௧', '²']);
                }
            }
            _ => {
                // kind-specific structure edits
                match kind {
                    Kind::Ts => {
                        // timezone-like tail with a multibyte char / odd shape
                        let tails = ["+xé:0", "+é1:00", "-0é00", "+0é", "+05:3é", "-é", "+00:00Z", "Z+01", "+", "-", "+1", "+123", "+12345", "+12:345"];
                        cs.extend(t.pick(&tails).chars());
                    }
                    Kind::Interval => {
                        let toks = [" TO", " TO ", "TO", " YEAR TO", " DAY TO SECOND", " TO MONTH", " to", " SECOND", "  "];
                        let tk: Vec<char> = t.pick(&toks).chars().collect();
                        if t.chance(1, 2) {
                            cs.extend(tk);
                        } else {
                            let p = t.below(len + 1);
                            cs.splice(p..p, tk);
                        }
                    }
                    _ => {
                        // duplicate a separator
                        let seps: Vec<usize> = cs.iter().enumerate().filter(|(_, c)| matches!(c, '-' | ':' | '.')).map(|(i, _)| i).collect();
                        if !seps.is_empty() {
                            let p = seps[t.below(seps.len())];
                            let c = cs[p];
                            cs.insert(p, c);
                        }
                    }
                }
            }
        }
    }
    cs.into_iter().collect()
}

// ---- triggers of the known findings (over-approximations), used for avoidance ---------------

fn non_ascii_after_first_dot(s: &str) -> bool {
    s.find('.').map(|p| !s[p..].is_ascii()).unwrap_or(false)
}
fn fix_non_ascii_after_first_dot(s: &str) -> String {
    match s.find('.') {
        Some(p) => {
            let mut o = s[..p].to_string();
            o.extend(s[p..].chars().map(|c| if c.is_ascii() { c } else { '7' }));
            o
        }
        None => s.to_string(),
    }
}
fn non_ascii_after_last_sign(s: &str) -> bool {
    s.rfind(['+', '-']).map(|p| !s[p..].is_ascii()).unwrap_or(false)
}
fn fix_non_ascii_after_last_sign(s: &str) -> String {
    match s.rfind(['+', '-']) {
        Some(p) => {
            let mut o = s[..p].to_string();
            o.extend(s[p..].chars().map(|c| if c.is_ascii() { c } else { 'x' }));
            o
        }
        None => s.to_string(),
    }
}
fn has_long_digit_run(s: &str) -> bool {
    let cs: Vec<char> = s.chars().collect();
    digit_runs(&cs).iter().any(|(a, b)| b - a > 8)
}
fn fix_long_digit_runs(s: &str) -> String {
    let mut out = String::new();
    let mut run = 0;
    for c in s.chars() {
        if c.is_ascii_digit() {
            run += 1;
            if run > 8 {
                continue;
            }
        } else {
            run = 0;
        }
        out.push(c);
    }
    out
}
fn ends_with_to(s: &str) -> bool {
    s.split_whitespace().last().map(|l| l.eq_ignore_ascii_case("TO")).unwrap_or(false)
}

/// Remove the triggers of open known findings (80 % of the workers) so that the search goes on
/// behind them; returns the number of removed triggers.
fn avoid_known(cfg: &GenCfg, kind: Kind, text: &mut String) -> u64 {
    let mut ex = 0;
    if matches!(kind, Kind::Time | Kind::Ts) && cfg.avoiding(SIG_TIME_CB) && non_ascii_after_first_dot(text) {
        *text = fix_non_ascii_after_first_dot(text);
        ex += 1;
    }
    if kind == Kind::Ts && cfg.avoiding(SIG_TS_CB) && non_ascii_after_last_sign(text) {
        *text = fix_non_ascii_after_last_sign(text);
        ex += 1;
    }
    if kind == Kind::Interval {
        if cfg.avoiding(SIG_IV_CB) && non_ascii_after_first_dot(text) {
            *text = fix_non_ascii_after_first_dot(text);
            ex += 1;
        }
        if cfg.avoiding(SIG_IV_OVF) && has_long_digit_run(text) {
            *text = fix_long_digit_runs(text);
            ex += 1;
        }
        if cfg.avoiding(SIG_IV_OOB) && ends_with_to(text) {
            text.push_str(" SECOND");
            ex += 1;
        }
    }
    ex
}

// ------------------------------------------------------------------------------------------
// oracle

fn panic_signature(desc: &str) -> String {
    let (loc, msg) = desc.split_once(" :: ").unwrap_or((desc, ""));
    let file = loc.rsplit_once(':').map(|x| x.0).unwrap_or(loc);
    let stem = file.rsplit('/').next().unwrap_or(file).trim_end_matches(".rs");
    let class: String = if msg.contains("char boundary") {
        "char_boundary".into()
    } else if msg.contains("overflow") {
        "int_overflow".into()
    } else if msg.contains("out of bounds") || msg.contains("out of range") {
        "index_oob".into()
    } else {
        let mut m: String = msg.chars().filter(|c| c.is_ascii_alphabetic() || *c == ' ').collect();
        m.truncate(40);
        m.trim().replace(' ', "_")
    };
    format!("parse_total.panic.{}.{}", stem, class)
}

/// What a parse produced, in a comparable form.
#[derive(Debug, Clone, PartialEq)]
enum Parsed {
    D(i32, u8, u8),
    T(u8, u8, u8, u32),
    Ts(i32, u8, u8, u8, u8, u8, u32),
}

fn d_of(d: &Date) -> Parsed {
    Parsed::D(d.year, d.month, d.day)
}
fn t_of(t: &Time) -> Parsed {
    Parsed::T(t.hour, t.minute, t.second, t.nanosecond)
}
fn ts_of(t: &Timestamp) -> Parsed {
    Parsed::Ts(t.date.year, t.date.month, t.date.day, t.time.hour, t.time.minute, t.time.second, t.time.nanosecond)
}

/// parse with panic capture: Ok(Ok(v)) value, Ok(Err(e)) rejected, Err(desc) panicked
fn parse_kind(kind: Kind, text: &str) -> Result<Result<(Parsed, String), String>, String> {
    match kind {
        Kind::Date => catch(|| Date::from_str(text).map(|v| (d_of(&v), v.to_string()))),
        Kind::Time => catch(|| Time::from_str(text).map(|v| (t_of(&v), v.to_string()))),
        Kind::Ts => catch(|| Timestamp::from_str(text).map(|v| (ts_of(&v), v.to_string()))),
        Kind::Interval => unreachable!(),
    }
}

fn in_sql_domain(p: &Parsed) -> bool {
    match p {
        Parsed::D(y, ..) | Parsed::Ts(y, ..) => (1..=9999).contains(y),
        Parsed::T(..) => true,
    }
}

/// `parse(format(v)) == v` for a value of kind `kind` given by `want` and its Display text
fn round_trip(kind: Kind, want: &Parsed, text: &str, rel: &str) -> Option<Verdict> {
    match parse_kind(kind, text) {
        Err(p) => Some(Verdict::fail(
            format!("{}.{}.panic", rel, kind.name()),
            format!("parsing the formatted value '{}' panicked: {}", text, p),
        )),
        Ok(Err(e)) => Some(Verdict::fail(
            format!("{}.{}.rejected", rel, kind.name()),
            format!("value {:?} formats as '{}', which the parser rejects: {}", want, text, e),
        )),
        Ok(Ok((got, _))) => {
            if &got != want {
                Some(Verdict::fail(
                    format!("{}.{}.changed", rel, kind.name()),
                    format!("value {:?} formats as '{}', which parses back as {:?}", want, text, got),
                ))
            } else {
                None
            }
        }
    }
}

fn bound_field(h: u8, mi: u8, s: u8) -> bool {
    h == 0 || h == 23 || mi == 0 || mi == 59 || s == 0 || s == 59
}

impl C22 {
    fn run_interval_rt(&self, text: &str, obs: &mut Obs) -> Verdict {
        obs.class("rt.interval");
        let r = catch(|| {
            let v = Interval::new(text.to_string());
            let shown = v.to_string();
            let back = Interval::from_str(&shown);
            (v, shown, back)
        });
        let (v, shown, back) = match r {
            Ok(x) => x,
            Err(p) => return Verdict::fail(panic_signature(&p), format!("Interval::new / Display / from_str panicked on the valid text '{}': {}", text, p)),
        };
        let back = match back {
            Ok(b) => b,
            Err(e) => return Verdict::fail("round_trip.interval.rejected", format!("'{}' formats as '{}', rejected: {}", text, shown, e)),
        };
        // equality the way the type defines it (months, days, microseconds) + its total order
        if back != v || back.cmp(&v) != std::cmp::Ordering::Equal {
            return Verdict::fail("round_trip.interval.changed", format!("Interval '{}' formats as '{}', which parses to a different value", text, shown));
        }
        if shown != text {
            obs.class("rt.interval.text_normalised");
        }
        obs.nontrivial = text.contains('.') || text.contains(" TO ") || text.starts_with('-') || text.starts_with("0 ");
        if text.contains(" TO ") {
            obs.class("rt.interval.compound");
        }
        if text.contains('.') {
            obs.class("rt.interval.fraction");
        }
        Verdict::Pass
    }

    fn run_parse(&self, kind: Kind, base: &str, text: &str, obs: &mut Obs) -> Verdict {
        obs.class(&format!("parse.{}", kind.name()));
        // share of the text that is still a prefix of the valid text it was derived from
        let common = base.chars().zip(text.chars()).take_while(|(a, b)| a == b).count();
        let tl = text.chars().count();
        obs.nontrivial = tl > 0 && common * 2 >= tl;
        if !text.is_ascii() {
            obs.class("parse.non_ascii");
        }
        if has_long_digit_run(text) {
            obs.class("parse.long_digit_run");
        }
        if text.contains('.') && non_ascii_after_first_dot(text) {
            obs.class("parse.non_ascii_in_fraction");
        }
        if kind == Kind::Interval {
            let r = catch(|| {
                let v = Interval::new(text.to_string());
                let shown = v.to_string();
                let back = Interval::new(shown.clone());
                (back == v, shown)
            });
            return match r {
                Err(p) => Verdict::fail(panic_signature(&p), format!("Interval::new({:?}) panicked: {}", text, p)),
                Ok((same, shown)) => {
                    obs.class("parse.ok");
                    if !same {
                        return Verdict::fail("round_trip.interval.changed", format!("Interval {:?} formats as {:?}, which parses to a different value", text, shown));
                    }
                    Verdict::Pass
                }
            };
        }
        match parse_kind(kind, text) {
            Err(p) => Verdict::fail(panic_signature(&p), format!("{}::from_str({:?}) panicked: {}", kind.name(), text, p)),
            Ok(Err(_)) => {
                obs.class("parse.err");
                Verdict::Pass
            }
            Ok(Ok((val, shown))) => {
                obs.class("parse.ok");
                // whatever the parser accepts is a value; inside the SQL domain it must round-trip too
                if in_sql_domain(&val) {
                    if let Some(v) = round_trip(kind, &val, &shown, "round_trip_of_parsed") {
                        return v;
                    }
                } else {
                    obs.class("parse.ok.outside_year_1_9999");
                }
                Verdict::Pass
            }
        }
    }
}

impl Check for C22 {
    type Case = Case;
    fn id(&self) -> &'static str {
        "C22"
    }
    fn rule(&self) -> String {
        "60% totality cases: a valid DATE/TIME/TIMESTAMP/INTERVAL text (all documented forms) with 1-3 mutations (replace/insert/delete a char from an \
         alphabet with ASCII separators and signs, non-ASCII digits, 2/3/4-byte chars; numeric field -> 20-digit / integer-width-boundary number; \
         multibyte char at fractional offset 0..10; cut; sign; timezone tails; interval TO tokens); 40% round-trip cases: DATE with year 1..=9999 and a \
         real calendar day, TIME with 0..=9 fractional digits, TIMESTAMP (also in the documented T/Z/offset input forms), INTERVAL in every documented \
         simple and compound form with fields up to 6 digits. Non-trivial: round trip = non-zero fraction or a field at its bound (first/last \
         month, day, hour, minute, second, year 1/9999) or compound/signed/fractional interval; totality = at least half of the text is still a prefix of \
         the valid text it came from. Distinct = hash of the serialised case."
            .into()
    }
    fn assumptions(&self) -> Vec<String> {
        vec![
            "DATE/TIMESTAMP domain is year 1..=9999 with real calendar days; Date::new also takes negative years, which its own Display cannot express (outside the domain)".into(),
            "INTERVAL equality is the type's own PartialEq (months, days, microseconds); Interval::new is infallible by design, so for intervals totality means 'never panics'".into(),
            "panics are caught in-process (catch_unwind); the parsers are loop- and recursion-free over inputs of < 200 chars, so no child-process isolation is used".into(),
            "the harness profile has overflow-checks on: arithmetic overflow in the parsers surfaces as a panic, as it does in debug/test builds of the engine".into(),
        ]
    }
    fn cases(&self, tier: Tier) -> u64 {
        match tier {
            Tier::Quick => 40_000_000,
            Tier::Thorough => 300_000_000,
        }
    }
    fn tape_len(&self, _t: Tier) -> usize {
        48
    }
    fn floors(&self) -> Vec<(&'static str, f64)> {
        vec![
            ("rt.date", 0.04),
            ("rt.time", 0.04),
            ("rt.timestamp", 0.04),
            ("rt.interval", 0.04),
            ("parse.date", 0.05),
            ("parse.time", 0.05),
            ("parse.timestamp", 0.05),
            ("parse.interval", 0.05),
            ("parse.ok", 0.03),
            ("parse.err", 0.10),
            ("parse.non_ascii", 0.05),
        ]
    }

    fn build(&self, t: &mut Tape, cfg: &GenCfg) -> Case {
        match t.weighted(&[6, 1, 1, 1, 1]) {
            0 => {
                let kind = *t.pick(&[Kind::Time, Kind::Date, Kind::Ts, Kind::Interval]);
                let base = valid_text(t, kind);
                let mut text = mutate(t, &base, kind);
                let excluded = avoid_known(cfg, kind, &mut text) as u32;
                Case::Parse { kind, base, text, excluded }
            }
            1 => {
                let (y, m, d) = gen_date(t);
                Case::RtDate { y, m, d }
            }
            2 => {
                let (h, mi, s, ns) = gen_time(t);
                Case::RtTime { h, mi, s, ns }
            }
            3 => {
                let (y, m, d) = gen_date(t);
                let (h, mi, s, ns) = gen_time(t);
                if t.chance(1, 3) {
                    Case::TsForm { y, m, d, h, mi, s, ns, form: t.below(7) as u8 }
                } else {
                    Case::RtTs { y, m, d, h, mi, s, ns }
                }
            }
            _ => Case::RtInterval { text: gen_interval(t) },
        }
    }

    fn fixed_cases(&self, _tier: Tier) -> Vec<Case> {
        let mut v = Vec::new();
        let p = |kind: Kind, base: &str, text: &str| Case::Parse { kind, base: base.to_string(), text: text.to_string(), excluded: 0 };
        // ladder over the fraction length with a trailing multibyte char (TIME / TIMESTAMP / INTERVAL)
        for k in 0..=10 {
            let digits: String = "1234567890".chars().take(k).collect();
            v.push(p(Kind::Time, "12:34:56.123456789", &format!("12:34:56.{}é", digits)));
            v.push(p(Kind::Time, "12:34:56.123456789", &format!("12:34:56.{}日", digits)));
            v.push(p(Kind::Ts, "2024-01-01 12:34:56.123456789", &format!("2024-01-01 12:34:56.{}😀", digits)));
            v.push(p(Kind::Interval, "1.123456 SECOND", &format!("1.{}é SECOND", digits)));
            v.push(p(Kind::Interval, "1 01:01:01.123456 DAY TO SECOND", &format!("1:1:1.{}日 HOUR TO SECOND", digits)));
        }
        for tail in ["+xé:0", "+é1:00", "-0é00", "+0é", "+05:3é", "+é", "-日", "+😀"] {
            v.push(p(Kind::Ts, "2024-01-01 12:34:56+05:30", &format!("2024-01-01 12:34:56{}", tail)));
        }
        // numeric fields on integer-width boundaries
        for n in HUGE {
            for u in ["YEAR", "MONTH", "DAY", "HOUR", "MINUTE", "SECOND"] {
                v.push(p(Kind::Interval, &format!("1 {}", u), &format!("{} {}", n, u)));
                v.push(p(Kind::Interval, &format!("1 {}", u), &format!("-{} {}", n, u)));
            }
            v.push(p(Kind::Interval, "1-6 YEAR TO MONTH", &format!("{}-6 YEAR TO MONTH", n)));
            v.push(p(Kind::Interval, "1-6 YEAR TO MONTH", &format!("1-{} YEAR TO MONTH", n)));
            v.push(p(Kind::Interval, "1-6 YEAR TO MONTH", &format!("{} YEAR TO MONTH", n)));
            v.push(p(Kind::Interval, "1 01:01:01 DAY TO SECOND", &format!("{} 01:01:01 DAY TO SECOND", n)));
            v.push(p(Kind::Interval, "01:01:01 HOUR TO SECOND", &format!("{}:01:01 HOUR TO SECOND", n)));
            v.push(p(Kind::Interval, "01:01:01 HOUR TO SECOND", &format!("01:{}:01 HOUR TO SECOND", n)));
            v.push(p(Kind::Interval, "01:01:01 HOUR TO SECOND", &format!("01:01:{} HOUR TO SECOND", n)));
            v.push(p(Kind::Interval, "01:01:01.5 HOUR TO SECOND", &format!("01:01:{}.5 HOUR TO SECOND", n)));
            v.push(p(Kind::Interval, "1.5 SECOND", &format!("{}.5 SECOND", n)));
            v.push(p(Kind::Interval, "1.5 SECOND", &format!("1.{} SECOND", n)));
            v.push(p(Kind::Date, "2024-01-01", &format!("{}-01-01", n)));
            v.push(p(Kind::Date, "2024-01-01", &format!("2024-{}-01", n)));
            v.push(p(Kind::Date, "2024-01-01", &format!("2024-01-{}", n)));
            v.push(p(Kind::Time, "12:34:56", &format!("{}:34:56", n)));
            v.push(p(Kind::Time, "12:34:56", &format!("12:34:{}", n)));
            v.push(p(Kind::Time, "12:34:56.5", &format!("12:34:56.{}", n)));
            v.push(p(Kind::Ts, "2024-01-01 12:34:56", &format!("{}-01-01 12:34:56", n)));
        }
        // missing parts / token structure
        for s in ["", " ", "TO", "1 TO", "1 YEAR TO", "1 2 TO", "TO TO TO", "1 YEAR TO MONTH TO", "YEAR", "1", "1  YEAR", "- YEAR", "1-", "-", "1- YEAR TO MONTH", "-1 YEAR TO MONTH", "1 DAY TO", ": HOUR TO SECOND", ":: HOUR TO SECOND", ". SECOND", "1. SECOND", ".5 SECOND"] {
            v.push(p(Kind::Interval, "1 YEAR TO MONTH", s));
        }
        for s in ["", "-", "--", "---", "2024", "2024-01", "2024-01-", "-01-01", "2024--01", "+2024-+1-+1", "２０２４-01-01", "2024-٠١-01", "2024-01-01 ", " 2024-01-01", "2024-02-30", "2024-00-01", "2024-01-00", "2024-13-01", "2024-01-32", "0000-01-01", "-2024-01-01"] {
            v.push(p(Kind::Date, "2024-01-01", s));
        }
        for s in ["", ":", "::", ":::", ".", "..", "12", "12:34", "12:34:", "12:34:56.", "12:34:56..", "12:34:56.5.5", "24:00:00", "12:60:00", "12:34:60", "+1:+2:+3", "1:2:3.+5", "1:2:3.-5", "１２:34:56", "12:34:56.５", "12:34:56. 5", "-1:00:00", "12:34:56.1234567891", "12:34:56.9999999999"] {
            v.push(p(Kind::Time, "12:34:56.5", s));
        }
        for s in ["", "T", "Z", "z", "TZ", " ", "2024-01-01T", "T12:34:56", "2024-01-01 ", "2024-01-01  12:34:56", "2024-01-01 12:34:56 extra", "2024-01-01T12:34:56T", "2024-01-01 12:34:56Z", "2024-01-01 12:34:56+", "2024-01-01 12:34:56-", "2024-01-01 12:34:56+0", "2024-01-01+05:00", "2024-01-01Z", "2024-01-01 12:34:56.5-0800", "2024-01-01 12:34:56é", "é2024-01-01 12:34:56", "2024-01-01é12:34:56", "2024-01-01 12:34:5é"] {
            v.push(p(Kind::Ts, "2024-01-01 12:34:56", s));
        }
        // round-trip corners
        for (y, m, d) in [(1, 1, 1), (9999, 12, 31), (2024, 2, 29), (2000, 2, 29), (1900, 2, 28), (999, 9, 9), (10, 10, 10)] {
            v.push(Case::RtDate { y, m, d });
            v.push(Case::RtTs { y, m, d, h: 23, mi: 59, s: 59, ns: 999_999_999 });
            v.push(Case::RtTs { y, m, d, h: 0, mi: 0, s: 0, ns: 0 });
            for form in 0..7 {
                v.push(Case::TsForm { y, m, d, h: 1, mi: 2, s: 3, ns: 40_000_000, form });
            }
        }
        for k in 0..=9u32 {
            let ns = if k == 0 { 0 } else { 10u32.pow(9 - k) };
            v.push(Case::RtTime { h: 0, mi: 0, s: 0, ns });
            v.push(Case::RtTime { h: 23, mi: 59, s: 59, ns: 999_999_999 / 10u32.pow(9 - k) * 10u32.pow(9 - k) });
        }
        for s in vcore::val::INTERVALS {
            v.push(Case::RtInterval { text: s.to_string() });
        }
        for s in ["5 YEAR", "1-6 YEAR TO MONTH", "5 12:30:45 DAY TO SECOND", "12:30:45 HOUR TO SECOND", "30 DAY", "24 HOUR", "5 12 DAY TO HOUR", "5 12:30 DAY TO MINUTE", "12:30 HOUR TO MINUTE", "30:45.5 MINUTE TO SECOND", "-5 12:30:45.123456 DAY TO SECOND", "999999 YEAR", "999999-11 YEAR TO MONTH"] {
            v.push(Case::RtInterval { text: s.to_string() });
        }
        v
    }

    fn render(&self, c: &Case) -> String {
        match c {
            Case::Parse { kind, base, text, .. } => format!("parse {} {:?}   (mutation of {:?})", kind.name(), text, base),
            other => format!("{:?}", other),
        }
    }

    fn run(&self, case: &Case, obs: &mut Obs) -> Verdict {
        match case {
            Case::RtDate { y, m, d } => {
                obs.class("rt.date");
                let v = match Date::new(*y, *m, *d) {
                    Ok(v) => v,
                    Err(e) => return Verdict::Harness(format!("generator produced a date the constructor rejects: {}", e)),
                };
                let text = v.to_string();
                #[cfg(not(feature = "mutant"))]
                if vibesql_types::SqlValue::Date(v).to_string() != text {
                    return Verdict::fail("display.sqlvalue_differs.date", format!("SqlValue::Date displays differently from Date: '{}'", text));
                }
                obs.nontrivial = *y == 1 || *y == 9999 || *m == 1 || *m == 12 || *d == 1 || *d == days_in_month(*y, *m);
                if *y < 1000 {
                    obs.class("rt.date.year_lt_1000");
                }
                round_trip(Kind::Date, &d_of(&v), &text, "round_trip").unwrap_or(Verdict::Pass)
            }
            Case::RtTime { h, mi, s, ns } => {
                obs.class("rt.time");
                let v = match Time::new(*h, *mi, *s, *ns) {
                    Ok(v) => v,
                    Err(e) => return Verdict::Harness(format!("generator produced a time the constructor rejects: {}", e)),
                };
                let text = v.to_string();
                #[cfg(not(feature = "mutant"))]
                if vibesql_types::SqlValue::Time(v).to_string() != text {
                    return Verdict::fail("display.sqlvalue_differs.time", format!("SqlValue::Time displays differently from Time: '{}'", text));
                }
                obs.nontrivial = *ns != 0 || bound_field(*h, *mi, *s);
                if *ns != 0 {
                    let digits = format!("{:09}", ns).trim_end_matches('0').len();
                    obs.class(&format!("rt.time.frac_digits_{}", digits));
                }
                round_trip(Kind::Time, &t_of(&v), &text, "round_trip").unwrap_or(Verdict::Pass)
            }
            Case::RtTs { y, m, d, h, mi, s, ns } => {
                obs.class("rt.timestamp");
                let (dv, tv) = match (Date::new(*y, *m, *d), Time::new(*h, *mi, *s, *ns)) {
                    (Ok(a), Ok(b)) => (a, b),
                    _ => return Verdict::Harness("generator produced an invalid timestamp".into()),
                };
                let v = Timestamp::new(dv, tv);
                let text = v.to_string();
                #[cfg(not(feature = "mutant"))]
                if vibesql_types::SqlValue::Timestamp(v).to_string() != text {
                    return Verdict::fail("display.sqlvalue_differs.timestamp", format!("SqlValue::Timestamp displays differently: '{}'", text));
                }
                obs.nontrivial = *ns != 0 || bound_field(*h, *mi, *s) || *y == 1 || *y == 9999;
                round_trip(Kind::Ts, &ts_of(&v), &text, "round_trip").unwrap_or(Verdict::Pass)
            }
            Case::TsForm { y, m, d, h, mi, s, ns, form } => {
                obs.class("rt.timestamp");
                obs.class("rt.timestamp.documented_input_form");
                let date = format!("{:04}-{:02}-{:02}", y, m, d);
                let time = format!("{:02}:{:02}:{:02}{}", h, mi, s, fmt_frac(*ns));
                let text = match form {
                    0 => format!("{}T{}", date, time),
                    1 => format!("{}T{}Z", date, time),
                    2 => format!("{} {}+05:00", date, time),
                    3 => format!("{}T{}-0800", date, time),
                    4 => format!("{} {}+01", date, time),
                    5 => format!("  {} {} ", date, time),
                    _ => format!("{} {}z", date, time),
                };
                obs.nontrivial = true;
                let want = Parsed::Ts(*y, *m, *d, *h, *mi, *s, *ns);
                round_trip(Kind::Ts, &want, &text, "documented_form").unwrap_or(Verdict::Pass)
            }
            Case::RtInterval { text } => self.run_interval_rt(text, obs),
            Case::Parse { kind, base, text, excluded } => {
                obs.excluded = *excluded as u64;
                self.run_parse(*kind, base, text, obs)
            }
        }
    }
}
