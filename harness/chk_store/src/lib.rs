//! chk_store — checks for the storage-level properties
//!   C17: the disk-backed B+ tree behaves as an ordered multimap and stays well-formed
//!   C22: temporal values round-trip through text; parsing is total
//!
//! Run through the `chk_store` binary (same command line as `vcheck`).

pub mod c17;
pub mod c22;

/// Sensitivity experiment only (`--features mutant`): mutated copies of the temporal sources of
/// vibesql-types, prepared by `chk_store/mutants/make_c22_mutant.sh` under /tmp/c22_mutant.
#[cfg(feature = "mutant")]
#[path = "/tmp/c22_mutant/temporal/mod.rs"]
#[allow(dead_code, unused_imports, clippy::all)]
pub mod mutant_temporal;

pub use c17::C17;
pub use c22::C22;
