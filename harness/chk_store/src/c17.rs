//! C17 — The disk-backed B+ tree behaves as an ordered multimap and stays well-formed.
//!
//! Model-based check: every operation of a generated history is applied to
//! `vibesql_storage::btree::BTreeIndex` (over a `PageManager` on a per-case temp directory) and to
//! a `BTreeMap<Key, Vec<RowId>>`; every answer is compared, and after every mutating operation the
//! persisted tree is walked (`verif_walk`, feature `verif`) and checked for well-formedness and for
//! holding exactly the model's content.

use serde::{Deserialize, Serialize};
use std::collections::BTreeMap;
use std::path::PathBuf;
use std::sync::atomic::{AtomicU64, Ordering as AtomicOrdering};
use std::sync::Arc;
use vcore::runner::catch;
use vcore::val::V;
use vcore::{Check, GenCfg, Obs, Tape, Tier, Verdict};
use vibesql_storage::btree::{BTreeIndex, VerifNode};
use vibesql_storage::page::PageManager;
use vibesql_storage::{NativeStorage, StorageBackend, StorageError, StorageFile};
use vibesql_types::{DataType, SqlValue};

pub struct C17;

// signatures of the known findings (relation + trigger)
pub const SIG_OVF_DUP: &str = "page_overflow.dup_rowids";
pub const SIG_OVF_LONG: &str = "page_overflow.long_keys";
pub const SIG_REOPEN_FRESH: &str = "reopen_fresh_pm.tree_lost";
pub const SIG_BULK_H3: &str = "wf.separator_bound.after_bulk_load";
pub const SIG_DEL_PANIC: &str = "delete.panic.rebalance.index_oob";

const PAGE_SIZE: usize = 4096;

#[derive(Clone, Copy, Debug, PartialEq, Eq, Serialize, Deserialize)]
pub enum Schema {
    /// VARCHAR(n): 10000 => estimated key larger than a page => minimum degree 5;
    /// 150 => degree 6, 128 => degree 7, 110 => degree 8 (even/odd split and underflow thresholds)
    Str(u32),
    /// (INT, VARCHAR(300)): degree 5, composite keys
    IntStr,
    /// INT: degree ~200
    Int,
}

impl Schema {
    fn key_schema(self) -> Vec<DataType> {
        match self {
            Schema::Str(n) => vec![DataType::Varchar { max_length: Some(n as usize) }],
            Schema::IntStr => vec![DataType::Integer, DataType::Varchar { max_length: Some(300) }],
            Schema::Int => vec![DataType::Integer],
        }
    }
    fn name(self) -> String {
        match self {
            Schema::Str(n) => format!("varchar{}", n),
            Schema::IntStr => "int_varchar300".into(),
            Schema::Int => "int".into(),
        }
    }
}

/// How numeric key components are represented.
#[derive(Clone, Copy, Debug, PartialEq, Eq, Serialize, Deserialize)]
pub enum Num {
    /// `SqlValue::Double`: what `IndexManager` stores (normalize_for_comparison)
    Double,
    /// `SqlValue::Integer`: what the crate's own tests and doc examples use
    Integer,
}

pub type K = Vec<V>;

#[derive(Clone, Debug, Serialize, Deserialize)]
pub enum Op {
    Insert { k: K, r: usize },
    /// `n` inserts of the same key with row ids r0, r0+1, .. (many rows sharing one indexed value)
    InsertMany { k: K, r0: usize, n: u32 },
    Delete { k: K },
    DeleteSpecific { k: K, r: usize },
    Lookup { k: K },
    MultiLookup { ks: Vec<K> },
    Range { lo: Option<K>, hi: Option<K>, inc_lo: bool, inc_hi: bool },
    /// `BTreeIndex::load` on the same PageManager
    Reopen,
    /// drop everything, new `PageManager` over the same file, `BTreeIndex::load`
    ReopenFresh,
    /// `bulk_load` of the current content on the same PageManager (IndexManager::rebuild_indexes)
    Rebuild,
}

#[derive(Clone, Debug, Serialize, Deserialize)]
pub struct Case {
    pub schema: Schema,
    pub num: Num,
    /// sorted (key, row id) entries for `bulk_load`; None = `BTreeIndex::new`
    pub bulk: Option<Vec<(K, usize)>>,
    pub ops: Vec<Op>,
    #[serde(default)]
    pub excluded: u32,
    /// the generator was asked to stay away from the triggers of all open known findings
    #[serde(default)]
    pub avoid: bool,
}

// ------------------------------------------------------------------------------------------
// keys


// NOTE: `SqlValue`'s PartialOrd is SQL three-valued (NULL compares as None), so `<`/`>` on keys
// are not the index order; everything below compares with `Ord::cmp`, as the tree does.
fn lt(a: &[SqlValue], b: &[SqlValue]) -> bool {
    a.cmp(b) == std::cmp::Ordering::Less
}
fn le(a: &[SqlValue], b: &[SqlValue]) -> bool {
    a.cmp(b) != std::cmp::Ordering::Greater
}
fn same(a: &[SqlValue], b: &[SqlValue]) -> bool {
    a.cmp(b) == std::cmp::Ordering::Equal
}

fn to_key(k: &K) -> Vec<SqlValue> {
    k.iter().map(|v| v.to_sql()).collect()
}

fn num(n: Num, i: i64) -> V {
    match n {
        Num::Double => V::dbl(i as f64),
        Num::Integer => V::Int(i),
    }
}

const LONG_LEN: usize = 1100;

/// The key pool of a schema, sorted by the engine's own key order (so pool index order = key order).
fn pool(schema: Schema, n: Num, long: bool) -> Vec<K> {
    let mut p: Vec<K> = Vec::new();
    match schema {
        Schema::Str(_) => {
            p.push(vec![V::Null]);
            for s in ["", "a", "A", "aa", "ab", "b", "é", "日本"] {
                p.push(vec![V::Varchar(s.to_string())]);
            }
            for i in 0..51 {
                p.push(vec![V::Varchar(format!("k{:02}", i))]);
            }
            if long {
                for i in 0..12 {
                    p.push(vec![V::Varchar(format!("L{:02}{}", i, "x".repeat(LONG_LEN)))]);
                }
            }
        }
        Schema::IntStr => {
            let ints: Vec<V> = std::iter::once(V::Null).chain([-1i64, 0, 1, 2, 3, 7, 1 << 40].iter().map(|&i| num(n, i))).collect();
            let strs: Vec<V> = std::iter::once(V::Null).chain(["", "a", "b", "k1", "k2", "é", "zz"].iter().map(|s| V::Varchar(s.to_string()))).collect();
            for a in &ints {
                for b in &strs {
                    p.push(vec![a.clone(), b.clone()]);
                }
            }
        }
        Schema::Int => {
            p.push(vec![V::Null]);
            for i in 0..600 {
                p.push(vec![num(n, i)]);
            }
        }
    }
    p.sort_by(|a, b| to_key(a).cmp(&to_key(b)));
    p.dedup_by(|a, b| same(&to_key(a), &to_key(b)));
    p
}

/// Range bounds / lookup keys that are not in the pool: prefixes of composite keys (what
/// IndexData::range_scan passes) and values between / outside pool values.
fn extra_bounds(schema: Schema, n: Num) -> Vec<K> {
    match schema {
        Schema::Str(_) => ["0", "a ", "k", "k25x", "zzz", "L"].iter().map(|s| vec![V::Varchar(s.to_string())]).collect(),
        Schema::IntStr => {
            let mut v: Vec<K> = vec![vec![V::Null]];
            for i in [-2i64, -1, 0, 1, 2, 3, 4, 7, 8] {
                v.push(vec![num(n, i)]);
            }
            v.push(vec![num(n, 1), V::Varchar("a0".into())]);
            v
        }
        Schema::Int => vec![vec![num(n, -5)], vec![num(n, 1000)]],
    }
}

/// serialized size of one leaf entry (key_len u16, values, varint count, 8 bytes per row id)
fn entry_bytes(k: &K, n_rows: usize) -> usize {
    let kb: usize = k
        .iter()
        .map(|v| match v {
            V::Null => 1,
            V::Varchar(s) | V::Char(s) => 1 + 4 + s.len(),
            _ => 9,
        })
        .sum();
    2 + kb + if n_rows < 128 { 1 } else { 2 } + 8 * n_rows
}

fn degree_of(schema: Schema) -> usize {
    match schema {
        Schema::Str(10000) | Schema::IntStr => 5,
        // mirror of calculate_degree: (4096 - 11) / (2 + 1 + 8 + 4 n + 1 + 8), at least 5
        Schema::Str(n) => ((PAGE_SIZE - 11) / (20 + 4 * n as usize)).max(5),
        // (4096 - 11) / (2 + 9 + 1 + 8)
        Schema::Int => 204,
    }
}

// ------------------------------------------------------------------------------------------
// generator (keeps its own model so that deletes hit, row ids are fresh, and known triggers can
// be avoided by construction)

struct Gen<'t, 'd> {
    t: &'t mut Tape<'d>,
    schema: Schema,
    pool: Vec<K>,
    extra: Vec<K>,
    /// pool index -> row ids (insertion order)
    model: BTreeMap<usize, Vec<usize>>,
    next_row: usize,
    avoid_dup_overflow: bool,
    excluded: u32,
}

impl<'t, 'd> Gen<'t, 'd> {
    /// Invariant kept in avoid mode: every run of (degree-1) consecutive present keys fits into one
    /// page (a written leaf never holds more than degree-1 entries, and always consecutive keys).
    /// `add = Some(n)`: n more row ids under `idx`; `None`: key `idx` disappears (its neighbours
    /// become adjacent, e.g. in a merged leaf).
    fn fits_change(&self, idx: usize, add: Option<usize>) -> bool {
        let w = degree_of(self.schema) - 1;
        let mut keys: Vec<(usize, usize)> = Vec::new(); // (pool idx, rows)
        let below: Vec<(usize, usize)> = self.model.range(..idx).rev().take(w - 1).map(|(k, v)| (*k, v.len())).collect();
        keys.extend(below.into_iter().rev());
        if let Some(add) = add {
            let cur = self.model.get(&idx).map(|v| v.len()).unwrap_or(0) + add;
            keys.push((idx, cur));
        }
        for (k, v) in self.model.range(idx + 1..).take(w - 1) {
            keys.push((*k, v.len()));
        }
        let sizes: Vec<usize> = keys.iter().map(|(k, n)| entry_bytes(&self.pool[*k], *n)).collect();
        let budget = PAGE_SIZE - 3 - 8;
        let mut sum = 0usize;
        for i in 0..sizes.len() {
            sum += sizes[i];
            if i >= w {
                sum -= sizes[i - w];
            }
            if sum > budget {
                return false;
            }
        }
        true
    }
    fn fits(&self, idx: usize, add: usize) -> bool {
        self.fits_change(idx, Some(add))
    }

    fn fresh_row(&mut self) -> usize {
        let r = self.next_row;
        self.next_row += 1;
        r
    }

    /// pool index biased towards a moving focus so that neighbouring leaves fill and drain
    fn key_idx(&mut self, focus: usize, spread: usize) -> usize {
        let n = self.pool.len();
        if self.t.chance(1, 4) {
            self.t.below(n)
        } else {
            let lo = focus.saturating_sub(spread);
            let hi = (focus + spread).min(n - 1);
            lo + self.t.below(hi - lo + 1)
        }
    }

    fn present_idx(&mut self) -> Option<usize> {
        if self.model.is_empty() {
            return None;
        }
        let n = self.model.len();
        let j = self.t.below(n);
        self.model.keys().nth(j).copied()
    }

    fn any_key(&mut self) -> K {
        if !self.extra.is_empty() && self.t.chance(1, 5) {
            self.t.pick(&self.extra).clone()
        } else {
            let i = self.t.below(self.pool.len());
            self.pool[i].clone()
        }
    }

    fn insert_op(&mut self, idx: usize) -> Option<Op> {
        if self.avoid_dup_overflow && !self.fits(idx, 1) {
            self.excluded += 1;
            return None;
        }
        let r = self.fresh_row();
        self.model.entry(idx).or_default().push(r);
        Some(Op::Insert { k: self.pool[idx].clone(), r })
    }

    fn delete_op(&mut self, idx: usize) -> Option<Op> {
        if self.avoid_dup_overflow && self.model.contains_key(&idx) && !self.fits_change(idx, None) {
            self.excluded += 1;
            return None;
        }
        self.model.remove(&idx);
        Some(Op::Delete { k: self.pool[idx].clone() })
    }

    fn delete_specific_op(&mut self, idx: usize) -> Option<Op> {
        let k = self.pool[idx].clone();
        if self.avoid_dup_overflow && self.model.get(&idx).map(|r| r.len() == 1).unwrap_or(false) && !self.fits_change(idx, None) {
            self.excluded += 1;
            return None;
        }
        let r = match self.model.get(&idx) {
            Some(rows) if !self.t.chance(1, 8) => {
                let j = self.t.below(rows.len());
                rows[j]
            }
            // a row id that is not stored under this key
            _ => self.next_row + 7,
        };
        if let Some(rows) = self.model.get_mut(&idx) {
            if let Some(p) = rows.iter().position(|&x| x == r) {
                rows.remove(p);
                if rows.is_empty() {
                    self.model.remove(&idx);
                }
            }
        }
        Some(Op::DeleteSpecific { k, r })
    }
}

fn build_case(t: &mut Tape, cfg: &GenCfg) -> Case {
    let mut excluded = 0u32;
    let schema = match t.weighted(&[4, 4, 2, 1, 1, 1]) {
        0 => Schema::Str(10000),
        1 => Schema::IntStr,
        2 => Schema::Int,
        3 => Schema::Str(150),
        4 => Schema::Str(128),
        _ => Schema::Str(110),
    };
    let n = if t.chance(1, 3) { Num::Integer } else { Num::Double };
    let mut long = schema == Schema::Str(10000) && t.chance(1, 8);
    if long && cfg.avoiding(SIG_OVF_LONG) {
        long = false;
        excluded += 1;
    }
    let mut hot = t.chance(1, 10);
    let avoid_dup = cfg.avoiding(SIG_OVF_DUP);
    if hot && avoid_dup {
        hot = false;
        excluded += 1;
    }
    let avoid_fresh = cfg.avoiding(SIG_REOPEN_FRESH);
    // bulk_load builds a third level when there are more distinct keys than (3/4 degree)^2
    let cap = degree_of(schema) * 3 / 4;
    // (a third level also leaves a trailing single-child internal node when the leaf count is 1 mod cap)
    let bulk_key_limit = if cfg.avoiding(SIG_BULK_H3) || cfg.avoiding(SIG_DEL_PANIC) { cap * cap } else { usize::MAX };
    let pool = pool(schema, n, long);
    let extra = extra_bounds(schema, n);
    let plen = pool.len();
    let mut g = Gen { t, schema, pool, extra, model: BTreeMap::new(), next_row: 0, avoid_dup_overflow: avoid_dup, excluded: 0 };

    // ---- optional bulk load: sorted by key, row ids ascending within a key (stable sort of rows)
    let bulk = if g.t.chance(1, 2) {
        let max = if schema == Schema::Int { 400 } else { 120 };
        let cnt = match g.t.weighted(&[1, 4, 2]) {
            0 => 0,
            1 => g.t.range(1, 40) as usize,
            _ => g.t.range(41, max) as usize,
        };
        let unique_keys = g.t.chance(1, 2);
        let mut pairs: Vec<(usize, usize)> = Vec::new(); // (pool idx, row)
        for _ in 0..cnt {
            let idx = g.t.below(plen);
            if unique_keys && g.model.contains_key(&idx) {
                continue;
            }
            if !g.model.contains_key(&idx) && g.model.len() >= bulk_key_limit {
                g.excluded += 1;
                continue;
            }
            if g.avoid_dup_overflow && !g.fits(idx, 1) {
                g.excluded += 1;
                continue;
            }
            let r = g.fresh_row();
            g.model.entry(idx).or_default().push(r);
            pairs.push((idx, r));
        }
        pairs.sort(); // by key order, then row id
        Some(pairs.into_iter().map(|(i, r)| (g.pool[i].clone(), r)).collect::<Vec<_>>())
    } else {
        None
    };

    // ---- operation history in segments with their own op mix
    let mut ops: Vec<Op> = Vec::new();
    let max_ops = match schema {
        Schema::Int => 1500,
        _ => 600,
    };
    let mut focus = g.t.below(plen);
    'outer: while !g.t.exhausted() && ops.len() < max_ops {
        // segment: 0 grow, 1 shrink, 2 mixed, 3 query-heavy
        let mode = g.t.weighted(&[4, 4, 3, 1]);
        let seg_len = g.t.range(4, 60) as usize;
        let spread = match schema {
            Schema::Int => *g.t.pick(&[8usize, 40, 150, 600]),
            _ => *g.t.pick(&[3usize, 8, 20, 64]),
        };
        if g.t.chance(1, 2) {
            focus = g.t.below(plen);
        }
        // weights: insert, delete, delete_specific, lookup, multi, range, reopen, reopen_fresh, rebuild, insert_many, run
        let run_w = if schema == Schema::Int { 6 } else { 2 };
        let w: [u32; 11] = match mode {
            0 => [70, 4, 4, 5, 2, 8, 2, 1, 1, 3, run_w],
            1 => [6, 40, 30, 5, 2, 8, 2, 1, 1, 0, run_w],
            2 => [30, 20, 20, 8, 4, 10, 3, 1, 2, 2, run_w],
            _ => [10, 5, 5, 25, 15, 35, 2, 1, 1, 1, 0],
        };
        for _ in 0..seg_len {
            if g.t.exhausted() || ops.len() >= max_ops {
                break 'outer;
            }
            match g.t.weighted(&w) {
                0 => {
                    let idx = g.key_idx(focus, spread);
                    if let Some(op) = g.insert_op(idx) {
                        ops.push(op);
                    }
                }
                1 => {
                    // mostly present keys
                    let idx = if g.t.chance(1, 6) { Some(g.key_idx(focus, spread)) } else { g.present_idx() };
                    if let Some(op) = idx.and_then(|idx| g.delete_op(idx)) {
                        ops.push(op);
                    }
                }
                2 => {
                    let idx = if g.t.chance(1, 6) { Some(g.key_idx(focus, spread)) } else { g.present_idx() };
                    if let Some(op) = idx.and_then(|idx| g.delete_specific_op(idx)) {
                        ops.push(op);
                    }
                }
                3 => {
                    let k = g.any_key();
                    ops.push(Op::Lookup { k });
                }
                4 => {
                    let cnt = g.t.range(0, 6) as usize;
                    let ks = (0..cnt).map(|_| g.any_key()).collect();
                    ops.push(Op::MultiLookup { ks });
                }
                5 => {
                    let lo = if g.t.chance(1, 4) { None } else { Some(g.any_key()) };
                    let hi = if g.t.chance(1, 4) { None } else { Some(g.any_key()) };
                    // mostly lo <= hi, sometimes reversed / equal
                    let (lo, hi) = match (lo, hi) {
                        (Some(a), Some(b)) if lt(&to_key(&b), &to_key(&a)) && !g.t.chance(1, 8) => (Some(b), Some(a)),
                        x => x,
                    };
                    let inc_lo = g.t.chance(1, 2);
                    let inc_hi = g.t.chance(1, 2);
                    ops.push(Op::Range { lo, hi, inc_lo, inc_hi });
                }
                6 => ops.push(Op::Reopen),
                7 => {
                    if avoid_fresh {
                        g.excluded += 1;
                        ops.push(Op::Reopen);
                    } else {
                        ops.push(Op::ReopenFresh);
                    }
                }
                8 => {
                    if g.model.len() > bulk_key_limit {
                        g.excluded += 1;
                    } else {
                        ops.push(Op::Rebuild);
                    }
                }
                10 => {
                    // a run over consecutive pool keys: fills / drains neighbouring leaves quickly
                    let len = if schema == Schema::Int { g.t.range(20, 220) as usize } else { g.t.range(3, 14) as usize };
                    let start = g.key_idx(focus, spread);
                    let ins = match mode {
                        0 => true,
                        1 => false,
                        _ => g.t.chance(1, 2),
                    };
                    let down = g.t.chance(1, 2);
                    for j in 0..len {
                        let idx = if down { start.checked_sub(j) } else { Some(start + j).filter(|&i| i < plen) };
                        let Some(idx) = idx else { break };
                        if ops.len() >= max_ops {
                            break;
                        }
                        if ins {
                            if g.model.contains_key(&idx) {
                                continue;
                            }
                            if let Some(op) = g.insert_op(idx) {
                                ops.push(op);
                            }
                        } else if g.model.contains_key(&idx) {
                            if let Some(op) = g.delete_op(idx) {
                                ops.push(op);
                            }
                        }
                    }
                }
                _ => {
                    // many rows share one indexed value
                    let idx = g.key_idx(focus, spread);
                    let want = if hot { *g.t.pick(&[40u32, 130, 300, 520, 700]) } else { g.t.range(2, 12) as u32 };
                    let mut nrows = want;
                    if g.avoid_dup_overflow {
                        while nrows > 0 && !g.fits(idx, nrows as usize) {
                            nrows /= 2;
                        }
                        if nrows < want {
                            g.excluded += 1;
                        }
                    }
                    if nrows > 0 {
                        let r0 = g.next_row;
                        g.next_row += nrows as usize;
                        g.model.entry(idx).or_default().extend(r0..r0 + nrows as usize);
                        ops.push(Op::InsertMany { k: g.pool[idx].clone(), r0, n: nrows });
                    }
                }
            }
        }
    }
    excluded += g.excluded;
    Case { schema, num: n, bulk, ops, excluded, avoid: cfg.avoid_known }
}

// ------------------------------------------------------------------------------------------
// system under test on a temp directory

static DIR_COUNTER: AtomicU64 = AtomicU64::new(0);

/// A runaway walk costs seconds; shrinking would repeat it thousands of times. Once one case has
/// failed that way, every *other* case of this process passes immediately (so proptest's shrink
/// loop and the other workers end at once) and exactly that case keeps failing, which is what the
/// runner re-runs and writes as the replay. 0 = not latched; otherwise hash of the latched case.
static RUNAWAY_CASE: AtomicU64 = AtomicU64::new(0);

fn tmp_base() -> PathBuf {
    std::env::var("VERIF_C17_TMP").map(PathBuf::from).unwrap_or_else(|_| PathBuf::from("/verif/target/tmp/c17"))
}

struct TmpDir(PathBuf);
impl TmpDir {
    fn new() -> Result<TmpDir, String> {
        let n = DIR_COUNTER.fetch_add(1, AtomicOrdering::Relaxed);
        let p = tmp_base().join(format!("{}-{}", std::process::id(), n));
        let _ = std::fs::remove_dir_all(&p);
        std::fs::create_dir_all(&p).map_err(|e| format!("cannot create {}: {}", p.display(), e))?;
        Ok(TmpDir(p))
    }
}
impl Drop for TmpDir {
    fn drop(&mut self) {
        let _ = std::fs::remove_dir_all(&self.0);
    }
}

/// remove directories left behind by dead processes
fn sweep_stale() {
    if let Ok(rd) = std::fs::read_dir(tmp_base()) {
        for e in rd.filter_map(|e| e.ok()) {
            let name = e.file_name().to_string_lossy().to_string();
            if let Some(pid) = name.split('-').next().and_then(|p| p.parse::<u32>().ok()) {
                if pid != std::process::id() && !std::path::Path::new(&format!("/proc/{}", pid)).exists() {
                    let _ = std::fs::remove_dir_all(e.path());
                }
            }
        }
    }
}

const FILE: &str = "idx.db";

/// `StorageBackend` that delegates to `NativeStorage` but turns fsync into a no-op (PageManager
/// fsyncs after every page write; durability is not part of C17 and costs ~15x wall time on ext4).
/// `VERIF_C17_FSYNC=1` restores the real fsync. `keep = true` additionally opens existing files
/// without truncating them (dev experiment only: what a reopen would see if NativeStorage::open_file
/// did not truncate).
pub struct Backend {
    inner: NativeStorage,
    root: PathBuf,
    fsync: bool,
    pub keep: std::sync::atomic::AtomicBool,
}
struct NoSyncFile(Box<dyn StorageFile>);
impl StorageFile for NoSyncFile {
    fn read_at(&mut self, offset: u64, buf: &mut [u8]) -> Result<usize, StorageError> {
        self.0.read_at(offset, buf)
    }
    fn write_at(&mut self, offset: u64, buf: &[u8]) -> Result<usize, StorageError> {
        self.0.write_at(offset, buf)
    }
    fn sync_all(&mut self) -> Result<(), StorageError> {
        Ok(())
    }
    fn sync_data(&mut self) -> Result<(), StorageError> {
        Ok(())
    }
    fn size(&self) -> Result<u64, StorageError> {
        self.0.size()
    }
}
struct KeepFile(std::fs::File);
impl StorageFile for KeepFile {
    fn read_at(&mut self, offset: u64, buf: &mut [u8]) -> Result<usize, StorageError> {
        use std::io::{Read, Seek, SeekFrom};
        self.0.seek(SeekFrom::Start(offset)).map_err(|e| StorageError::IoError(e.to_string()))?;
        let mut n = 0;
        while n < buf.len() {
            match self.0.read(&mut buf[n..]) {
                Ok(0) => break,
                Ok(k) => n += k,
                Err(e) => return Err(StorageError::IoError(e.to_string())),
            }
        }
        Ok(n)
    }
    fn write_at(&mut self, offset: u64, buf: &[u8]) -> Result<usize, StorageError> {
        use std::io::{Seek, SeekFrom, Write};
        self.0.seek(SeekFrom::Start(offset)).map_err(|e| StorageError::IoError(e.to_string()))?;
        self.0.write_all(buf).map_err(|e| StorageError::IoError(e.to_string()))?;
        Ok(buf.len())
    }
    fn sync_all(&mut self) -> Result<(), StorageError> {
        Ok(())
    }
    fn sync_data(&mut self) -> Result<(), StorageError> {
        Ok(())
    }
    fn size(&self) -> Result<u64, StorageError> {
        self.0.metadata().map(|m| m.len()).map_err(|e| StorageError::IoError(e.to_string()))
    }
}
impl Backend {
    pub fn new(root: &std::path::Path) -> Result<Backend, StorageError> {
        Ok(Backend {
            inner: NativeStorage::new(root)?,
            root: root.to_path_buf(),
            fsync: std::env::var("VERIF_C17_FSYNC").is_ok(),
            keep: std::sync::atomic::AtomicBool::new(false),
        })
    }
    fn wrap(&self, f: Box<dyn StorageFile>) -> Box<dyn StorageFile> {
        if self.fsync {
            f
        } else {
            Box::new(NoSyncFile(f))
        }
    }
}
impl StorageBackend for Backend {
    fn create_file(&self, path: &str) -> Result<Box<dyn StorageFile>, StorageError> {
        self.inner.create_file(path).map(|f| self.wrap(f))
    }
    fn open_file(&self, path: &str) -> Result<Box<dyn StorageFile>, StorageError> {
        if self.keep.load(AtomicOrdering::Relaxed) {
            let f = std::fs::OpenOptions::new().read(true).write(true).create(true).truncate(false).open(self.root.join(path)).map_err(|e| StorageError::IoError(e.to_string()))?;
            return Ok(Box::new(KeepFile(f)));
        }
        self.inner.open_file(path).map(|f| self.wrap(f))
    }
    fn delete_file(&self, path: &str) -> Result<(), StorageError> {
        self.inner.delete_file(path)
    }
    fn file_exists(&self, path: &str) -> bool {
        self.inner.file_exists(path)
    }
    fn file_size(&self, path: &str) -> Result<u64, StorageError> {
        self.inner.file_size(path)
    }
}

/// Dev experiment (not part of the check; `chk_store dev-reopen-keep`): what happens behind
/// KF-C17-3, i.e. if the index file survived `open_file`. Runs in the calling thread.
pub fn dev_reopen_keep() {
    let dir = TmpDir::new().expect("tmp dir");
    let storage = Arc::new(Backend::new(&dir.0).expect("backend"));
    let pm = Arc::new(PageManager::new(FILE, storage.clone()).expect("pm"));
    let mut idx = BTreeIndex::new(pm.clone(), vec![DataType::Integer]).expect("new");
    for i in 0..500 {
        idx.insert(vec![SqlValue::Integer(i)], i as usize).expect("insert");
    }
    println!("before: root={} height={} degree={} next_page_id={}", idx.root_page_id(), idx.height(), idx.degree(), pm.next_page_id());
    drop(idx);
    drop(pm);
    storage.keep.store(true, AtomicOrdering::Relaxed);
    println!("opening a fresh PageManager over the (kept) file ...");
    let t0 = std::time::Instant::now();
    let pm2 = Arc::new(PageManager::new(FILE, storage.clone()).expect("pm2"));
    println!("PageManager::new took {:?}; next_page_id={} free_pages={}", t0.elapsed(), pm2.next_page_id(), pm2.free_page_count());
    let mut idx2 = BTreeIndex::load(pm2.clone()).expect("load");
    println!("loaded: root={} height={} degree={}", idx2.root_page_id(), idx2.height(), idx2.degree());
    println!("lookup(7) = {:?}", idx2.lookup(&vec![SqlValue::Integer(7)]));
    for i in 500..1000 {
        if let Err(e) = idx2.insert(vec![SqlValue::Integer(i)], i as usize) {
            println!("insert({}) failed: {}", i, e);
            break;
        }
    }
    println!("after 500 more inserts: lookup(7) = {:?}  lookup(999) = {:?}", idx2.lookup(&vec![SqlValue::Integer(7)]), idx2.lookup(&vec![SqlValue::Integer(999)]));
    match idx2.range_scan(None, None, true, true) {
        Ok(r) => println!("full scan returns {} row ids (expected 1000)", r.len()),
        Err(e) => println!("full scan failed: {}", e),
    }
}

struct Sut {
    idx: Option<BTreeIndex>,
    pm: Option<Arc<PageManager>>,
    storage: Arc<Backend>,
    _dir: TmpDir,
}

type Model = BTreeMap<Vec<SqlValue>, Vec<usize>>;

/// A failed oracle step: (signature fragment, detail)
type Bad = (String, String);

fn bad(sig: impl Into<String>, detail: impl Into<String>) -> Bad {
    (sig.into(), detail.into())
}

fn panic_class(desc: &str) -> String {
    let (loc, msg) = desc.split_once(" :: ").unwrap_or((desc, ""));
    let file = loc.rsplit_once(':').map(|x| x.0).unwrap_or(loc);
    let stem = file.rsplit('/').next().unwrap_or(file).trim_end_matches(".rs");
    let class: String = if msg.contains("overflow") {
        "int_overflow".into()
    } else if msg.contains("out of bounds") || msg.contains("out of range") {
        "index_oob".into()
    } else if msg.contains("unwrap") {
        "unwrap".into()
    } else {
        let mut m: String = msg.chars().filter(|c| c.is_ascii_alphabetic() || *c == ' ').collect();
        m.truncate(40);
        m.trim().replace(' ', "_")
    };
    format!("{}.{}", stem, class)
}

fn is_overflow_err(msg: &str) -> bool {
    msg.contains("exceeds page size") || msg.contains("Failed to write") || msg.contains("Write error") || msg.contains("failed to write whole buffer")
}

fn show_key(k: &[SqlValue]) -> String {
    let parts: Vec<String> = k
        .iter()
        .map(|v| match v {
            SqlValue::Varchar(s) if s.len() > 24 => format!("'{}…'({}b)", &s[..8], s.len()),
            SqlValue::Varchar(s) => format!("'{}'", s),
            SqlValue::Null => "NULL".into(),
            other => format!("{:?}", other),
        })
        .collect();
    format!("[{}]", parts.join(","))
}

fn show_rows(r: &[usize]) -> String {
    if r.len() > 24 {
        format!("{:?}…({} ids)", &r[..24], r.len())
    } else {
        format!("{:?}", r)
    }
}

/// Summary of one walk, used for event detection and content comparison.
struct Shape {
    height: usize,
    leaves: usize,
    internals: usize,
    /// separator keys of every internal node, in walk order
    seps: Vec<Vec<Vec<SqlValue>>>,
}

/// Result of the guard walk.
enum Guard {
    /// page ids in the order `verif_walk` will visit them
    Finite(Vec<u64>),
    /// a page is reachable twice (shared child or cycle): `verif_walk` would run away
    Repeat(u64),
    /// a page that is neither a parsable internal node nor a leaf was reached before any repeat:
    /// `verif_walk` stops there with an error, so it is safe to call
    Unparsable,
}

/// Safety guard in front of the `verif_walk` hook. The hook follows child pointers without a
/// visited set and only gives up after 1M nodes, keeping every node (with cloned keys) in memory:
/// on a tree whose child pointers are shared or cyclic it runs for minutes and allocates
/// gigabytes. This guard makes the same depth-first walk reading only page type and child pointers
/// of internal nodes (production `read_sql_value` for the keys), with a visited set, so it always
/// terminates after at most one visit per page. It never decides a verdict on a healthy tree; there
/// its page sequence is cross-checked against the hook's (mismatch => harness error, exit 2), so
/// a drift between this reader and the page format cannot turn into a false alarm unnoticed.
fn guard_walk(pm: &PageManager, root: u64) -> Guard {
    use std::io::Read;
    let mut seen: std::collections::HashSet<u64> = std::collections::HashSet::new();
    let mut order = Vec::new();
    let mut stack = vec![root];
    while let Some(id) = stack.pop() {
        if !seen.insert(id) {
            return Guard::Repeat(id);
        }
        order.push(id);
        let Ok(page) = pm.read_page(id) else { return Guard::Unparsable };
        match page.data[0] {
            2 => {} // leaf
            1 => {
                let mut cur = std::io::Cursor::new(&page.data[1..]);
                let mut b2 = [0u8; 2];
                if cur.read_exact(&mut b2).is_err() {
                    return Guard::Unparsable;
                }
                let nkeys = u16::from_le_bytes(b2) as usize;
                for _ in 0..nkeys {
                    if cur.read_exact(&mut b2).is_err() {
                        return Guard::Unparsable;
                    }
                    for _ in 0..u16::from_le_bytes(b2) {
                        if vibesql_storage::persistence::binary::value::read_sql_value(&mut cur).is_err() {
                            return Guard::Unparsable;
                        }
                    }
                }
                let mut children = Vec::with_capacity(nkeys + 1);
                for _ in 0..=nkeys {
                    let mut b8 = [0u8; 8];
                    if cur.read_exact(&mut b8).is_err() {
                        return Guard::Unparsable;
                    }
                    children.push(u64::from_le_bytes(b8));
                }
                for c in children.into_iter().rev() {
                    stack.push(c);
                }
            }
            _ => return Guard::Unparsable,
        }
    }
    Guard::Finite(order)
}

/// Well-formedness of the persisted tree + equality of its content with the model.
fn check_tree(idx: &BTreeIndex, pm: &PageManager, model: &Model) -> Result<Shape, Bad> {
    let expect_order = match guard_walk(pm, idx.root_page_id()) {
        Guard::Repeat(p) => {
            return Err(bad("wf.shared_or_cyclic_page", format!("page {} is reachable twice from the root (shared child pointer or cycle)", p)));
        }
        Guard::Finite(o) => Some(o),
        Guard::Unparsable => None,
    };
    let nodes = match catch(|| idx.verif_walk()) {
        Err(p) => return Err(bad(format!("wf.walk_panic.{}", panic_class(&p)), format!("walking the tree panicked: {}", p))),
        Ok(Err(e)) => {
            let m = e.to_string();
            // the hook gives up after 1M nodes: the child pointers form a cycle / DAG blow-up
            let sig = if m.contains("too many nodes") { "wf.runaway_walk" } else { "wf.unreadable_node" };
            return Err(bad(sig, format!("walking the tree failed: {}", m)));
        }
        Ok(Ok(n)) => n,
    };
    if let Some(o) = &expect_order {
        let got: Vec<u64> = nodes.iter().map(|n| n.page_id).collect();
        if &got != o {
            return Err(bad("harness.guard_out_of_sync", format!("guard walk saw pages {:?} but verif_walk returned {:?}: the guard's page reader no longer matches the page format", o, got)));
        }
    } else {
        return Err(bad("harness.guard_out_of_sync", "guard walk hit an unparsable page but verif_walk succeeded"));
    }
    let height = idx.height();
    let degree = idx.degree();
    // no tree of this check has more than a few hundred nodes (<= 601 keys): a walk that returns
    // thousands of nodes is going round shared / cyclic child pointers
    if nodes.len() > 5_000 {
        return Err(bad("wf.runaway_walk", format!("walk visited {} nodes: child pointers are shared or cyclic", nodes.len())));
    }
    if nodes.is_empty() {
        return Err(bad("wf.no_root", "walk returned no node"));
    }
    // page ids unique and not the metadata page
    {
        let mut ids: Vec<u64> = nodes.iter().map(|n| n.page_id).collect();
        ids.sort();
        if ids.first() == Some(&0) {
            return Err(bad("wf.page_zero_as_node", "page 0 (metadata) is linked as a node"));
        }
        if ids.windows(2).any(|w| w[0] == w[1]) {
            return Err(bad("wf.shared_page", "a page is reachable twice from the root"));
        }
    }
    let mut leaves: Vec<usize> = Vec::new();
    let mut pos = 0usize;
    fn rec(
        nodes: &[VerifNode],
        pos: &mut usize,
        depth: usize,
        expect_page: Option<u64>,
        lo: Option<&Vec<SqlValue>>,
        hi: Option<&Vec<SqlValue>>,
        height: usize,
        degree: usize,
        leaves: &mut Vec<usize>,
    ) -> Result<(), Bad> {
        if *pos >= nodes.len() {
            return Err(bad("wf.walk_truncated", "walk ended before all children were visited"));
        }
        let me = *pos;
        let n = &nodes[me];
        *pos += 1;
        if let Some(p) = expect_page {
            if n.page_id != p {
                return Err(bad("harness.walk_order", format!("expected page {} in the walk, found {}", p, n.page_id)));
            }
        }
        if n.depth != depth {
            return Err(bad("harness.walk_depth", format!("page {} reported at depth {}, expected {}", n.page_id, n.depth, depth)));
        }
        let in_bounds = |k: &Vec<SqlValue>| lo.map(|l| le(l, k)).unwrap_or(true) && hi.map(|h| lt(k, h)).unwrap_or(true);
        if n.is_leaf {
            if depth != height {
                return Err(bad("wf.leaf_depth", format!("leaf page {} at depth {} but the tree height is {}", n.page_id, depth, height)));
            }
            if n.keys.is_empty() && depth > 1 {
                return Err(bad("wf.empty_leaf", format!("non-root leaf page {} has no entries", n.page_id)));
            }
            if n.keys.len() > degree {
                return Err(bad("wf.fill", format!("leaf page {} has {} entries, degree {}", n.page_id, n.keys.len(), degree)));
            }
            if n.keys.windows(2).any(|w| le(&w[1], &w[0])) {
                return Err(bad("wf.leaf_keys_unsorted", format!("keys of leaf page {} are not strictly ascending: {}", n.page_id, n.keys.iter().map(|k| show_key(k)).collect::<Vec<_>>().join(" "))));
            }
            if let Some(k) = n.keys.iter().find(|k| !in_bounds(k)) {
                return Err(bad(
                    "wf.separator_bound",
                    format!("leaf page {} holds key {} outside the separator bounds [{} , {}) of its ancestors", n.page_id, show_key(k), lo.map(|l| show_key(l)).unwrap_or("-inf".into()), hi.map(|h| show_key(h)).unwrap_or("+inf".into())),
                ));
            }
            if n.row_ids.iter().any(|r| r.is_empty()) {
                return Err(bad("wf.key_without_rows", format!("leaf page {} holds a key with an empty row-id list", n.page_id)));
            }
            leaves.push(me);
            return Ok(());
        }
        if depth >= height {
            return Err(bad("wf.leaf_depth", format!("internal page {} at depth {} but the tree height is {}", n.page_id, depth, height)));
        }
        if n.children.is_empty() {
            return Err(bad("wf.empty_internal", format!("internal page {} has no children", n.page_id)));
        }
        if n.children.len() != n.keys.len() + 1 {
            return Err(bad("wf.internal_arity", format!("internal page {} has {} keys and {} children", n.page_id, n.keys.len(), n.children.len())));
        }
        if n.children.len() > degree {
            return Err(bad("wf.fill", format!("internal page {} has {} children, degree {}", n.page_id, n.children.len(), degree)));
        }
        if n.keys.windows(2).any(|w| le(&w[1], &w[0])) {
            return Err(bad("wf.internal_keys_unsorted", format!("separator keys of page {} are not strictly ascending", n.page_id)));
        }
        if let Some(k) = n.keys.iter().find(|k| !in_bounds(k)) {
            return Err(bad("wf.separator_bound", format!("internal page {} holds separator {} outside the bounds of its ancestors", n.page_id, show_key(k))));
        }
        for (j, &c) in n.children.iter().enumerate() {
            let clo = if j == 0 { lo } else { Some(&n.keys[j - 1]) };
            let chi = if j == n.keys.len() { hi } else { Some(&n.keys[j]) };
            rec(nodes, pos, depth + 1, Some(c), clo, chi, height, degree, leaves)?;
        }
        Ok(())
    }
    rec(&nodes, &mut pos, 1, Some(idx.root_page_id()), None, None, height, degree, &mut leaves)?;
    if pos != nodes.len() {
        return Err(bad("harness.walk_extra", "walk returned more nodes than the tree structure explains"));
    }
    // leaf chain visits exactly the in-order leaves
    for w in leaves.windows(2) {
        let (a, b) = (&nodes[w[0]], &nodes[w[1]]);
        if a.next_leaf != b.page_id {
            return Err(bad("wf.leaf_chain", format!("leaf page {} links to page {} but the next leaf in key order is page {}", a.page_id, a.next_leaf, b.page_id)));
        }
    }
    if let Some(&l) = leaves.last() {
        if nodes[l].next_leaf != 0 {
            return Err(bad("wf.leaf_chain", format!("last leaf page {} links on to page {}", nodes[l].page_id, nodes[l].next_leaf)));
        }
    }
    // keys sorted across leaves + content equals the model
    let mut got: Vec<(&Vec<SqlValue>, &Vec<usize>)> = Vec::new();
    for &l in &leaves {
        for (k, r) in nodes[l].keys.iter().zip(nodes[l].row_ids.iter()) {
            got.push((k, r));
        }
    }
    if got.windows(2).any(|w| le(w[1].0, w[0].0)) {
        return Err(bad("wf.keys_unsorted_across_leaves", "keys are not strictly ascending along the leaf level"));
    }
    let mut gi = got.iter();
    let mut mi = model.iter();
    loop {
        match (gi.next(), mi.next()) {
            (None, None) => break,
            (Some((k, r)), None) => return Err(bad("content.extra_key", format!("tree holds key {} -> {} which the model does not", show_key(k), show_rows(r)))),
            (None, Some((k, r))) => return Err(bad("content.missing_key", format!("tree lost key {} -> {}", show_key(k), show_rows(r)))),
            (Some((k, r)), Some((mk, mr))) => {
                if !same(k, mk) {
                    return if lt(k, mk) {
                        Err(bad("content.extra_key", format!("tree holds key {} -> {} which the model does not", show_key(k), show_rows(r))))
                    } else {
                        Err(bad("content.missing_key", format!("tree lost key {} -> {}", show_key(mk), show_rows(mr))))
                    };
                }
                if let Some(b) = cmp_rows("content", r, mr, &format!("key {}", show_key(k))) {
                    return Err(b);
                }
            }
        }
    }
    Ok(Shape {
        height,
        leaves: leaves.len(),
        internals: nodes.len() - leaves.len(),
        seps: nodes.iter().filter(|n| !n.is_leaf).map(|n| n.keys.clone()).collect(),
    })
}

/// row-id lists: insertion order is documented (`insert` appends; doc examples assert the order)
fn cmp_rows(rel: &str, got: &[usize], want: &[usize], what: &str) -> Option<Bad> {
    if got == want {
        return None;
    }
    let mut a = got.to_vec();
    let mut b = want.to_vec();
    a.sort();
    b.sort();
    if a == b {
        Some(bad(format!("{}.rowid_order", rel), format!("{}: row ids {} but the ordered multimap gives {}", what, show_rows(got), show_rows(want))))
    } else {
        Some(bad(format!("{}.rowid_set", rel), format!("{}: row ids {} but the ordered multimap gives {}", what, show_rows(got), show_rows(want))))
    }
}

impl Sut {
    fn create(case: &Case) -> Result<(Sut, Model), Bad> {
        let dir = TmpDir::new().map_err(|e| bad("harness.tmpdir", e))?;
        let storage = Arc::new(Backend::new(&dir.0).map_err(|e| bad("harness.storage", e.to_string()))?);
        let pm = Arc::new(PageManager::new(FILE, storage.clone()).map_err(|e| bad("harness.page_manager", e.to_string()))?);
        let mut model: Model = BTreeMap::new();
        let idx = match &case.bulk {
            None => match catch(|| BTreeIndex::new(pm.clone(), case.schema.key_schema())) {
                Err(p) => return Err(bad(format!("new.panic.{}", panic_class(&p)), p)),
                Ok(Err(e)) => return Err(bad("new.err", e.to_string())),
                Ok(Ok(i)) => i,
            },
            Some(entries) => {
                let es: Vec<(Vec<SqlValue>, usize)> = entries.iter().map(|(k, r)| (to_key(k), *r)).collect();
                if es.windows(2).any(|w| lt(&w[1].0, &w[0].0)) {
                    return Err(bad("harness.bulk_unsorted", "bulk entries of the case are not sorted by key"));
                }
                for (k, r) in &es {
                    model.entry(k.clone()).or_default().push(*r);
                }
                match catch(|| BTreeIndex::bulk_load(es, case.schema.key_schema(), pm.clone())) {
                    Err(p) => return Err(bad(format!("bulk_load.panic.{}", panic_class(&p)), p)),
                    Ok(Err(e)) => {
                        let m = e.to_string();
                        return Err(if is_overflow_err(&m) { bad("page_overflow", format!("bulk_load failed: {}", m)) } else { bad("bulk_load.err", m) });
                    }
                    Ok(Ok(i)) => i,
                }
            }
        };
        Ok((Sut { idx: Some(idx), pm: Some(pm), storage, _dir: dir }, model))
    }
    fn idx(&self) -> &BTreeIndex {
        self.idx.as_ref().expect("index present")
    }
    fn idx_mut(&mut self) -> &mut BTreeIndex {
        self.idx.as_mut().expect("index present")
    }
}

fn model_range(model: &Model, lo: Option<&Vec<SqlValue>>, hi: Option<&Vec<SqlValue>>, inc_lo: bool, inc_hi: bool) -> Vec<usize> {
    let mut out = Vec::new();
    for (k, rows) in model {
        if let Some(l) = lo {
            if lt(k, l) || (same(k, l) && !inc_lo) {
                continue;
            }
        }
        if let Some(h) = hi {
            if lt(h, k) || (same(k, h) && !inc_hi) {
                continue;
            }
        }
        out.extend(rows.iter().copied());
    }
    out
}

#[derive(Default)]
struct Events {
    split: u32,
    merge: u32,
    borrow: u32,
    collapse: u32,
}

fn op_name(op: &Op) -> &'static str {
    match op {
        Op::Insert { .. } => "insert",
        Op::InsertMany { .. } => "insert_many",
        Op::Delete { .. } => "delete",
        Op::DeleteSpecific { .. } => "delete_specific",
        Op::Lookup { .. } => "lookup",
        Op::MultiLookup { .. } => "multi_lookup",
        Op::Range { .. } => "range_scan",
        Op::Reopen => "reopen",
        Op::ReopenFresh => "reopen_fresh_pm",
        Op::Rebuild => "rebuild",
    }
}

/// Outcome of applying one op: Ok(mutated?) or a failed oracle step.
fn apply(sut: &mut Sut, model: &mut Model, case: &Case, op: &Op) -> Result<bool, Bad> {
    let overflow_or = |op: &str, e: String| -> Bad {
        if is_overflow_err(&e) {
            bad("page_overflow", format!("{} failed: {}", op, e))
        } else {
            bad(format!("{}.err", op), e)
        }
    };
    match op {
        Op::Insert { k, r } => {
            let key = to_key(k);
            match catch(|| sut.idx_mut().insert(key.clone(), *r)) {
                Err(p) => Err(bad(format!("insert.panic.{}", panic_class(&p)), p)),
                Ok(Err(e)) => Err(overflow_or("insert", e.to_string())),
                Ok(Ok(())) => {
                    model.entry(key).or_default().push(*r);
                    Ok(true)
                }
            }
        }
        Op::InsertMany { k, r0, n } => {
            let key = to_key(k);
            for r in *r0..*r0 + *n as usize {
                match catch(|| sut.idx_mut().insert(key.clone(), r)) {
                    Err(p) => return Err(bad(format!("insert.panic.{}", panic_class(&p)), p)),
                    Ok(Err(e)) => {
                        let have = model.get(&key).map(|v| v.len()).unwrap_or(0);
                        return Err(overflow_or("insert", format!("{} (key {} already has {} row ids)", e, show_key(&key), have)));
                    }
                    Ok(Ok(())) => model.entry(key.clone()).or_default().push(r),
                }
            }
            Ok(true)
        }
        Op::Delete { k } => {
            let key = to_key(k);
            let want = model.remove(&key).is_some();
            match catch(|| sut.idx_mut().delete(&key)) {
                Err(p) => Err(bad(format!("delete.panic.{}", panic_class(&p)), p)),
                Ok(Err(e)) => Err(overflow_or("delete", e.to_string())),
                Ok(Ok(got)) => {
                    if got != want {
                        return Err(bad("delete.retval", format!("delete({}) returned {} but the key was {} in the map", show_key(&key), got, if want { "present" } else { "absent" })));
                    }
                    Ok(true)
                }
            }
        }
        Op::DeleteSpecific { k, r } => {
            let key = to_key(k);
            let mut want = false;
            if let Some(rows) = model.get_mut(&key) {
                if let Some(p) = rows.iter().position(|x| x == r) {
                    rows.remove(p);
                    want = true;
                    if rows.is_empty() {
                        model.remove(&key);
                    }
                }
            }
            match catch(|| sut.idx_mut().delete_specific(&key, *r)) {
                // same rebalancing code as delete(): one signature family
                Err(p) => Err(bad(format!("delete.panic.{}", panic_class(&p)), format!("delete_specific: {}", p))),
                Ok(Err(e)) => Err(overflow_or("delete_specific", e.to_string())),
                Ok(Ok(got)) => {
                    if got != want {
                        return Err(bad("delete_specific.retval", format!("delete_specific({}, {}) returned {} but the pair was {} in the map", show_key(&key), r, got, if want { "present" } else { "absent" })));
                    }
                    Ok(true)
                }
            }
        }
        Op::Lookup { k } => {
            let key = to_key(k);
            match catch(|| sut.idx().lookup(&key)) {
                Err(p) => Err(bad(format!("lookup.panic.{}", panic_class(&p)), p)),
                Ok(Err(e)) => Err(bad("lookup.err", e.to_string())),
                Ok(Ok(got)) => {
                    let want = model.get(&key).cloned().unwrap_or_default();
                    match cmp_rows("lookup", &got, &want, &format!("lookup({})", show_key(&key))) {
                        Some(b) => Err(b),
                        None => Ok(false),
                    }
                }
            }
        }
        Op::MultiLookup { ks } => {
            let keys: Vec<Vec<SqlValue>> = ks.iter().map(to_key).collect();
            match catch(|| sut.idx().multi_lookup(&keys)) {
                Err(p) => Err(bad(format!("multi_lookup.panic.{}", panic_class(&p)), p)),
                Ok(Err(e)) => Err(bad("multi_lookup.err", e.to_string())),
                Ok(Ok(got)) => {
                    let mut want = Vec::new();
                    for k in &keys {
                        want.extend(model.get(k).cloned().unwrap_or_default());
                    }
                    match cmp_rows("multi_lookup", &got, &want, &format!("multi_lookup({})", keys.iter().map(|k| show_key(k)).collect::<Vec<_>>().join(","))) {
                        Some(b) => Err(b),
                        None => Ok(false),
                    }
                }
            }
        }
        Op::Range { lo, hi, inc_lo, inc_hi } => {
            let lo = lo.as_ref().map(to_key);
            let hi = hi.as_ref().map(to_key);
            match catch(|| sut.idx().range_scan(lo.as_ref(), hi.as_ref(), *inc_lo, *inc_hi)) {
                Err(p) => Err(bad(format!("range_scan.panic.{}", panic_class(&p)), p)),
                Ok(Err(e)) => Err(bad("range_scan.err", e.to_string())),
                Ok(Ok(got)) => {
                    let want = model_range(model, lo.as_ref(), hi.as_ref(), *inc_lo, *inc_hi);
                    let what = format!(
                        "range_scan {}{} , {}{}",
                        if *inc_lo { "[" } else { "(" },
                        lo.as_ref().map(|k| show_key(k)).unwrap_or("-inf".into()),
                        hi.as_ref().map(|k| show_key(k)).unwrap_or("+inf".into()),
                        if *inc_hi { "]" } else { ")" }
                    );
                    let bounds = match (lo.is_some(), hi.is_some()) {
                        (true, true) => "bounded",
                        (true, false) => "from",
                        (false, true) => "upto",
                        (false, false) => "full",
                    };
                    match cmp_rows(&format!("range_scan.{}", bounds), &got, &want, &what) {
                        Some(b) => Err(b),
                        None => Ok(false),
                    }
                }
            }
        }
        Op::Reopen => {
            let pm = sut.pm.clone().expect("page manager");
            sut.idx = None;
            match catch(|| BTreeIndex::load(pm)) {
                Err(p) => Err(bad(format!("reopen.panic.{}", panic_class(&p)), p)),
                Ok(Err(e)) => Err(bad("reopen.err", e.to_string())),
                Ok(Ok(i)) => {
                    sut.idx = Some(i);
                    Ok(true)
                }
            }
        }
        Op::ReopenFresh => {
            sut.idx = None;
            sut.pm = None;
            let storage = sut.storage.clone();
            let r = catch(|| -> Result<(Arc<PageManager>, BTreeIndex), String> {
                let pm = Arc::new(PageManager::new(FILE, storage).map_err(|e| e.to_string())?);
                let idx = BTreeIndex::load(pm.clone()).map_err(|e| e.to_string())?;
                Ok((pm, idx))
            });
            match r {
                Err(p) => Err(bad("reopen_fresh_pm.tree_lost", format!("reopening panicked: {}", p))),
                Ok(Err(e)) => Err(bad("reopen_fresh_pm.tree_lost", format!("reopening failed: {}", e))),
                Ok(Ok((pm, idx))) => {
                    sut.pm = Some(pm);
                    sut.idx = Some(idx);
                    Ok(true)
                }
            }
        }
        Op::Rebuild => {
            let pm = sut.pm.clone().expect("page manager");
            let mut es: Vec<(Vec<SqlValue>, usize)> = Vec::new();
            for (k, rows) in model.iter() {
                for r in rows {
                    es.push((k.clone(), *r));
                }
            }
            match catch(|| BTreeIndex::bulk_load(es, case.schema.key_schema(), pm)) {
                Err(p) => Err(bad(format!("bulk_load.panic.{}", panic_class(&p)), p)),
                Ok(Err(e)) => Err(overflow_or("bulk_load", e.to_string())),
                Ok(Ok(i)) => {
                    sut.idx = Some(i);
                    Ok(true)
                }
            }
        }
    }
}

fn case_has_long_keys(case: &Case) -> bool {
    let long = |k: &K| k.iter().any(|v| matches!(v, V::Varchar(s) if s.len() >= 500));
    case.bulk.as_ref().map(|b| b.iter().any(|(k, _)| long(k))).unwrap_or(false)
        || case.ops.iter().any(|op| match op {
            Op::Insert { k, .. } | Op::InsertMany { k, .. } => long(k),
            _ => false,
        })
}

impl Check for C17 {
    type Case = Case;
    fn id(&self) -> &'static str {
        "C17"
    }
    fn rule(&self) -> String {
        "case = key schema (VARCHAR(10000) => degree 5 | (INT,VARCHAR(300)) => degree 5 | INT => degree 204), numeric representation (Double as IndexManager \
         normalises, or Integer), optional bulk_load of 0-400 sorted entries (duplicates, row ids ascending per key), history of up to 600 (INT: 1500) ops in \
         segments (grow / shrink / mixed / query-heavy) around a moving key focus: insert, insert_many (rows sharing a key), runs of inserts/deletes over consecutive keys, delete, delete_specific, lookup, \
         multi_lookup, range_scan (all inclusive/exclusive/unbounded combinations, reversed and prefix bounds), reopen (load on same PageManager), reopen \
         with a fresh PageManager, rebuild (bulk_load of the current content on the same PageManager). Keys from a pool of ~60 (INT: 601) incl. NULL components, \
         composite keys, multibyte strings; row ids fresh per insert. Oracle: BTreeMap<Key, Vec<RowId>> (row ids in insertion order, as documented) after \
         every op; verif_walk well-formedness + full content equality after every mutating op. Non-trivial = the history caused >= 1 split AND >= 1 \
         merge/borrow/root collapse (from node-count / height / separator changes between walks). Distinct = hash of the serialised case."
            .into()
    }
    fn assumptions(&self) -> Vec<String> {
        vec![
            "input domain = what IndexManager does: a (key,row id) pair is inserted at most once while present, bulk_load input is sorted by key with ascending row ids, keys have the schema's arity (range bounds may be prefixes), numeric components are finite (no NaN, no -0.0)".into(),
            "single-threaded use of one BTreeIndex (callers hold a mutex)".into(),
            "no child-process isolation: every mutating op is followed by a structural walk that does not follow the leaf chain, so a corrupted chain is reported before range_scan could loop on it".into(),
            "temp files under /verif/target/tmp/c17 (override: VERIF_C17_TMP), one directory per case, removed when the case ends; the storage backend is NativeStorage wrapped so that fsync is a no-op (VERIF_C17_FSYNC=1 keeps it): durability is not part of C17".into(),
        ]
    }
    fn cases(&self, tier: Tier) -> u64 {
        match tier {
            Tier::Quick => 4_000,
            Tier::Thorough => 100_000,
        }
    }
    fn tape_len(&self, _t: Tier) -> usize {
        3000
    }
    fn floors(&self) -> Vec<(&'static str, f64)> {
        vec![("nontrivial", 0.30), ("split", 0.5), ("merge", 0.25), ("borrow", 0.2), ("root_collapse", 0.1), ("height>=3", 0.2)]
    }
    fn prepare(&self, _args: &vcore::Args) -> Result<(), String> {
        std::fs::create_dir_all(tmp_base()).map_err(|e| format!("cannot create {}: {}", tmp_base().display(), e))?;
        sweep_stale();
        Ok(())
    }
    fn max_shrink_iters(&self) -> u32 {
        // a candidate is a whole history (tens of ms); tape shrinking gains most in its first steps
        1000
    }

    fn build(&self, t: &mut Tape, cfg: &GenCfg) -> Case {
        build_case(t, cfg)
    }

    fn fixed_cases(&self, _tier: Tier) -> Vec<Case> {
        let mut v = Vec::new();
        // ladders: ascending / descending / inside-out fills, then drain in another order
        for schema in [Schema::Str(10000), Schema::IntStr, Schema::Int, Schema::Str(150), Schema::Str(128), Schema::Str(110)] {
            for num in [Num::Double, Num::Integer] {
                let p = pool(schema, num, false);
                let n = p.len();
                let orders: Vec<Vec<usize>> = vec![
                    (0..n).collect(),
                    (0..n).rev().collect(),
                    (0..n).map(|i| if i % 2 == 0 { i / 2 } else { n - 1 - i / 2 }).collect(),
                    (0..n).map(|i| (i * 7) % n).collect(),
                ];
                for (a, ins) in orders.iter().enumerate() {
                    for (b, del) in orders.iter().enumerate() {
                        if schema == Schema::Int && (a + b) % 2 == 1 {
                            continue;
                        }
                        let mut ops = Vec::new();
                        for (r, &i) in ins.iter().enumerate() {
                            ops.push(Op::Insert { k: p[i].clone(), r });
                        }
                        ops.push(Op::Range { lo: None, hi: None, inc_lo: true, inc_hi: true });
                        ops.push(Op::Reopen);
                        for (j, &i) in del.iter().enumerate() {
                            if j % 2 == 0 {
                                ops.push(Op::Delete { k: p[i].clone() });
                            } else {
                                let r = ins.iter().position(|&x| x == i).unwrap();
                                ops.push(Op::DeleteSpecific { k: p[i].clone(), r });
                            }
                            if j % 16 == 0 {
                                ops.push(Op::Range { lo: Some(p[n / 3].clone()), hi: None, inc_lo: false, inc_hi: true });
                            }
                        }
                        ops.push(Op::Range { lo: None, hi: None, inc_lo: true, inc_hi: true });
                        v.push(Case { schema, num, bulk: None, ops, excluded: 0, avoid: false });
                    }
                }
                // bulk load of the whole pool (unique keys), then drain
                let bulk: Vec<(K, usize)> = p.iter().enumerate().map(|(i, k)| (k.clone(), i)).collect();
                let mut ops = vec![Op::Range { lo: None, hi: None, inc_lo: true, inc_hi: true }, Op::Reopen];
                for i in (0..n).rev() {
                    ops.push(Op::Delete { k: p[i].clone() });
                }
                v.push(Case { schema, num, bulk: Some(bulk), ops, excluded: 0, avoid: false });
            }
        }
        // many rows sharing one key (non-unique index): 600 row ids under one key
        v.push(Case { schema: Schema::Str(10000), num: Num::Double, bulk: None, ops: vec![Op::InsertMany { k: vec![V::Varchar("a".into())], r0: 0, n: 600 }], excluded: 0, avoid: false });
        // INT index where every value occurs twice: bulk_load of 2 x 160 rows
        {
            let mut bulk = Vec::new();
            for i in 0..160usize {
                bulk.push((vec![V::dbl(i as f64)], 2 * i));
                bulk.push((vec![V::dbl(i as f64)], 2 * i + 1));
            }
            v.push(Case { schema: Schema::Int, num: Num::Double, bulk: Some(bulk), ops: vec![Op::Range { lo: None, hi: None, inc_lo: true, inc_hi: true }], excluded: 0, avoid: false });
        }
        // four 1100-byte strings in a VARCHAR(10000) index
        {
            let p = pool(Schema::Str(10000), Num::Double, true);
            let longs: Vec<&K> = p.iter().filter(|k| matches!(&k[0], V::Varchar(s) if s.len() >= 500)).collect();
            let ops = longs.iter().take(4).enumerate().map(|(r, k)| Op::Insert { k: (*k).clone(), r }).collect();
            v.push(Case { schema: Schema::Str(10000), num: Num::Double, bulk: None, ops, excluded: 0, avoid: false });
        }
        // reopen through a fresh PageManager
        v.push(Case { schema: Schema::Str(10000), num: Num::Double, bulk: None, ops: vec![Op::Insert { k: vec![V::Varchar("a".into())], r: 0 }, Op::ReopenFresh, Op::Lookup { k: vec![V::Varchar("a".into())] }], excluded: 0, avoid: false });
        v
    }

    fn render(&self, c: &Case) -> String {
        let show = |k: &K| show_key(&to_key(k));
        let mut s = format!("schema={} num={:?}\n", c.schema.name(), c.num);
        if let Some(b) = &c.bulk {
            s.push_str(&format!("bulk_load {} entries: {}\n", b.len(), b.iter().take(60).map(|(k, r)| format!("{}->{}", show(k), r)).collect::<Vec<_>>().join(" ")));
        } else {
            s.push_str("BTreeIndex::new\n");
        }
        for (i, op) in c.ops.iter().enumerate() {
            let line = match op {
                Op::Insert { k, r } => format!("insert({}, {})", show(k), r),
                Op::InsertMany { k, r0, n } => format!("insert({}, r) for r in {}..{}", show(k), r0, r0 + *n as usize),
                Op::Delete { k } => format!("delete({})", show(k)),
                Op::DeleteSpecific { k, r } => format!("delete_specific({}, {})", show(k), r),
                Op::Lookup { k } => format!("lookup({})", show(k)),
                Op::MultiLookup { ks } => format!("multi_lookup({})", ks.iter().map(|k| show(k)).collect::<Vec<_>>().join(",")),
                Op::Range { lo, hi, inc_lo, inc_hi } => format!(
                    "range_scan {}{} , {}{}",
                    if *inc_lo { "[" } else { "(" },
                    lo.as_ref().map(|k| show(k)).unwrap_or("-inf".into()),
                    hi.as_ref().map(|k| show(k)).unwrap_or("+inf".into()),
                    if *inc_hi { "]" } else { ")" }
                ),
                Op::Reopen => "reopen (BTreeIndex::load, same PageManager)".into(),
                Op::ReopenFresh => "reopen (fresh PageManager over the same file)".into(),
                Op::Rebuild => "rebuild (bulk_load of current content, same PageManager)".into(),
            };
            s.push_str(&format!("{:4}: {}\n", i, line));
        }
        s
    }

    fn run(&self, case: &Case, obs: &mut Obs) -> Verdict {
        let case_hash = vcore::runner::stable_hash(&serde_json::to_string(case).unwrap_or_default()) | 1;
        let latched = RUNAWAY_CASE.load(AtomicOrdering::Relaxed);
        if latched != 0 && latched != case_hash {
            obs.class("skipped_after_runaway_walk");
            return Verdict::Pass;
        }
        obs.excluded = case.excluded as u64;
        obs.class(&format!("schema:{}", case.schema.name()));
        obs.class(if case.bulk.is_some() { "start:bulk_load" } else { "start:empty" });
        let long_keys = case_has_long_keys(case);
        if long_keys {
            obs.class("long_keys");
        }
        // signature of a failed step; page overflow is split by the case's trigger feature
        let finish = |obs: &mut Obs, ev: &Events, (sig, detail): Bad, at: String| -> Verdict {
            let sig = if sig == "page_overflow" {
                if long_keys {
                    SIG_OVF_LONG.to_string()
                } else {
                    SIG_OVF_DUP.to_string()
                }
            } else {
                sig
            };
            obs.nontrivial = ev.split > 0 && (ev.merge + ev.borrow + ev.collapse) > 0;
            if sig.starts_with("wf.runaway_walk") {
                let _ = RUNAWAY_CASE.compare_exchange(0, case_hash, AtomicOrdering::Relaxed, AtomicOrdering::Relaxed);
            }
            if sig.starts_with("harness.") {
                return Verdict::Harness(format!("{}: {} ({})", sig, detail, at));
            }
            if vcore::kf::is_open_global(&sig) {
                if case.avoid {
                    // measures how well the generator's avoidance works (should stay near zero)
                    obs.class(&format!("avoid_leak:{}", sig));
                    if std::env::var("VERIF_C17_LEAK_FAIL").is_ok() {
                        // dev aid: make the leak visible as a failure so that it gets shrunk and printed
                        return Verdict::fail(format!("dev.avoid_leak.{}", sig), format!("{}\n{}", at, detail));
                    }
                }
                // the history cannot go on meaningfully past this defect
                obs.known_hits.push(sig);
                return Verdict::Pass;
            }
            Verdict::fail(sig, format!("{}\n{}", at, detail))
        };
        // dev aid (never set in normal runs): ignore structural findings and keep comparing answers,
        // to see the user-visible consequences of a malformed tree
        let skip_wf = std::env::var("VERIF_C17_SKIP_WF").is_ok();
        let mut ev = Events::default();
        let (mut sut, mut model) = match Sut::create(case) {
            Ok(x) => x,
            Err(b) => return finish(obs, &ev, b, "at creation".into()),
        };
        if sut.idx().degree() != degree_of(case.schema) {
            return Verdict::Harness(format!("harness.degree_model: tree degree {} but the generator assumes {} for {}", sut.idx().degree(), degree_of(case.schema), case.schema.name()));
        }
        obs.class(&format!("degree:{}", sut.idx().degree()));
        let mut shape = match check_tree(sut.idx(), sut.pm.as_ref().expect("page manager"), &model) {
            Ok(s) => s,
            Err((s, _)) if skip_wf && !s.starts_with("harness.") => Shape { height: sut.idx().height(), leaves: 0, internals: 0, seps: vec![] },
            Err((s, d)) => return finish(obs, &ev, (format!("{}.after_{}", s, if case.bulk.is_some() { "bulk_load" } else { "new" }), d), "after creation".into()),
        };
        let mut max_height = shape.height;
        let mut max_rows_per_key = model.values().map(|v| v.len()).max().unwrap_or(0);
        for (i, op) in case.ops.iter().enumerate() {
            obs.sub_evals += 1;
            let name = op_name(op);
            obs.class(&format!("op:{}", name));
            let at = format!("at op #{} {}", i, name);
            let mutated = match apply(&mut sut, &mut model, case, op) {
                Ok(m) => m,
                Err(b) => {
                    if b.0 == "page_overflow" {
                        obs.class(&format!("page_overflow:{}:{}", case.schema.name(), name));
                        // informational: did the failed write leave the tree intact (minus the new entry)?
                        if let Some(idx) = sut.idx.as_ref() {
                            obs.class(if check_tree(idx, sut.pm.as_ref().expect("page manager"), &model).is_ok() { "overflow_err.tree_intact" } else { "overflow_err.tree_damaged" });
                        }
                    }
                    return finish(obs, &ev, b, at);
                }
            };
            if !mutated {
                continue;
            }
            let new_shape = match check_tree(sut.idx(), sut.pm.as_ref().expect("page manager"), &model) {
                Ok(s) => s,
                Err((s, _)) if skip_wf && !s.starts_with("harness.") => continue,
                Err((s, d)) => {
                    // trigger = the op and the structural event it caused
                    let sig = match op {
                        Op::ReopenFresh => SIG_REOPEN_FRESH.to_string(),
                        // rebuild_indexes is a bulk_load of the current rows
                        Op::Rebuild => format!("{}.after_bulk_load", s),
                        _ => format!("{}.after_{}", s, name),
                    };
                    return finish(obs, &ev, (sig, d), at);
                }
            };
            // structural events
            let nodes_before = shape.leaves + shape.internals;
            let nodes_after = new_shape.leaves + new_shape.internals;
            if !matches!(op, Op::Rebuild | Op::Reopen | Op::ReopenFresh) {
                if nodes_after > nodes_before {
                    ev.split += 1;
                    obs.class("split");
                    if new_shape.internals > shape.internals + (new_shape.height > shape.height) as usize {
                        obs.class("internal_split");
                    }
                    if new_shape.height > shape.height {
                        obs.class("root_split");
                    }
                }
                if nodes_after < nodes_before {
                    if new_shape.leaves < shape.leaves {
                        ev.merge += 1;
                        obs.class("merge");
                    }
                    if shape.internals > new_shape.internals + (new_shape.height < shape.height) as usize {
                        obs.class("internal_merge");
                    }
                }
                if new_shape.height < shape.height {
                    ev.collapse += 1;
                    obs.class("root_collapse");
                }
                if nodes_after == nodes_before && new_shape.seps != shape.seps {
                    ev.borrow += 1;
                    obs.class("borrow");
                } else if nodes_after < nodes_before && new_shape.leaves == shape.leaves - 1 && new_shape.internals == shape.internals && new_shape.height >= 3 {
                    // leaf merge whose parent then borrowed from a sibling internal node cannot be told
                    // apart from a plain merge by counts alone; not counted
                }
            }
            max_height = max_height.max(new_shape.height);
            shape = new_shape;
            max_rows_per_key = max_rows_per_key.max(model.values().map(|v| v.len()).max().unwrap_or(0));
        }
        if max_height >= 3 {
            obs.class("height>=3");
        }
        if max_height >= 4 {
            obs.class("height>=4");
        }
        if max_rows_per_key >= 2 {
            obs.class("duplicate_keys");
        }
        if max_rows_per_key >= 100 {
            obs.class("hot_key>=100_rows");
        }
        obs.nontrivial = ev.split > 0 && (ev.merge + ev.borrow + ev.collapse) > 0;
        if obs.nontrivial {
            obs.class("nontrivial");
            obs.class(&format!("nontrivial:degree{}", degree_of(case.schema)));
        }
        Verdict::Pass
    }
}
