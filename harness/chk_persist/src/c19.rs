//! C19 — the SQL dump written by `save_sql_dump` is loaded back by `vibesql_executor::load_sql_dump`
//! with the same tables, columns and rows.

use crate::c18::{label, opts_from_known, roundtrip, RtSpec};
use crate::cmp::{self, Fmt};
use crate::gen::{self, build_db, gen_db, DbSpec};
use serde::{Deserialize, Serialize};
use vcore::{Check, GenCfg, Obs, Tape, Tier, Verdict};

pub struct C19;

#[derive(Clone, Debug, Serialize, Deserialize)]
pub struct Case {
    pub db: DbSpec,
    #[serde(default)]
    pub excluded: u64,
}

impl Check for C19 {
    type Case = Case;
    fn id(&self) -> &'static str {
        "C19"
    }
    fn rule(&self) -> String {
        "databases from the C18 generator (1-3 tables over the 12 core column types, 1 column in 8 of an extended type, optional indexes, history of SQL INSERT / insert_row / UPDATE / DELETE) with the string generator \
         biased to the dump's metacharacters: quote, doubled quote, double quote, backslash (also trailing and before a quote), semicolon, '--' (also at the start of a line), newline, CR LF, blank lines, tab, NULL, Unicode. \
         Oracle: Database::save_sql_dump (the CLI's \\save and the Python binding's save) then vibesql_executor::load_sql_dump (what the CLI and the Python binding call to open a database file) must succeed and give the \
         same table names, columns (name, type, nullability) and row multisets, bit-exact. Index definitions are not compared (C19 states tables, columns, rows), but the dump's CREATE INDEX statements must load. \
         A failure is attributed to the smallest trigger by re-running the round trip on one-column tables (empty, then one value). \
         Non-trivial = the dump was written and loaded and the database holds >= 1 negative or extreme number, special float or string with a metacharacter. Distinct = hash of the case."
            .into()
    }
    fn assumptions(&self) -> Vec<String> {
        vec![
            "the original database is the reference; constraints, defaults, views, triggers, roles and non-default schemas are outside the compared state".into(),
            "a history that panics inside the engine discards the case (class discard:history_panic)".into(),
            "temp files: one directory per case under /verif/target/tmp/c19 (override VERIF_PERSIST_TMP), removed when the case ends".into(),
        ]
    }
    fn cases(&self, tier: Tier) -> u64 {
        match tier {
            Tier::Quick => 40_000,
            Tier::Thorough => 1_000_000,
        }
    }
    fn tape_len(&self, _t: Tier) -> usize {
        1500
    }
    fn prepare(&self, _args: &vcore::Args) -> Result<(), String> {
        std::fs::create_dir_all(cmp::tmp_base("c19")).map_err(|e| e.to_string())?;
        cmp::sweep_stale("c19");
        Ok(())
    }
    fn build(&self, t: &mut Tape, cfg: &GenCfg) -> Case {
        let (mut o, _) = opts_from_known(cfg, "c19", "sql");
        o.max_tables = 3;
        o.max_rows = if cfg.tier == Tier::Thorough { 16 } else { 8 };
        o.max_ops = 6;
        o.ext_types = true;
        o.nasty_strings = true;
        // SQL reads DECIMAL(p,s) as NUMERIC(p,s): a DataType::Decimal column (table API only)
        // cannot come back from a dump as itself, and the property does not ask for that
        o.no_type.insert("decimal".to_string());
        let (db, excluded) = gen_db(t, &o);
        Case { db, excluded }
    }
    fn render(&self, c: &Case) -> String {
        gen::render(&c.db)
    }
    fn run(&self, case: &Case, obs: &mut Obs) -> Verdict {
        obs.excluded += case.excluded;
        let built = match build_db(&case.db) {
            Ok(b) => b,
            Err(_) => {
                obs.class("discard:history_panic");
                return Verdict::Pass;
            }
        };
        let (_, _, hazard) = label(&built.db, &case.db, &built, obs);
        let rs = RtSpec { prop: "c19", fmt: Fmt::Sql, auto: false, check_indexes: false, probes: false };
        let v = roundtrip(&built.db, &built.log, &rs, obs);
        if matches!(v, Verdict::Pass) && !obs.classes.iter().any(|c| c.starts_with("writer_refused")) {
            obs.nontrivial = hazard;
        }
        v
    }
}
