//! C20 — loading damaged database files fails cleanly (fault enumeration + grammar-guided and
//! arbitrary content), in a child process with a counting allocator and a watchdog.

use crate::cmp::{self, Fmt, TmpDir};
use crate::gen::{self, build_db, gen_db, DbSpec, GenOpts};
use crate::{alloc, guard};
use serde::{Deserialize, Serialize};
use std::ops::Range;
use vcore::runner::{catch, panic_sig, truncate};
use vcore::{Check, GenCfg, Obs, Tape, Tier, Verdict};
use vibesql_storage::Database;

pub struct C20;

pub const MAX_BASE: usize = 64 << 10;
pub const MAX_LOADS_PER_CASE: usize = 2000;
pub const SPLATS: [u32; 5] = [0, 1, 0x7fff_ffff, 0x8000_0000, 0xffff_ffff];

// ---------------------------------------------------------------------------------------------
// case description

#[derive(Clone, Debug, Serialize, Deserialize)]
pub enum Tok {
    Header { magic_ok: bool, version: u8 },
    U8(u8),
    U32(u32),
    U64(u64),
    /// length-prefixed string; `len` overrides the written length prefix
    Str { s: String, len: Option<u32> },
    /// `n` copies of `byte`
    Fill { byte: u8, n: u32 },
    Raw(Vec<u8>),
}

#[derive(Clone, Debug, Serialize, Deserialize)]
pub enum Source {
    /// file written by the engine's writer from a generated database (canonical order)
    Valid(DbSpec),
    /// grammar-guided binary stream with free counts, lengths, tags and type names
    CraftedBin(Vec<Tok>),
    /// crafted or arbitrary text (JSON document / SQL script)
    Text(String),
    Bytes(Vec<u8>),
}

#[derive(Clone, Debug, Serialize, Deserialize)]
pub enum Mut {
    /// keep the first n bytes
    Trunc(u32),
    Flip { off: u32, bit: u8 },
    /// little-endian 32-bit write
    Splat { off: u32, val: u32 },
    Set { off: u32, val: u8 },
    /// duplicate the block [off, off+len) in place
    Dup { off: u32, len: u32 },
    Del { off: u32, len: u32 },
    Ins { off: u32, bytes: Vec<u8> },
}

#[derive(Clone, Debug, Serialize, Deserialize)]
pub enum Plan {
    /// the content as it is
    AsIs,
    /// each stack of mutations is applied to the base separately
    Stacks(Vec<Vec<Mut>>),
    /// every truncation point phase, phase+stride, ... below the length (stride 1 = exhaustive)
    TruncEvery { stride: u32, phase: u32 },
    /// all 8 single-bit flips at every offset of [from, to)
    FlipEvery { from: u32, to: u32 },
    /// the five 32-bit splats at every offset of [from, to)
    SplatEvery { from: u32, to: u32 },
    /// single-bit flips and splats at every count / length prefix / tag the format walker locates
    /// (binary streams only; otherwise nothing)
    Located,
}

#[derive(Clone, Debug, Serialize, Deserialize)]
pub struct Case {
    pub fmt: Fmt,
    pub src: Source,
    pub plan: Plan,
    /// load through `Database::load` with an extension-less file name (detection by content)
    #[serde(default)]
    pub auto: bool,
    /// compressed only: mutate the binary stream and compress it afterwards (the reader behind
    /// zstd sees the damage) instead of damaging the compressed bytes
    #[serde(default)]
    pub inner: bool,
    /// the generator was kept away from the trigger of an open finding that ends the child
    #[serde(default)]
    pub excluded: u64,
}

// ---------------------------------------------------------------------------------------------
// binary format walker

#[derive(Clone, Copy, Debug, PartialEq, Eq)]
pub enum FieldKind {
    Count32,
    StrLen,
    RowCount64,
    Tag,
    Flag,
}

#[derive(Clone, Debug, Default)]
pub struct Walk {
    pub fields: Vec<(usize, FieldKind)>,
    /// [start of table entries, each entry, ...]
    pub table_entries: Vec<(String, Range<usize>)>,
    pub index_entries: Vec<(String, Range<usize>)>,
    pub data_blocks: Vec<(String, Range<usize>)>,
    pub tables_start: usize,
    pub indexes_count_at: usize,
    pub indexes_start: usize,
    pub triggers_at: usize,
    pub data_start: usize,
}

struct Rd<'a> {
    b: &'a [u8],
    p: usize,
    fields: Vec<(usize, FieldKind)>,
}
impl<'a> Rd<'a> {
    fn need(&self, n: usize) -> Result<(), String> {
        if self.p + n > self.b.len() {
            Err(format!("walker: unexpected end at {}", self.p))
        } else {
            Ok(())
        }
    }
    fn u8(&mut self, k: FieldKind) -> Result<u8, String> {
        self.need(1)?;
        self.fields.push((self.p, k));
        let v = self.b[self.p];
        self.p += 1;
        Ok(v)
    }
    fn u32(&mut self, k: FieldKind) -> Result<u32, String> {
        self.need(4)?;
        self.fields.push((self.p, k));
        let v = u32::from_le_bytes(self.b[self.p..self.p + 4].try_into().unwrap());
        self.p += 4;
        Ok(v)
    }
    fn u64(&mut self) -> Result<u64, String> {
        self.need(8)?;
        self.fields.push((self.p, FieldKind::RowCount64));
        let v = u64::from_le_bytes(self.b[self.p..self.p + 8].try_into().unwrap());
        self.p += 8;
        Ok(v)
    }
    fn skip(&mut self, n: usize) -> Result<(), String> {
        self.need(n)?;
        self.p += n;
        Ok(())
    }
    fn string(&mut self) -> Result<String, String> {
        let n = self.u32(FieldKind::StrLen)? as usize;
        self.need(n)?;
        let s = String::from_utf8_lossy(&self.b[self.p..self.p + n]).to_string();
        self.p += n;
        Ok(s)
    }
}

/// Walk a *valid* binary stream (header, catalog, data). Triggers are not walked (the generated
/// databases have none): a non-zero trigger count is an error.
pub fn walk_binary(b: &[u8]) -> Result<Walk, String> {
    let mut r = Rd { b, p: 0, fields: Vec::new() };
    r.skip(16)?;
    let mut w = Walk::default();
    for _ in 0..2 {
        let n = r.u32(FieldKind::Count32)?;
        for _ in 0..n {
            r.string()?;
        }
    }
    let nt = r.u32(FieldKind::Count32)?;
    w.tables_start = r.p;
    let mut ncols: Vec<(String, usize)> = Vec::new();
    for _ in 0..nt {
        let st = r.p;
        let name = r.string()?;
        let nc = r.u32(FieldKind::Count32)?;
        for _ in 0..nc {
            r.string()?;
            r.string()?;
            r.u8(FieldKind::Flag)?;
        }
        ncols.push((name.clone(), nc as usize));
        w.table_entries.push((name, st..r.p));
    }
    w.indexes_count_at = r.p;
    let ni = r.u32(FieldKind::Count32)?;
    w.indexes_start = r.p;
    for _ in 0..ni {
        let st = r.p;
        let name = r.string()?;
        r.string()?;
        r.u8(FieldKind::Flag)?;
        let nc = r.u32(FieldKind::Count32)?;
        for _ in 0..nc {
            r.string()?;
            r.u8(FieldKind::Flag)?;
        }
        w.index_entries.push((name, st..r.p));
    }
    w.triggers_at = r.p;
    let ntr = r.u32(FieldKind::Count32)?;
    if ntr != 0 {
        return Err("walker: triggers are not supported".into());
    }
    w.data_start = r.p;
    for _ in 0..nt {
        let st = r.p;
        let name = r.string()?;
        let rows = r.u64()?;
        let nc = ncols.iter().find(|(n, _)| *n == name).map(|x| x.1).ok_or("walker: data block of an unknown table")?;
        for _ in 0..rows {
            for _ in 0..nc {
                let tag = r.u8(FieldKind::Tag)?;
                match tag {
                    0x00 => {}
                    0x01 => r.skip(2)?,
                    0x02 | 0x03 | 0x04 | 0x05 | 0x08 => r.skip(8)?,
                    0x06 | 0x07 => r.skip(4)?,
                    0x10 | 0x11 | 0x30 | 0x31 | 0x32 | 0x33 => {
                        r.string()?;
                    }
                    0x20 => r.skip(1)?,
                    t => return Err(format!("walker: unknown tag {:#x}", t)),
                }
            }
        }
        w.data_blocks.push((name, st..r.p));
    }
    if r.p != b.len() {
        return Err(format!("walker: {} trailing bytes", b.len() - r.p));
    }
    w.fields = r.fields;
    Ok(w)
}

/// Tables, indexes and data blocks in name order (the writer emits them in HashMap order).
fn canonical_binary(b: &[u8]) -> Result<Vec<u8>, String> {
    let w = walk_binary(b)?;
    let mut out = Vec::with_capacity(b.len());
    out.extend_from_slice(&b[..w.tables_start]);
    let mut t = w.table_entries.clone();
    t.sort_by(|a, b| a.0.cmp(&b.0));
    for (_, r) in &t {
        out.extend_from_slice(&b[r.clone()]);
    }
    out.extend_from_slice(&b[w.indexes_count_at..w.indexes_start]);
    let mut ix = w.index_entries.clone();
    ix.sort_by(|a, b| a.0.cmp(&b.0));
    for (_, r) in &ix {
        out.extend_from_slice(&b[r.clone()]);
    }
    out.extend_from_slice(&b[w.triggers_at..w.data_start]);
    let mut d = w.data_blocks.clone();
    d.sort_by(|a, b| a.0.cmp(&b.0));
    for (_, r) in &d {
        out.extend_from_slice(&b[r.clone()]);
    }
    if out.len() != b.len() {
        return Err("canonical_binary: length changed".into());
    }
    Ok(out)
}

fn sort_json(v: &serde_json::Value) -> serde_json::Value {
    use serde_json::Value;
    match v {
        Value::Object(m) => {
            let mut keys: Vec<&String> = m.keys().collect();
            keys.sort();
            let mut o = serde_json::Map::new();
            for k in keys {
                o.insert(k.clone(), sort_json(&m[k]));
            }
            Value::Object(o)
        }
        Value::Array(a) => Value::Array(a.iter().map(sort_json).collect()),
        other => other.clone(),
    }
}

/// Fixed timestamp, tables and indexes in name order, row objects with sorted keys.
fn canonical_json(b: &[u8]) -> Result<Vec<u8>, String> {
    use serde_json::Value;
    let mut v: Value = serde_json::from_slice(b).map_err(|e| format!("canonical_json: {}", e))?;
    if let Some(ts) = v.get_mut("vibesql").and_then(|m| m.get_mut("timestamp")) {
        *ts = Value::from(0);
    }
    for key in ["tables", "indexes"] {
        if let Some(Value::Array(a)) = v.get_mut(key) {
            a.sort_by(|x, y| x.get("name").and_then(|n| n.as_str()).unwrap_or("").cmp(y.get("name").and_then(|n| n.as_str()).unwrap_or("")));
        }
    }
    let v = sort_json(&v);
    serde_json::to_vec_pretty(&v).map_err(|e| e.to_string())
}

/// Fixed "Generated" line, table blocks and index lines in name order.
fn canonical_sql(b: &[u8]) -> Result<Vec<u8>, String> {
    let s = String::from_utf8(b.to_vec()).map_err(|e| format!("canonical_sql: {}", e))?;
    let marker_t = "-- Tables and Data\n";
    let marker_i = "\n-- Indexes\n";
    let pt = s.find(marker_t).ok_or("canonical_sql: no tables marker")? + marker_t.len();
    let pi = s.rfind(marker_i).ok_or("canonical_sql: no indexes marker")?;
    if pi < pt {
        return Err("canonical_sql: markers out of order".into());
    }
    let mut head = s[..pt].to_string();
    if let (Some(a), Some(z)) = (head.find("-- Generated: "), head.find("\n--\n")) {
        head.replace_range(a..z, "-- Generated: 2000-01-01 00:00:00 UTC");
    }
    let body = &s[pt..pi];
    let mut starts: Vec<usize> = Vec::new();
    let mut from = 0;
    while let Some(p) = body[from..].find("CREATE TABLE ") {
        let at = from + p;
        if at == 0 || body.as_bytes()[at - 1] == b'\n' {
            starts.push(at);
        }
        from = at + 1;
    }
    let mut blocks: Vec<&str> = Vec::new();
    for (i, st) in starts.iter().enumerate() {
        let en = starts.get(i + 1).copied().unwrap_or(body.len());
        blocks.push(&body[*st..en]);
    }
    let pre = starts.first().map(|f| &body[..*f]).unwrap_or(body);
    blocks.sort();
    let tail = &s[pi + marker_i.len()..];
    let endm = "\n-- End of dump";
    let pe = tail.rfind(endm).ok_or("canonical_sql: no end marker")?;
    let mut lines: Vec<&str> = tail[..pe].lines().filter(|l| !l.is_empty()).collect();
    lines.sort();
    let mut out = head;
    out.push_str(pre);
    for b in blocks {
        out.push_str(b);
    }
    out.push_str(marker_i);
    for l in lines {
        out.push_str(l);
        out.push('\n');
    }
    out.push_str(&tail[pe..]);
    Ok(out.into_bytes())
}

// ---------------------------------------------------------------------------------------------
// content builders

pub fn tok_bytes(toks: &[Tok]) -> Vec<u8> {
    let mut out = Vec::new();
    for t in toks {
        match t {
            Tok::Header { magic_ok, version } => {
                out.extend_from_slice(if *magic_ok { b"VBSQL" } else { b"VBSQX" });
                out.push(*version);
                out.extend_from_slice(&[0; 10]);
            }
            Tok::U8(v) => out.push(*v),
            Tok::U32(v) => out.extend_from_slice(&v.to_le_bytes()),
            Tok::U64(v) => out.extend_from_slice(&v.to_le_bytes()),
            Tok::Str { s, len } => {
                out.extend_from_slice(&len.unwrap_or(s.len() as u32).to_le_bytes());
                out.extend_from_slice(s.as_bytes());
            }
            Tok::Fill { byte, n } => out.extend(std::iter::repeat(*byte).take((*n as usize).min(MAX_BASE))),
            Tok::Raw(b) => out.extend_from_slice(b),
        }
    }
    out
}

fn apply(m: &Mut, b: &mut Vec<u8>) {
    let len = b.len();
    match m {
        Mut::Trunc(n) => b.truncate((*n as usize) % (len + 1)),
        Mut::Flip { off, bit } => {
            if len > 0 {
                b[*off as usize % len] ^= 1 << (bit % 8);
            }
        }
        Mut::Splat { off, val } => {
            if len > 0 {
                let o = *off as usize % len;
                for (i, x) in val.to_le_bytes().iter().enumerate() {
                    if o + i < len {
                        b[o + i] = *x;
                    }
                }
            }
        }
        Mut::Set { off, val } => {
            if len > 0 {
                b[*off as usize % len] = *val;
            }
        }
        Mut::Dup { off, len: l } => {
            if len > 0 {
                let o = *off as usize % len;
                let e = (o + *l as usize).min(len);
                if b.len() + (e - o) <= 2 * MAX_BASE {
                    let blk = b[o..e].to_vec();
                    b.splice(e..e, blk);
                }
            }
        }
        Mut::Del { off, len: l } => {
            if len > 0 {
                let o = *off as usize % len;
                let e = (o + *l as usize).min(len);
                b.drain(o..e);
            }
        }
        Mut::Ins { off, bytes } => {
            let o = *off as usize % (len + 1);
            b.splice(o..o, bytes.iter().copied());
        }
    }
}

fn show_mut(m: &Mut, len: usize) -> String {
    match m {
        Mut::Trunc(n) => format!("truncate to {} bytes", (*n as usize) % (len + 1)),
        Mut::Flip { off, bit } => format!("flip bit {} of byte {}", bit % 8, if len > 0 { *off as usize % len } else { 0 }),
        Mut::Splat { off, val } => format!("write u32 {:#x} at {}", val, if len > 0 { *off as usize % len } else { 0 }),
        Mut::Set { off, val } => format!("set byte {} to {:#x}", if len > 0 { *off as usize % len } else { 0 }, val),
        Mut::Dup { off, len: l } => format!("duplicate {} bytes at {}", l, if len > 0 { *off as usize % len } else { 0 }),
        Mut::Del { off, len: l } => format!("remove {} bytes at {}", l, if len > 0 { *off as usize % len } else { 0 }),
        Mut::Ins { off, bytes } => format!("insert {} bytes at {}", bytes.len(), *off as usize % (len + 1)),
    }
}

fn header_ok(fmt: Fmt, inner: bool, b: &[u8]) -> bool {
    match fmt {
        Fmt::Binary => b.len() >= 16 && &b[..5] == b"VBSQL" && b[5] <= 1,
        Fmt::Compressed => {
            if inner {
                b.len() >= 16 && &b[..5] == b"VBSQL" && b[5] <= 1
            } else {
                b.len() > 4 && b[..4] == [0x28, 0xB5, 0x2F, 0xFD]
            }
        }
        Fmt::Json => b.iter().find(|c| !c.is_ascii_whitespace()) == Some(&b'{'),
        Fmt::Sql => !b.is_empty(),
    }
}

fn hex(b: &[u8], max: usize) -> String {
    let mut s: String = b.iter().take(max).map(|x| format!("{:02x}", x)).collect();
    if b.len() > max {
        s.push_str(&format!("…[{} bytes]", b.len()));
    }
    s
}

fn printable(b: &[u8], max: usize) -> String {
    truncate(&String::from_utf8_lossy(b), max)
}

// ---------------------------------------------------------------------------------------------
// the oracle

struct Judge<'a> {
    case: &'a Case,
    tmp: &'a TmpDir,
    code: u32,
    loads: usize,
    ok: usize,
    err: usize,
    nontrivial: bool,
    max_req_seen: usize,
    known: Vec<String>,
    file: Option<std::fs::File>,
}

impl<'a> Judge<'a> {
    /// Load one file content. Some(verdict) = stop with this failure.
    fn load(&mut self, content: &[u8], what: &str, differs: bool) -> Option<Verdict> {
        let fmt = self.case.fmt;
        // compressed + inner: the content is the binary stream; compress it now
        let file_bytes: Vec<u8> = if fmt == Fmt::Compressed && self.case.inner {
            match zstd::encode_all(content, 3) {
                Ok(c) => c,
                Err(e) => return Some(Verdict::Harness(format!("zstd encode failed: {}", e))),
            }
        } else {
            content.to_vec()
        };
        let name = if self.case.auto { "f".to_string() } else { format!("f.{}", fmt.ext()) };
        let path = self.tmp.file(&name);
        // one file per case, rewritten in place (truncating rewrites cost ~1 ms on this file system)
        {
            use std::io::{Seek, SeekFrom, Write};
            if self.file.is_none() {
                match std::fs::OpenOptions::new().write(true).create(true).truncate(false).open(&path) {
                    Ok(f) => self.file = Some(f),
                    Err(e) => return Some(Verdict::Harness(format!("cannot create {}: {}", path.display(), e))),
                }
            }
            let f = self.file.as_mut().unwrap();
            let w = f.seek(SeekFrom::Start(0)).and_then(|_| f.write_all(&file_bytes)).and_then(|_| f.set_len(file_bytes.len() as u64));
            if let Err(e) = w {
                return Some(Verdict::Harness(format!("cannot write {}: {}", path.display(), e)));
            }
        }
        let limit = (16usize << 20).max(256 * file_bytes.len());
        let auto = self.case.auto;
        if let Ok(p) = std::env::var("VERIF_C20_PROGRESS") {
            // debugging aid: the load in progress (to find the load that ends the worker)
            let _ = std::fs::write(&p, format!("{}\nfile hex: {}\n", what, hex(&file_bytes, 4096)));
        }
        alloc::reset_max();
        let t0 = std::time::Instant::now();
        guard::begin_load(self.code);
        let r = catch(|| {
            let r: Result<Database, String> = if auto {
                Database::load(&path).map_err(|e| format!("{:?}", e))
            } else {
                match fmt {
                    Fmt::Binary => Database::load_binary(&path).map_err(|e| format!("{:?}", e)),
                    Fmt::Compressed => Database::load_compressed(&path).map_err(|e| format!("{:?}", e)),
                    Fmt::Json => Database::load_json(&path).map_err(|e| format!("{:?}", e)),
                    Fmt::Sql => vibesql_executor::load_sql_dump(&path).map_err(|e| format!("{:?}", e)),
                }
            };
            r.map(|db| drop(db)).is_ok()
        });
        guard::end_load();
        let max_req = alloc::max_request();
        if t0.elapsed().as_millis() > 300 {
            if let Ok(p) = std::env::var("VERIF_C20_TIMING") {
                use std::io::Write;
                if let Ok(mut f) = std::fs::OpenOptions::new().create(true).append(true).open(p) {
                    let _ = writeln!(f, "SLOWLOAD {:.3}s fmt={} inner={} max_req={} what={} hex={}", t0.elapsed().as_secs_f64(), fmt.name(), self.case.inner, max_req, what, hex(content, 400));
                }
            }
        }
        self.loads += 1;
        self.max_req_seen = self.max_req_seen.max(max_req);
        if differs && header_ok(fmt, self.case.inner, content) {
            self.nontrivial = true;
        }
        let describe = |problem: &str| {
            format!(
                "{} loader{}: {}\ncontent: {}\nfile: {} bytes{}\nhex: {}\ntext: {}",
                fmt.name(),
                if auto { " through Database::load (extension-less file)" } else { "" },
                problem,
                what,
                file_bytes.len(),
                if fmt == Fmt::Compressed && self.case.inner { format!(" (zstd of a {}-byte binary stream; hex/text show the stream)", content.len()) } else { String::new() },
                hex(content, 768),
                printable(content, 600).replace('\n', "\\n")
            )
        };
        let fail = |sig: String, detail: String, known: &mut Vec<String>| -> Option<Verdict> {
            if vcore::kf::is_open_global(&sig) {
                if !known.contains(&sig) {
                    known.push(sig);
                }
                None
            } else {
                Some(Verdict::fail(sig, detail))
            }
        };
        match r {
            Ok(true) => self.ok += 1,
            Ok(false) => self.err += 1,
            Err(p) => {
                let sig = format!("c20.{}", stable_panic_sig(&p));
                if let Some(v) = fail(sig, describe(&format!("panicked: {}", p)), &mut self.known) {
                    return Some(v);
                }
            }
        }
        if max_req > limit {
            // where does the size come from? a length prefix / count read from the input shows up
            // verbatim (little endian) in the stream the reader parsed
            let stream: Vec<u8> = if fmt == Fmt::Compressed && !self.case.inner { zstd::decode_all(content).unwrap_or_default() } else { content.to_vec() };
            let has = |needle: &[u8]| stream.windows(needle.len()).any(|w| w == needle);
            let origin = if max_req <= u32::MAX as usize && has(&(max_req as u32).to_le_bytes()) {
                "len_u32_from_file"
            } else if has(&(max_req as u64).to_le_bytes()) {
                "len_u64_from_file"
            } else {
                "computed"
            };
            let sig = format!("c20.{}.huge_allocation.{}", fmt.codec(), origin);
            let d = describe(&format!(
                "requested a single allocation of {} bytes; the limit is max(16 MiB, 256 x {} bytes) = {} bytes",
                max_req,
                file_bytes.len(),
                limit
            ));
            if let Some(v) = fail(sig, d, &mut self.known) {
                return Some(v);
            }
        }
        None
    }
}

/// `panic_sig` with the message cut at the first quoted fragment (values from the file)
fn stable_panic_sig(desc: &str) -> String {
    let (loc, msg) = desc.split_once(" :: ").unwrap_or((desc, ""));
    let cut = msg.find(|c| c == '\'' || c == '"').unwrap_or(msg.len());
    let sig = panic_sig(&format!("{} :: {}", loc, &msg[..cut]));
    sig.replace("  ", " ")
}

fn src_kind(s: &Source) -> u32 {
    match s {
        Source::Valid(_) => 0,
        Source::CraftedBin(_) => 1,
        Source::Text(_) | Source::Bytes(_) => 2,
    }
}

/// The content the plan starts from. For compressed files with `inner` (and for every crafted /
/// arbitrary source) this is the binary stream, otherwise the bytes of the file itself.
fn base_content(case: &Case, tmp: &TmpDir, obs: &mut Obs) -> Result<Option<Vec<u8>>, Verdict> {
    let fmt = case.fmt;
    let raw: Vec<u8> = match &case.src {
        Source::Valid(spec) => {
            let built = match build_db(spec) {
                Ok(b) => b,
                Err(_) => {
                    obs.class("discard:history_panic");
                    return Ok(None);
                }
            };
            // compressed: work from the binary stream so that the canonical order can be applied
            let wfmt = if fmt == Fmt::Compressed { Fmt::Binary } else { fmt };
            let p = tmp.file(&format!("valid.{}", wfmt.ext()));
            if let Err(e) = cmp::save(&built.db, wfmt, &p) {
                if e.starts_with("PANIC ") {
                    return Err(Verdict::Harness(format!("writer panicked (subject of C18/C19): {}", e)));
                }
                obs.class("discard:writer_refused");
                return Ok(None);
            }
            let bytes = std::fs::read(&p).map_err(|e| Verdict::Harness(e.to_string()))?;
            let canon = match wfmt {
                Fmt::Binary => canonical_binary(&bytes),
                Fmt::Json => canonical_json(&bytes),
                Fmt::Sql => canonical_sql(&bytes),
                Fmt::Compressed => unreachable!(),
            };
            match canon {
                Ok(c) => c,
                Err(e) => return Err(Verdict::Harness(format!("cannot canonicalise the valid file: {}", e))),
            }
        }
        Source::CraftedBin(toks) => tok_bytes(toks),
        Source::Text(s) => s.as_bytes().to_vec(),
        Source::Bytes(b) => b.clone(),
    };
    if raw.len() > MAX_BASE {
        obs.class("discard:base_larger_than_64KiB");
        return Ok(None);
    }
    if fmt == Fmt::Compressed && !case.inner {
        // damage the compressed bytes themselves
        return match zstd::encode_all(&raw[..], 3) {
            Ok(c) => Ok(Some(c)),
            Err(e) => Err(Verdict::Harness(format!("zstd encode failed: {}", e))),
        };
    }
    Ok(Some(raw))
}

pub fn run_case(case: &Case, obs: &mut Obs) -> Verdict {
    let t0 = std::time::Instant::now();
    if let Ok(p) = std::env::var("VERIF_C20_TRACE") {
        // the case in progress, one file per worker process (to find a case that kills the worker)
        let _ = std::fs::write(format!("{}.{}", p, std::process::id()), serde_json::to_string(case).unwrap_or_default());
    }
    let v = run_case_inner(case, obs);
    if let Ok(p) = std::env::var("VERIF_C20_TIMING") {
        use std::io::Write;
        if let Ok(mut f) = std::fs::OpenOptions::new().create(true).append(true).open(p) {
            let _ = writeln!(f, "{:.3}s loads={} fmt={} classes={:?}", t0.elapsed().as_secs_f64(), obs.sub_evals, case.fmt.name(), obs.classes);
        }
    }
    v
}

fn run_case_inner(case: &Case, obs: &mut Obs) -> Verdict {
    obs.excluded += case.excluded;
    if !alloc::installed() || !guard::installed() {
        return Verdict::Harness("C20 must run inside `chk_persist --worker C20` (counting allocator + watchdog)".into());
    }
    let tmp = match TmpDir::new("c20") {
        Ok(t) => t,
        Err(e) => return Verdict::Harness(e),
    };
    let fmt = case.fmt;
    obs.class(&format!("fmt:{}", fmt.name()));
    obs.class(match &case.src {
        Source::Valid(_) => "src:valid_file",
        Source::CraftedBin(_) => "src:crafted_binary_stream",
        Source::Text(_) => "src:crafted_or_arbitrary_text",
        Source::Bytes(_) => "src:arbitrary_bytes",
    });
    if case.auto {
        obs.class("via_Database::load(content_detection)");
    }
    if fmt == Fmt::Compressed {
        obs.class(if case.inner { "compressed:damage_inside" } else { "compressed:damage_outside" });
    }
    let base = match base_content(case, &tmp, obs) {
        Ok(Some(b)) => b,
        Ok(None) => return Verdict::Pass,
        Err(v) => return v,
    };
    let len = base.len();
    obs.class(match len {
        0..=255 => "base:<256B",
        256..=1023 => "base:256B-1KiB",
        1024..=4095 => "base:1-4KiB",
        _ => "base:4-64KiB",
    });
    let code = fmt.index() as u32 * 4 + src_kind(&case.src);
    let mut j = Judge { case, tmp: &tmp, code, loads: 0, ok: 0, err: 0, nontrivial: false, max_req_seen: 0, known: Vec::new(), file: None };
    // the undamaged content first: baseline (a valid file must not trip the allocation limit)
    if let Source::Valid(_) = case.src {
        if let Some(v) = j.load(&base, "the valid file, undamaged", false) {
            return finish(v, &j, obs);
        }
    }
    let mut stop: Option<Verdict> = None;
    match &case.plan {
        Plan::AsIs => {
            obs.class("plan:as_is");
            stop = j.load(&base, "as given", !matches!(case.src, Source::Valid(_)));
        }
        Plan::Stacks(stacks) => {
            obs.class("plan:mutation_stacks");
            for st in stacks.iter().take(MAX_LOADS_PER_CASE) {
                let mut b = base.clone();
                let mut desc = Vec::new();
                for m in st {
                    desc.push(show_mut(m, b.len()));
                    apply(m, &mut b);
                }
                if st.iter().any(|m| matches!(m, Mut::Dup { .. } | Mut::Del { .. } | Mut::Ins { .. })) {
                    obs.class("mut:block_dup_del_ins");
                }
                let differs = b != base;
                stop = j.load(&b, &desc.join(", then "), differs);
                if stop.is_some() {
                    break;
                }
            }
        }
        Plan::TruncEvery { stride, phase } => {
            let stride = (*stride).max(1) as usize;
            // never more than MAX_LOADS_PER_CASE points
            let stride = stride.max(len.div_ceil(MAX_LOADS_PER_CASE).max(1));
            if stride == 1 {
                obs.class("plan:truncate_every_point(exhaustive)");
            } else {
                obs.class("plan:truncate_strided");
            }
            let mut n = (*phase as usize) % stride;
            while n < len {
                stop = j.load(&base[..n], &format!("truncated to {} of {} bytes", n, len), true);
                if stop.is_some() {
                    break;
                }
                n += stride;
            }
        }
        Plan::FlipEvery { from, to } => {
            obs.class("plan:flip_every_bit_in_window");
            let (a, z) = window(*from, *to, len, MAX_LOADS_PER_CASE / 8);
            'o: for off in a..z {
                for bit in 0..8u8 {
                    let mut b = base.clone();
                    b[off] ^= 1 << bit;
                    stop = j.load(&b, &format!("bit {} of byte {} flipped", bit, off), true);
                    if stop.is_some() {
                        break 'o;
                    }
                }
            }
        }
        Plan::SplatEvery { from, to } => {
            obs.class("plan:splat_every_offset_in_window");
            let (a, z) = window(*from, *to, len, MAX_LOADS_PER_CASE / 5);
            'p: for off in a..z {
                for val in SPLATS {
                    let mut b = base.clone();
                    apply(&Mut::Splat { off: off as u32, val }, &mut b);
                    if b == base {
                        continue;
                    }
                    stop = j.load(&b, &format!("u32 {:#x} written at offset {}", val, off), true);
                    if stop.is_some() {
                        break 'p;
                    }
                }
            }
        }
        Plan::Located => {
            obs.class("plan:located_fields");
            let walkable = matches!(fmt, Fmt::Binary) || (fmt == Fmt::Compressed && case.inner);
            if walkable {
                if let Ok(w) = walk_binary(&base) {
                    let mut fields = w.fields.clone();
                    if fields.len() * 13 > MAX_LOADS_PER_CASE {
                        let step = (fields.len() * 13).div_ceil(MAX_LOADS_PER_CASE);
                        fields = fields.into_iter().step_by(step).collect();
                    }
                    'q: for (off, kind) in fields {
                        let width = match kind {
                            FieldKind::Count32 | FieldKind::StrLen => 4,
                            FieldKind::RowCount64 => 8,
                            FieldKind::Tag | FieldKind::Flag => 1,
                        };
                        // splats on wide fields (both halves of a u64), every bit of the low byte
                        // and the top bit of the field
                        let mut variants: Vec<(String, Vec<u8>)> = Vec::new();
                        if width >= 4 {
                            for val in SPLATS {
                                let mut b = base.clone();
                                apply(&Mut::Splat { off: off as u32, val }, &mut b);
                                variants.push((format!("{:?} field at {}: u32 {:#x}", kind, off, val), b));
                                if width == 8 {
                                    let mut b = base.clone();
                                    apply(&Mut::Splat { off: off as u32 + 4, val }, &mut b);
                                    variants.push((format!("{:?} field at {}: high u32 {:#x}", kind, off, val), b));
                                }
                            }
                        }
                        for bit in 0..8u8 {
                            let mut b = base.clone();
                            b[off] ^= 1 << bit;
                            variants.push((format!("{:?} field at {}: bit {} flipped", kind, off, bit), b));
                        }
                        for (d, b) in variants {
                            if b == base {
                                continue;
                            }
                            stop = j.load(&b, &d, true);
                            if stop.is_some() {
                                break 'q;
                            }
                        }
                    }
                    obs.class("located:walker_ok");
                } else {
                    obs.class("located:walker_failed");
                }
            }
        }
    }
    let v = stop.unwrap_or(Verdict::Pass);
    finish(v, &j, obs)
}

fn window(from: u32, to: u32, len: usize, max: usize) -> (usize, usize) {
    if len == 0 {
        return (0, 0);
    }
    let a = from as usize % len;
    let mut z = if to as usize <= a { len } else { (to as usize).min(len) };
    if z - a > max {
        z = a + max;
    }
    (a, z)
}

fn finish(v: Verdict, j: &Judge, obs: &mut Obs) -> Verdict {
    obs.sub_evals += j.loads as u64;
    if j.ok > 0 {
        obs.class("some_load:ok");
    }
    if j.err > 0 {
        obs.class("some_load:err");
    }
    for k in &j.known {
        obs.known_hits.push(k.clone());
    }
    obs.class(match j.max_req_seen {
        0..=65_535 => "max_alloc:<64KiB",
        65_536..=1_048_575 => "max_alloc:64KiB-1MiB",
        1_048_576..=16_777_215 => "max_alloc:1-16MiB",
        _ => "max_alloc:>=16MiB",
    });
    obs.nontrivial = j.nontrivial;
    v
}

// ---------------------------------------------------------------------------------------------
// generators

fn hostile32(t: &mut Tape, real: u32) -> u32 {
    match t.weighted(&[10, 1, 1, 1, 1, 1, 1, 1]) {
        0 => real,
        1 => 0,
        2 => real.wrapping_add(1),
        3 => 0x7fff_ffff,
        4 => 0x8000_0000,
        5 => 0xffff_ffff,
        6 => 65_536,
        _ => 1_000_000,
    }
}

const TYPE_NAMES: &[&str] = &[
    "INTEGER", "VARCHAR(20)", "DOUBLE PRECISION", "BIGINT", "SMALLINT", "REAL", "BOOLEAN", "DATE", "TIME", "TIMESTAMP", "NUMERIC(10, 2)", "CHAR(5)", "VARCHAR", "FLOAT(24)", "DECIMAL(8, 3)",
    "BIGINT UNSIGNED", "TIMESTAMP WITH TIME ZONE", "CHAR(4000000000)", "CHAR(99999999999999999999)", "VARCHAR(18446744073709551615)", "VARCHAR(-1)", "CHAR(x)", "NUMERIC(999, 999)", "NUMERIC(,)",
    "FLOAT()", "", "INTERVAL Day", "varchar(5", "CHAR(0)", "NUMERIC(", "\u{0}", "VARCHAR(5))))",
];
const NAMES: &[&str] = &["T", "T", "U", "t", "PUBLIC.T", "", "A.B.C", "T\u{0}", "日本", "ID", "C1", "C1", "C2"];

fn str_tok(t: &mut Tape, s: &str) -> Tok {
    let len = if t.chance(1, 12) { Some(hostile32(t, s.len() as u32)) } else { None };
    Tok::Str { s: s.to_string(), len }
}

fn value_toks(t: &mut Tape, out: &mut Vec<Tok>) {
    let tag = *t.pick(&[0x02u8, 0x11, 0x00, 0x08, 0x03, 0x01, 0x05, 0x06, 0x07, 0x10, 0x20, 0x30, 0x31, 0x32, 0x33, 0x04, 0x09, 0xff, 0x12]);
    out.push(Tok::U8(tag));
    match tag {
        0x01 => out.push(Tok::Raw(vec![1, 0])),
        0x02 | 0x03 | 0x04 => out.push(Tok::U64(*t.pick(&[1u64, 0, u64::MAX, 1 << 63]))),
        0x05 | 0x08 => out.push(Tok::U64(*t.pick(&[0x3ff0000000000000u64, 0x7ff8000000000000, 0xfff0000000000000, 0]))),
        0x06 | 0x07 => out.push(Tok::U32(*t.pick(&[0x3f800000u32, 0x7fc00000, 0]))),
        0x10 | 0x11 => {
            let s = *t.pick(&["a", "", "hello", "日本", "aaaaaaaaaaaaaaaaaaaaaaaaaaaaaaaaaaaaaaaaaaaaaaaa"]);
            if t.chance(1, 8) {
                // invalid UTF-8
                out.push(Tok::U32(2));
                out.push(Tok::Raw(vec![0xff, 0xfe]));
            } else {
                out.push(str_tok(t, s));
            }
        }
        0x20 => out.push(Tok::U8(*t.pick(&[1u8, 0, 2, 255]))),
        0x30 => out.push(pick_tok(t, &["2001-02-03", "0000-00-00", "2001-13-45", "", "x", "99999-01-01", "-1-1-1", "2001-02-03-04"])),
        0x31 => out.push(pick_tok(t, &["01:02:03", "25:61:61", "01:02:03.1234567890123", "", "::", "01:02:03.é"])),
        0x32 => out.push(pick_tok(t, &["2001-02-03 04:05:06", "2001-02-03", " ", "2001-02-03T04:05:06", "2001-02-03 04:05:06.5 x"])),
        0x33 => out.push(pick_tok(t, &["1 DAY", "", "x", "1-2 YEAR TO MONTH", "99999999999999999999 DAY", "1 2 3 4 5"])),
        _ => {}
    }
}

fn pick_tok(t: &mut Tape, xs: &[&str]) -> Tok {
    let s = t_pick(t, xs);
    str_tok(t, s)
}

fn t_pick<'a>(t: &mut Tape, xs: &[&'a str]) -> &'a str {
    xs[t.below(xs.len())]
}

const SANE_TYPES: &[&str] = &["INTEGER", "VARCHAR(20)", "DOUBLE PRECISION", "BIGINT", "SMALLINT", "REAL", "BOOLEAN", "DATE", "TIME", "TIMESTAMP", "NUMERIC(10, 2)", "CHAR(5)", "VARCHAR"];

/// Grammar-guided binary stream: header, catalog, triggers, data. In the `sane` mode (2 of 3) the
/// catalog is well-formed (distinct names, valid type names, true counts) with rare hostile fields,
/// so that the reader gets to the later sections; otherwise every field is free.
pub fn gen_crafted_bin(t: &mut Tape, allow_deep: bool, allow_endless_rows: bool) -> Vec<Tok> {
    let sane = t.chance(2, 3);
    let cnt = |t: &mut Tape, real: u32| -> u32 {
        if sane && !t.chance(1, 25) {
            t.raw();
            real
        } else {
            hostile32(t, real)
        }
    };
    let stok = |t: &mut Tape, s: &str| -> Tok {
        if sane && !t.chance(1, 25) {
            t.raw();
            Tok::Str { s: s.to_string(), len: None }
        } else {
            str_tok(t, s)
        }
    };
    let mut o = vec![Tok::Header { magic_ok: sane || !t.chance(1, 30), version: if sane { 1 } else { *t.pick(&[1u8, 1, 1, 0, 2, 255]) } }];
    // schemas, roles
    for k in 0..2 {
        let n = t.weighted(&[6, 2, 1]) as u32;
        o.push(Tok::U32(cnt(t, n)));
        for i in 0..n {
            let nm = if sane { format!("{}{}", if k == 0 { "S" } else { "R" }, i) } else { t_pick(t, &["S", "public", "PUBLIC", "", "S"]).to_string() };
            o.push(stok(t, &nm));
        }
    }
    // tables
    let nt = t.weighted(&[2, 5, 2, 1]);
    o.push(Tok::U32(cnt(t, nt as u32)));
    let mut tabs: Vec<(String, Vec<String>)> = Vec::new();
    for ti in 0..nt {
        let name = if sane { format!("T{}", ti + 1) } else { t_pick(t, NAMES).to_string() };
        o.push(stok(t, &name));
        let mut nc = t.weighted(&[1, 4, 3, 2, 1]);
        if nc == 0 && (!allow_endless_rows || t.chance(1, 2)) {
            nc = 1;
        }
        o.push(Tok::U32(cnt(t, nc as u32)));
        let mut cols = Vec::new();
        for ci in 0..nc {
            let cn = if sane { format!("C{}", ci + 1) } else { t_pick(t, NAMES).to_string() };
            o.push(stok(t, &cn));
            let ty = if sane && !t.chance(1, 12) { t_pick(t, SANE_TYPES) } else { t_pick(t, TYPE_NAMES) };
            o.push(stok(t, ty));
            o.push(Tok::U8(if sane { t.below(2) as u8 } else { *t.pick(&[1u8, 0, 1, 2, 255]) }));
            cols.push(cn);
        }
        tabs.push((name, cols));
    }
    // indexes
    let ni = t.weighted(&[5, 3, 1]);
    o.push(Tok::U32(cnt(t, ni as u32)));
    for ii in 0..ni {
        let iname = if sane { format!("IX{}", ii + 1) } else { t_pick(t, &["IX", "IX", "", "ix2"]).to_string() };
        o.push(stok(t, &iname));
        let known = !tabs.is_empty() && (sane || t.chance(3, 4));
        let (tn, tcols) = if known { tabs[t.below(tabs.len())].clone() } else { ("NOPE".to_string(), vec![]) };
        o.push(stok(t, &tn));
        o.push(Tok::U8(if sane { t.below(2) as u8 } else { *t.pick(&[0u8, 1, 2]) }));
        let nc = if sane { 1 } else { t.weighted(&[1, 5, 2]) };
        o.push(Tok::U32(cnt(t, nc as u32)));
        for _ in 0..nc {
            let cn = if sane && !tcols.is_empty() { tcols[t.below(tcols.len())].clone() } else { t_pick(t, NAMES).to_string() };
            o.push(stok(t, &cn));
            o.push(Tok::U8(if sane { t.below(2) as u8 } else { *t.pick(&[0u8, 1, 2, 255]) }));
        }
    }
    // triggers
    let ntr = t.weighted(&[5, 3, 1]);
    o.push(Tok::U32(cnt(t, ntr as u32)));
    for k in 0..ntr {
        let trn = if sane { format!("TR{}", k + 1) } else { t_pick(t, &["TR", "TR", ""]).to_string() };
        o.push(stok(t, &trn));
        let tn = if sane && !tabs.is_empty() { tabs[t.below(tabs.len())].0.clone() } else { t_pick(t, NAMES).to_string() };
        o.push(stok(t, &tn));
        o.push(Tok::U8(if sane { t.below(3) as u8 } else { *t.pick(&[0u8, 1, 2, 3]) }));
        let ev = if sane { t.below(4) as u8 } else { *t.pick(&[0u8, 1, 2, 3, 4]) };
        o.push(Tok::U8(ev));
        if ev == 3 {
            let n = t.below(3) as u32;
            o.push(Tok::U32(cnt(t, n)));
            for _ in 0..n {
                o.push(stok(t, "C1"));
            }
        }
        o.push(Tok::U8(if sane { t.below(2) as u8 } else { *t.pick(&[0u8, 1, 2]) }));
        let has_when = t.chance(1, 2);
        o.push(Tok::U8(has_when as u8));
        if has_when {
            match t.weighted(&[3, 3, 2, if allow_deep { 2 } else { 0 }]) {
                0 => {
                    // literal
                    o.push(Tok::U8(0x00));
                    value_toks(t, &mut o);
                }
                1 => {
                    // IS NULL over a column reference, a few levels
                    let depth = t.range(1, 6);
                    for _ in 0..depth {
                        o.push(Tok::U8(0x06));
                    }
                    o.push(Tok::U8(0x01));
                    o.push(Tok::U8(0));
                    o.push(stok(t, "C1"));
                    for _ in 0..depth {
                        o.push(Tok::U8(0));
                    }
                }
                2 => {
                    // random expression bytes
                    let n = t.range(1, 24) as usize;
                    o.push(Tok::Raw((0..n).map(|_| t.below(0x20) as u8).collect()));
                }
                _ => {
                    // deeply nested IS NULL (tag 0x06): one stack frame of read_expression per byte
                    let n = *t.pick(&[60_000u32, 20_000, 5_000, 1_000]);
                    o.push(Tok::Fill { byte: 0x06, n });
                    o.push(Tok::U8(0x07));
                    o.push(Tok::Fill { byte: 0x00, n });
                }
            }
        }
        o.push(Tok::U8(if sane { 0 } else { *t.pick(&[0u8, 0, 1]) }));
        let body = t_pick_static(t, &["BEGIN END", "", "x"]);
        o.push(stok(t, body));
    }
    // data
    for (name, cols) in &tabs {
        let nc = cols.len();
        let dn = if sane || t.chance(9, 10) { name.clone() } else { "NOPE".to_string() };
        o.push(stok(t, &dn));
        let rows = t.weighted(&[2, 4, 2, 1]) as u64;
        let written = match t.weighted(&[if sane { 40 } else { 10 }, 1, 1, 1, 1]) {
            0 => rows,
            1 => rows + 1,
            2 => u64::MAX,
            3 => 1 << 40,
            _ => 0,
        };
        // a table without columns never reaches the end of the input: rows cost no bytes
        let written = if nc == 0 && !allow_endless_rows { written.min(1000) } else { written };
        o.push(Tok::U64(written));
        for _ in 0..rows {
            for _ in 0..nc {
                value_toks(t, &mut o);
            }
        }
    }
    if t.chance(1, 10) {
        o.push(Tok::Raw(vec![0, 1, 2, 3]));
    }
    o
}

fn t_pick_static(t: &mut Tape, xs: &[&'static str]) -> &'static str {
    xs[t.below(xs.len())]
}

/// Crafted JSON document in the shape `load_json` expects, with hostile members.
pub fn gen_crafted_json(t: &mut Tape) -> String {
    use serde_json::{json, Value};
    // sane (2 of 3): distinct names, known type names, default schema: the loader reaches the row
    // conversion, where the hostile values are
    let sane = t.chance(2, 3);
    let ty = |t: &mut Tape| -> Value {
        if sane {
            let name = *t.pick(&["INTEGER", "VARCHAR", "CHAR", "DOUBLE PRECISION", "NUMERIC", "BOOLEAN", "DATE", "TIME", "TIMESTAMP", "SMALLINT", "BIGINT", "REAL", "FLOAT", "INTEGER", "BIGINT"]);
            let mut c = json!({"name": "?", "type": name, "nullable": true});
            if name == "CHAR" || (name == "VARCHAR" && t.chance(1, 2)) {
                c["max_length"] = json!(*t.pick(&[5u64, 1, 20, 2]));
            }
            return c;
        }
        let name = *t.pick(&["INTEGER", "INTEGER", "VARCHAR", "CHAR", "DOUBLE PRECISION", "NUMERIC", "BOOLEAN", "DATE", "TIME", "TIMESTAMP", "SMALLINT", "BIGINT", "REAL", "FLOAT", "INTERVAL", "BLOB", "", "NULL", "weird"]);
        let mut c = json!({"name": *t.pick(&["ID", "C1", "C2", "C3", "C4", "C1", ""]), "type": name, "nullable": t.chance(1, 2)});
        if t.chance(1, 2) {
            c["max_length"] = match t.weighted(&[6, 1, 1, 1]) {
                0 => json!(*t.pick(&[5u64, 1, 0, 20])),
                1 => json!(4_000_000_000u64),
                2 => json!(u64::MAX),
                _ => json!(-1),
            };
        }
        if t.chance(1, 4) {
            c["precision"] = json!(*t.pick(&[10i64, 0, 255, 256, -1]));
            c["scale"] = json!(*t.pick(&[2i64, 0, 255, 300]));
        }
        c
    };
    let hostile = |t: &mut Tape| -> Value {
        match t.below(16) {
            0 => json!(1),
            1 => json!("a"),
            2 => Value::Null,
            3 => json!(1.5),
            4 => json!(true),
            5 => json!(u64::MAX),
            6 => json!(-9223372036854775808i64),
            7 => json!("2001-02-03"),
            8 => json!("01:02:03.1234567890123"),
            9 => json!([1, 2]),
            10 => json!({"x": 1}),
            11 => json!(1e308),
            12 => json!(9223372036854775808u64),
            13 => json!(-0.0),
            14 => json!(32768),
            _ => json!("ß日本"),
        }
    };
    // a value that matches the declared type two times out of three
    let val = |t: &mut Tape, ty: &str| -> Value {
        if t.chance(1, 3) {
            return hostile(t);
        }
        match ty {
            "INTEGER" | "BIGINT" | "SMALLINT" => match t.below(6) {
                0 => json!(1),
                1 => json!(-7),
                2 => json!(i64::MAX),
                3 => json!(u64::MAX),
                4 => json!(2.5),
                _ => json!(40000),
            },
            "DOUBLE PRECISION" | "REAL" | "FLOAT" | "NUMERIC" => match t.below(4) {
                0 => json!(1.25),
                1 => json!(7),
                2 => json!(1e308),
                _ => json!(-1e-320),
            },
            "BOOLEAN" => json!(t.chance(1, 2)),
            "DATE" => json!(*t.pick(&["2001-02-03", "2001-13-01", "1-1-1", ""])),
            "TIME" => json!(*t.pick(&["01:02:03", "01:02:03.5", "24:00:00", "1:2"])),
            "TIMESTAMP" => json!(*t.pick(&["2001-02-03 04:05:06", "2001-02-03", "x"])),
            "INTERVAL" => json!(*t.pick(&["1 DAY", "x", ""])),
            _ => json!(*t.pick(&["a", "", "ß日本", "aaaaaaaaaaaaaaaaaaaaaaaaa"])),
        }
    };
    let nt = t.weighted(&[1, 5, 2]);
    let mut tables = Vec::new();
    for _ in 0..nt {
        let nc = t.weighted(&[1, 4, 3, 1]);
        let mut cols: Vec<Value> = (0..nc).map(|_| ty(t)).collect();
        if sane {
            for (i, c) in cols.iter_mut().enumerate() {
                c["name"] = json!(format!("C{}", i + 1));
            }
        }
        let nr = t.weighted(&[2, 4, 2]);
        let mut rows = Vec::new();
        for _ in 0..nr {
            let mut m = serde_json::Map::new();
            for c in &cols {
                if t.chance(9, 10) {
                    let ty = c["type"].as_str().unwrap_or("").to_string();
                    m.insert(c["name"].as_str().unwrap_or("").to_string(), val(t, &ty));
                }
            }
            rows.push(Value::Object(m));
        }
        let tname = if sane { format!("T{}", tables.len() + 1) } else { t.pick(&["T", "T", "U", "", "A.B"]).to_string() };
        let mut tb = json!({"name": tname, "columns": cols, "rows": rows});
        if !sane && t.chance(1, 2) {
            tb["schema"] = json!(*t.pick(&["public", "PUBLIC", "other", ""]));
        }
        tables.push(tb);
    }
    let ni = t.weighted(&[4, 3, 1]);
    let indexes: Vec<Value> = (0..ni)
        .map(|_| {
            json!({"name": *t.pick(&["IX", "IX", ""]), "table": *t.pick(&["T", "U", "NOPE", ""]), "unique": t.chance(1, 3),
                   "columns": [{"name": *t.pick(&["ID", "C1", "NOPE"]), "direction": *t.pick(&["ASC", "DESC", "x"]), "prefix_length": if t.chance(1, 3) { json!(u64::MAX) } else { Value::Null }}]})
        })
        .collect();
    let mut doc = json!({"vibesql": {"version": "1.0", "format": "json", "timestamp": *t.pick(&[0i64, -1, i64::MAX, i64::MIN])}, "tables": tables, "indexes": indexes});
    if t.chance(1, 4) {
        doc["schemas"] = json!([{"name": *t.pick(&["S", "public", ""])}, {"name": "S"}]);
    }
    if t.chance(1, 4) {
        doc["roles"] = json!([{"name": "R"}, {"name": *t.pick(&["R", ""])}]);
    }
    if t.chance(1, 6) {
        doc["views"] = json!([{"name": "V", "definition": "SELECT 1"}]);
    }
    let mut s = serde_json::to_string(&doc).unwrap_or_default();
    if t.chance(1, 10) {
        // deep nesting in front of the document
        let n = *t.pick(&[200usize, 5000, 60000]);
        s = format!("{{\"vibesql\":{}", "[".repeat(n));
    }
    s
}

/// Crafted SQL script: the statement kinds the dump loader executes, with hostile operands.
pub fn gen_crafted_sql(t: &mut Tape, allow_deep: bool) -> String {
    let mut s = String::new();
    let n = t.range(1, 6);
    for _ in 0..n {
        let st = match t.below(if allow_deep { 13 } else { 12 }) {
            0 => format!("CREATE TABLE {} (ID INTEGER, C1 {});", t_pick(t, &["T", "T", "U"]), t_pick(t, &["CHAR(4000000000)", "VARCHAR(5)", "CHAR(5)", "NUMERIC(255, 255)", "CHAR(0)", "FLOAT(0)", "VARCHAR(99999999999999999999)", "INTEGER"])),
            1 => format!("INSERT INTO T VALUES ({}, {});", t_pick(t, &["1", "NULL", "99999999999999999999999999", "-9223372036854775808", "1e999", "''"]), t_pick(t, &["'a'", "NULL", "1", "'日本'", "DATE '0000-00-00'", "TIME '25:00:00'", "''", "1e-999", "X'00'"])),
            2 => "INSERT INTO T VALUES (1);".to_string(),
            3 => format!("CREATE INDEX IX ON {} ({});", t_pick(t, &["T", "NOPE"]), t_pick(t, &["C1 Asc", "C1(99999999999) Desc", "NOPE", "C1 Asc, C1 Desc", "ID"])),
            4 => "CREATE SCHEMA S;".to_string(),
            5 => "CREATE ROLE R;".to_string(),
            6 => "INSERT INTO T VALUES (1, 'unterminated".to_string(),
            7 => "-- comment\n\n".to_string(),
            8 => format!("INSERT INTO T VALUES (1, '{}');", t_pick(t, &["a\\", "a\nb", "a\n--b", "\\'", "';", "\"", "a\r\nb"])),
            9 => "SELECT 1; DROP TABLE T; UPDATE T SET ID = 1;".to_string(),
            10 => format!("CREATE TABLE V (ID INTEGER PRIMARY KEY, C1 VARCHAR(5) DEFAULT {}, CHECK (ID > {}));", t_pick(t, &["'x'", "NULL", "1"]), t_pick(t, &["0", "ID", "(SELECT 1)"])),
            11 => "INSERT INTO T VALUES (1, 'a'), (1, 'b'), (2, NULL);".to_string(),
            _ => {
                let n = *t.pick(&[100usize, 1000, 5000, 20000]);
                format!("INSERT INTO T VALUES ({}1{});", "(".repeat(n), ")".repeat(n))
            }
        };
        s.push_str(&st);
        s.push_str(t_pick(t, &["\n", "\n", " ", "\n\n", ""]));
    }
    s
}

fn gen_mut(t: &mut Tape) -> Mut {
    match t.weighted(&[3, 3, 3, 2, 2, 2, 2]) {
        0 => Mut::Flip { off: t.raw(), bit: t.below(8) as u8 },
        1 => Mut::Splat { off: t.raw(), val: *t.pick(&SPLATS) },
        2 => Mut::Trunc(t.raw()),
        3 => Mut::Set { off: t.raw(), val: *t.pick(&[0u8, 0xff, b'\'', b'"', b'\\', b'\n', b'{', b'[', b'(', b';', 0x80, b'-', b'9']) },
        4 => Mut::Dup { off: t.raw(), len: *t.pick(&[1u32, 4, 8, 16, 64, 256]) },
        5 => Mut::Del { off: t.raw(), len: *t.pick(&[1u32, 4, 8, 16, 64, 256]) },
        _ => Mut::Ins { off: t.raw(), bytes: t.pick(&[vec![0u8], vec![0xff, 0xff, 0xff, 0xff], b"'".to_vec(), b"\n--".to_vec(), b"{".to_vec(), b"[[[[".to_vec(), b"((((".to_vec(), vec![0x06; 64]]).clone() },
    }
}

fn db_opts(tier: Tier) -> GenOpts {
    let mut o = GenOpts::default();
    o.max_tables = 2;
    o.max_rows = if tier == Tier::Thorough { 10 } else { 5 };
    o.max_ops = 3;
    o.ext_types = false;
    o
}

/// signature vcore gives to a child death with the exit code the guards produce (see guard.rs)
fn death_sig(kind: i32, fmt: Fmt, src: u32) -> String {
    format!("abort[status{}]", (kind + fmt.index() as i32 * 4 + src as i32) * 256)
}

impl Check for C20 {
    type Case = Case;
    fn id(&self) -> &'static str {
        "C20"
    }
    fn level(&self) -> &'static str {
        "fault_enumeration"
    }
    fn isolated(&self) -> bool {
        true
    }
    fn timeout_s(&self) -> u64 {
        120
    }
    fn rule(&self) -> String {
        format!(
            "content = (a) a valid file written by the engine for a database of the C18/C19 generator (<= 64 KiB; tables, indexes, JSON row keys put in name order and time stamps fixed so that the bytes are a function of the case) \
             in one of the four formats, (b) a grammar-guided binary stream (header, catalog, triggers, data) with free counts, length prefixes, type names, tags, names, (c) a crafted JSON document / SQL script with hostile members \
             (huge CHAR lengths, unknown types, deep nesting, unterminated literals), (d) arbitrary bytes. Damage plans on (a): every truncation point (stride 1 for files <= {} bytes, i.e. every file <= 4 KiB is truncated exhaustively), \
             all 8 bit flips at every offset of a window, the five 32-bit splats {{0,1,0x7fffffff,0x80000000,0xffffffff}} at every offset of a window, flips+splats at every count / length prefix / row count / tag / flag located by a \
             walker of the binary format, stacks of 1-3 mutations (flip, splat, set byte, truncate, duplicate / remove / insert a block). Compressed files are damaged outside (compressed bytes) or inside (binary stream damaged, then compressed). \
             Loaders: load_binary / load_compressed / load_json / vibesql_executor::load_sql_dump, or Database::load on an extension-less file (detection by content). Oracle per load: Ok or Err; a panic, an abort / stack overflow, \
             a load using > 10 s of CPU time or holding > 6 GiB of live heap, or a single allocation request > max(16 MiB, 256 x file length) is a failure. sub_evaluations = number of loads. Fixed cases: one small database per format with exhaustive \
             truncation and the located-field plan. Non-trivial = at least one loaded content differs from the valid file and still passes the magic / first-byte check of its format. Distinct = hash of the case.",
            MAX_LOADS_PER_CASE
        )
    }
    fn assumptions(&self) -> Vec<String> {
        vec![
            "each case runs in a child process (`chk_persist --worker C20`) whose global allocator counts the largest single request of each load; allocations made by zstd's C code while decompressing a damaged compressed file go through malloc and are invisible to it (the decompressed Vec and everything the reader allocates afterwards are counted)".into(),
            "child deaths are reported by vcore as abort[status<wait status>]; the child turns SIGABRT into exit code 100+c, a load that uses > 10 s of CPU time (wall backstop 90 s) or holds > 6 GiB of live heap into 140+c, with c = 4*format(binary 0, compressed 1, json 2, sql 3) + source(valid-damaged 0, crafted binary 1, text/bytes 2); wait status = exit code * 256".into(),
            "the thorough tier does not run the libFuzzer target `db_load` of the design note (no fuzzing toolchain in this harness); the grammar-guided and arbitrary sources take its place".into(),
            "temp files: one directory per case under /verif/target/tmp/c20 (override VERIF_PERSIST_TMP), one file rewritten per load, removed when the case ends".into(),
        ]
    }
    fn cases(&self, tier: Tier) -> u64 {
        match tier {
            Tier::Quick => 8_000,
            Tier::Thorough => 80_000,
        }
    }
    fn tape_len(&self, _t: Tier) -> usize {
        1200
    }
    fn max_shrink_iters(&self) -> u32 {
        // a shrink step on a case that ends the child costs two watchdog periods
        60
    }
    fn prepare(&self, _args: &vcore::Args) -> Result<(), String> {
        std::fs::create_dir_all(cmp::tmp_base("c20")).map_err(|e| e.to_string())?;
        cmp::sweep_stale("c20");
        Ok(())
    }
    fn fixed_cases(&self, _tier: Tier) -> Vec<Case> {
        // one small database per format: exhaustive truncation + located fields
        let raw = vec![
            "CREATE TABLE T1 (ID INTEGER NOT NULL, C1 VARCHAR(20), C2 DOUBLE PRECISION, C3 DATE, C4 BOOLEAN)".to_string(),
            "CREATE INDEX IX1 ON T1 (C1 ASC, ID DESC)".to_string(),
            "INSERT INTO T1 VALUES (1, 'apple', 1.5, DATE '2001-02-03', TRUE), (2, 'it''s', -0.25, NULL, FALSE), (3, NULL, 1e300, DATE '1999-12-31', NULL)".to_string(),
        ];
        let fixed_db = DbSpec { raw: Some(raw), ..DbSpec::default() };
        let mut v = Vec::new();
        for fmt in [Fmt::Binary, Fmt::Compressed, Fmt::Json, Fmt::Sql] {
            for inner in [false, true] {
                if inner && fmt != Fmt::Compressed {
                    continue;
                }
                v.push(Case { fmt, src: Source::Valid(fixed_db.clone()), plan: Plan::TruncEvery { stride: 1, phase: 0 }, auto: false, inner, excluded: 0 });
                if fmt == Fmt::Binary || inner {
                    v.push(Case { fmt, src: Source::Valid(fixed_db.clone()), plan: Plan::Located, auto: false, inner, excluded: 0 });
                }
                v.push(Case { fmt, src: Source::Valid(fixed_db.clone()), plan: Plan::SplatEvery { from: 0, to: 0 }, auto: false, inner, excluded: 0 });
            }
        }
        v
    }
    fn build(&self, t: &mut Tape, cfg: &GenCfg) -> Case {
        let fmt = *t.pick(&[Fmt::Binary, Fmt::Json, Fmt::Sql, Fmt::Compressed]);
        let inner = fmt == Fmt::Compressed && t.chance(2, 3);
        let mut excluded = 0u64;
        let auto = fmt != Fmt::Sql && t.chance(1, 5);
        let kind = t.weighted(&[9, 6, 2]);
        let src = match kind {
            0 => Source::Valid(gen_db(t, &db_opts(cfg.tier)).0),
            1 => match fmt {
                Fmt::Binary | Fmt::Compressed => {
                    let allow_deep = !cfg.avoiding(&death_sig(100, fmt, 1));
                    let allow_endless = !cfg.avoiding(&death_sig(140, fmt, 1));
                    if !allow_deep || !allow_endless {
                        excluded += 1;
                    }
                    Source::CraftedBin(gen_crafted_bin(t, allow_deep, allow_endless))
                }
                Fmt::Json => Source::Text(gen_crafted_json(t)),
                Fmt::Sql => {
                    let allow_deep = !cfg.avoiding(&death_sig(100, fmt, 2));
                    if !allow_deep {
                        excluded += 1;
                    }
                    Source::Text(gen_crafted_sql(t, allow_deep))
                }
            },
            _ => {
                let n = t.range(0, 64) as usize;
                let mut b: Vec<u8> = match fmt {
                    Fmt::Binary | Fmt::Compressed if t.chance(3, 4) => {
                        let mut h = b"VBSQL\x01".to_vec();
                        h.extend_from_slice(&[0; 10]);
                        h
                    }
                    Fmt::Json if t.chance(3, 4) => b"{\"vibesql\":".to_vec(),
                    _ => Vec::new(),
                };
                b.extend((0..n).map(|_| (t.raw() & 0xff) as u8));
                Source::Bytes(b)
            }
        };
        // crafted binary streams for the compressed format are always compressed after the fact
        let inner = inner || (fmt == Fmt::Compressed && !matches!(src, Source::Valid(_)) && t.chance(9, 10));
        let plan = match &src {
            Source::Valid(_) => match t.weighted(&[4, 2, 2, 2, 3]) {
                0 => Plan::TruncEvery { stride: 1, phase: t.raw() % 64 },
                1 => Plan::FlipEvery { from: t.raw(), to: 0 },
                2 => Plan::SplatEvery { from: t.raw(), to: 0 },
                3 if fmt == Fmt::Binary || (fmt == Fmt::Compressed && inner) => Plan::Located,
                _ => {
                    let n = t.range(8, 48) as usize;
                    Plan::Stacks((0..n).map(|_| (0..t.range(1, 3)).map(|_| gen_mut(t)).collect()).collect())
                }
            },
            _ => match t.weighted(&[3, 1, 1]) {
                0 => Plan::AsIs,
                1 => Plan::TruncEvery { stride: 1, phase: 0 },
                _ => {
                    let n = t.range(4, 24) as usize;
                    Plan::Stacks((0..n).map(|_| (0..t.range(1, 2)).map(|_| gen_mut(t)).collect()).collect())
                }
            },
        };
        Case { fmt, src, plan, auto, inner, excluded }
    }
    fn render(&self, c: &Case) -> String {
        let src = match &c.src {
            Source::Valid(db) => format!("valid {} file of:\n{}", c.fmt.name(), gen::render(db)),
            Source::CraftedBin(toks) => {
                let b = tok_bytes(toks);
                format!("crafted binary stream, {} bytes: {}", b.len(), hex(&b, 400))
            }
            Source::Text(s) => format!("text, {} bytes: {}", s.len(), truncate(s, 600)),
            Source::Bytes(b) => format!("bytes, {}: {}", b.len(), hex(b, 400)),
        };
        format!(
            "-- load as {}{}{}\n-- plan: {}\n{}",
            c.fmt.name(),
            if c.auto { " through Database::load" } else { "" },
            if c.fmt == Fmt::Compressed { if c.inner { " (damage inside, then zstd)" } else { " (damage on the compressed bytes)" } } else { "" },
            truncate(&format!("{:?}", c.plan), 600),
            src
        )
    }
    fn run(&self, case: &Case, obs: &mut Obs) -> Verdict {
        run_case(case, obs)
    }
}
