//! Counting allocator: records the largest single allocation request and the number of live bytes.
//! The binary installs it with `#[global_allocator]`; the library only reads the counters.

use std::alloc::{GlobalAlloc, Layout, System};
use std::sync::atomic::{AtomicBool, AtomicUsize, Ordering};

pub struct Counting;

static MAX_REQ: AtomicUsize = AtomicUsize::new(0);
static LIVE: AtomicUsize = AtomicUsize::new(0);
static INSTALLED: AtomicBool = AtomicBool::new(false);

#[inline]
fn note(size: usize) {
    if size > MAX_REQ.load(Ordering::Relaxed) {
        MAX_REQ.fetch_max(size, Ordering::Relaxed);
    }
    LIVE.fetch_add(size, Ordering::Relaxed);
}

unsafe impl GlobalAlloc for Counting {
    unsafe fn alloc(&self, l: Layout) -> *mut u8 {
        note(l.size());
        System.alloc(l)
    }
    unsafe fn alloc_zeroed(&self, l: Layout) -> *mut u8 {
        note(l.size());
        System.alloc_zeroed(l)
    }
    unsafe fn dealloc(&self, p: *mut u8, l: Layout) {
        LIVE.fetch_sub(l.size(), Ordering::Relaxed);
        System.dealloc(p, l)
    }
    unsafe fn realloc(&self, p: *mut u8, l: Layout, new_size: usize) -> *mut u8 {
        if new_size > l.size() {
            note(new_size);
            LIVE.fetch_sub(l.size(), Ordering::Relaxed);
        } else {
            LIVE.fetch_sub(l.size() - new_size, Ordering::Relaxed);
        }
        System.realloc(p, l, new_size)
    }
}

/// called once by the binary that installed `Counting` as the global allocator
pub fn mark_installed() {
    INSTALLED.store(true, Ordering::Relaxed);
}
pub fn installed() -> bool {
    INSTALLED.load(Ordering::Relaxed)
}
pub fn reset_max() {
    MAX_REQ.store(0, Ordering::Relaxed);
}
pub fn max_request() -> usize {
    MAX_REQ.load(Ordering::Relaxed)
}
pub fn live_bytes() -> usize {
    LIVE.load(Ordering::Relaxed)
}
