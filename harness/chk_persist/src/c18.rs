//! C18 — native save/load (binary, compressed binary, JSON) round-trips the database.
//! Also hosts the round-trip driver shared with C19 (SQL dump).

use crate::cmp::{self, attribute, diff_indexes, diff_tables, err_class, probe_diff, probes, run_probe, show_result, snapshot, Fmt, TmpDir};
use crate::gen::{self, build_db, features, gen_db, is_awkward, is_c19_hazard, DbSpec, GenOpts, Op};
use serde::{Deserialize, Serialize};
use vcore::runner::truncate;
use vcore::{Check, GenCfg, Obs, Tape, Tier, Verdict};
use vibesql_storage::Database;
use vibesql_types::SqlValue;

pub struct C18;

#[derive(Clone, Debug, Serialize, Deserialize)]
pub struct Case {
    pub db: DbSpec,
    pub fmt: Fmt,
    /// load through `Database::load` (format detection by extension) instead of the format's loader
    #[serde(default)]
    pub auto: bool,
    /// run the index-probe battery (false only when an open finding makes it fail for every index)
    #[serde(default = "yes")]
    pub probes: bool,
    /// alternatives the generator suppressed because of open known findings
    #[serde(default)]
    pub excluded: u64,
}
fn yes() -> bool {
    true
}

/// Generator switches derived from the open known findings of `prop` for `codec`.
pub fn opts_from_known(cfg: &GenCfg, prop: &str, codec: &str) -> (GenOpts, bool) {
    let mut o = GenOpts::default();
    let mut probes = true;
    if !cfg.avoid_known {
        return (o, probes);
    }
    let prefix = format!("{}.{}.", prop, codec);
    for s in &cfg.known_open {
        let Some(rest) = s.strip_prefix(&prefix) else { continue };
        let parts: Vec<&str> = rest.split('.').collect();
        match parts.as_slice() {
            ["value", cls, feat, _effect] => {
                o.no_value.insert(format!("{}.{}", cls, feat));
            }
            ["type", label, _effect] => {
                o.no_type.insert(label.to_string());
            }
            ["column", "type", label] => {
                o.no_type.insert(label.to_string());
            }
            ["index_def", "prefix_length"] => o.no_prefix = true,
            ["index_def", "direction"] => o.no_desc = true,
            ["index_def", "unique"] => o.no_unique = true,
            ["index_def", "columns"] => o.no_multi = true,
            ["index_def", "missing"] => o.no_index = true,
            ["index_probe", ..] => probes = false,
            _ => {}
        }
    }
    (o, probes)
}

/// What a round trip must preserve.
pub struct RtSpec {
    /// "c18" / "c19"
    pub prop: &'static str,
    pub fmt: Fmt,
    pub auto: bool,
    pub check_indexes: bool,
    pub probes: bool,
}

fn load_with(fmt: Fmt, auto: bool, path: &std::path::Path) -> Result<Database, String> {
    if auto && fmt != Fmt::Sql {
        match vcore::runner::catch(|| Database::load(path).map_err(|e| format!("{:?}", e))) {
            Ok(r) => r,
            Err(p) => Err(format!("PANIC {}", p)),
        }
    } else {
        cmp::load(fmt, path)
    }
}

/// Label the case from the database that was actually built.
pub fn label(db: &Database, spec: &DbSpec, built: &gen::Built, obs: &mut Obs) -> (bool, bool, bool) {
    let snap = snapshot(db);
    let mut awkward = false;
    let mut hazard = false;
    let mut rows = 0usize;
    for t in snap.tables.values() {
        rows += t.rows.len();
        for c in &t.cols {
            if matches!(c.label, "float" | "varchar_unbounded" | "time_tz" | "timestamp_tz" | "interval") {
                obs.class(&format!("ext_type:{}", c.label));
            } else {
                obs.class(&format!("type:{}", c.label));
            }
        }
        for r in &t.rows {
            for v in r {
                if is_awkward(v) {
                    awkward = true;
                }
                if is_c19_hazard(v) {
                    hazard = true;
                }
                if !matches!(v, SqlValue::Null) {
                    for f in features(v) {
                        if f != "plain" {
                            obs.class(&format!("value:{}", f));
                        }
                    }
                }
            }
        }
    }
    obs.class(&format!("tables:{}", snap.tables.len()));
    obs.class(match rows {
        0 => "rows:0",
        1..=5 => "rows:1-5",
        6..=20 => "rows:6-20",
        _ => "rows:21+",
    });
    let has_index = !snap.indexes.is_empty();
    if has_index {
        obs.class("has_index");
    }
    for ix in snap.indexes.values() {
        if ix.cols.len() > 1 {
            obs.class("index:multi_column");
        }
        if ix.cols.iter().any(|c| c.1 == "Desc") {
            obs.class("index:desc");
        }
        if ix.cols.iter().any(|c| c.2.is_some()) {
            obs.class("index:prefix");
        }
        if ix.unique {
            obs.class("index:unique");
        }
    }
    if built.api_rows > 0 {
        obs.class("rows_via_insert_row");
    }
    if spec.history.iter().any(|o| matches!(o, Op::Update { .. } | Op::Delete { .. })) {
        obs.class("history:update_or_delete");
    }
    if spec.tables.iter().any(|t| t.pk) {
        obs.class("primary_key");
    }
    if spec.raw.is_some() {
        obs.class("raw_regression_input");
    }
    (has_index, awkward, hazard)
}

/// save -> load -> compare, with attribution of a failure to a single type / value.
pub fn roundtrip(orig: &Database, log: &[String], rs: &RtSpec, obs: &mut Obs) -> Verdict {
    let tmp = match TmpDir::new(rs.prop) {
        Ok(t) => t,
        Err(e) => return Verdict::Harness(e),
    };
    let fmt = rs.fmt;
    let codec = fmt.codec();
    let path = tmp.file(&format!("db.{}", fmt.ext()));
    let ctx = |what: &str| format!("format {}{}\n{}\nhistory:\n{}", fmt.name(), if rs.auto { " (loaded through Database::load)" } else { "" }, what, truncate(&log.join("\n"), 6000));
    if let Err(e) = cmp::save(orig, fmt, &path) {
        if e.starts_with("PANIC ") {
            return Verdict::fail(format!("{}.{}.save.{}", rs.prop, codec, err_class(&e)), ctx(&format!("the writer panicked: {}", e)));
        }
        // a writer that refuses with an error puts the case outside the domain
        obs.class(&format!("writer_refused:{}", err_class(&e)));
        return Verdict::Pass;
    }
    obs.sub_evals += 1;
    let attr_path = tmp.file(&format!("attr.{}", fmt.ext()));
    let rt = |db: &Database| -> Result<Database, String> {
        cmp::save(db, fmt, &attr_path).map_err(|e| format!("(writer) {}", e))?;
        load_with(fmt, rs.auto, &attr_path)
    };
    let loaded = match load_with(fmt, rs.auto, &path) {
        Ok(l) => l,
        Err(e) => {
            let file_note = std::fs::read(&path).map(|b| format!("file: {} bytes", b.len())).unwrap_or_default();
            return match attribute(orig, &rt) {
                Some(c) => Verdict::fail(format!("{}.{}.{}", rs.prop, codec, c.sig), ctx(&format!("the writer succeeded, the reader failed: {}\n{}\nsmallest trigger: {}", truncate(&e, 800), file_note, c.detail))),
                None => Verdict::fail(format!("{}.{}.load_error.{}", rs.prop, codec, err_class(&e)), ctx(&format!("the writer succeeded, the reader failed: {}\n{}", truncate(&e, 800), file_note))),
            };
        }
    };
    let sa = snapshot(orig);
    let sb = snapshot(&loaded);
    if let Some(d) = diff_tables(&sa, &sb) {
        return match attribute(orig, &rt) {
            Some(c) => Verdict::fail(format!("{}.{}.{}", rs.prop, codec, c.sig), ctx(&format!("{}\nsmallest trigger: {}", d.detail, c.detail))),
            None => Verdict::fail(format!("{}.{}.{}", rs.prop, codec, d.kind), ctx(&d.detail)),
        };
    }
    if rs.check_indexes {
        if let Some(d) = diff_indexes(&sa, &sb) {
            return Verdict::fail(format!("{}.{}.index_def.{}", rs.prop, codec, d.kind), ctx(&d.detail));
        }
    }
    if rs.probes && rs.check_indexes {
        let battery = probes(orig);
        let mut reference: Option<Database> = None;
        for p in &battery {
            obs.sub_evals += 1;
            let a = run_probe(orig, p);
            let b = run_probe(&loaded, p);
            let Some(shape) = probe_diff(p, &a, &b) else { continue };
            // who is wrong? reference = a clean rebuild of the loaded database (same rows, same
            // index definitions, indexes built by Database::create_index)
            if reference.is_none() {
                reference = match vcore::runner::catch(|| cmp::rebuilt(&loaded)) {
                    Ok(Ok(d)) => Some(d),
                    _ => None,
                };
            }
            let r = reference.as_ref().map(|d| run_probe(d, p));
            if let Some(r) = &r {
                if probe_diff(p, r, &b).is_none() {
                    // the loaded database answers like a clean rebuild of itself: it is the *original*
                    // whose incrementally maintained index state answers differently (subject of C02)
                    obs.class("probe:original_differs_from_clean_rebuild(C02)");
                    if std::env::var("VERIF_PERSIST_DEBUG").is_ok() {
                        eprintln!("C02CLASS {}\n{}\norig:\n{}loaded:\n{}", log.join("\n"), p.sql, show_result(&a), show_result(&b));
                    }
                    continue;
                }
            }
            return Verdict::fail(
                format!("{}.{}.index_probe.{}", rs.prop, codec, shape),
                ctx(&format!(
                    "{} ({})\noriginal database:\n{}loaded database:\n{}clean rebuild of the loaded database:\n{}",
                    p.sql,
                    p.kind,
                    show_result(&a),
                    show_result(&b),
                    r.as_ref().map(show_result).unwrap_or_default()
                )),
            );
        }
        if !battery.is_empty() {
            obs.class("index_probes_run");
        }
    }
    Verdict::Pass
}

fn tier_opts(o: &mut GenOpts, tier: Tier) {
    o.max_tables = 3;
    o.max_rows = if tier == Tier::Thorough { 20 } else { 10 };
    o.max_ops = if tier == Tier::Thorough { 12 } else { 8 };
    o.ext_types = true;
}

impl Check for C18 {
    type Case = Case;
    fn id(&self) -> &'static str {
        "C18"
    }
    fn rule(&self) -> String {
        "1-3 tables (ID INTEGER NOT NULL + 1-6 columns over SMALLINT, INTEGER, BIGINT, REAL, DOUBLE PRECISION, NUMERIC(p,s), DECIMAL(p,s) [as DataType::Decimal through Database::create_table: the parser reads DECIMAL as NUMERIC], BOOLEAN, VARCHAR(n), CHAR(n), DATE, TIME, TIMESTAMP; 1 column in 8 of an \
         'extended' type CREATE TABLE also accepts: FLOAT(p), TEXT, TIME/TIMESTAMP WITH TIME ZONE, INTERVAL DAY, labelled ext_type:*; optional NOT NULL / PRIMARY KEY (ID)), 0-3 index definitions (1-3 columns, ASC/DESC, \
         prefix length on string columns, UNIQUE on ID) created before, during or after the DML, and a history of multi-row INSERTs through the executor, rows stored through Database::insert_row (exactly typed; the only \
         way to store NaN, infinities and arbitrary f32/f64 bit patterns; labelled rows_via_insert_row), UPDATE and DELETE with predicates on ID. Values: i64 extremes and 2^53 neighbours, float specials and extremes, \
         strings built from quote, double quote, backslash, semicolon, '--', newline, CR, tab, Unicode pieces, dates 0001-9999, times with nanoseconds. One format per case (binary / compressed / JSON; 1 case in 4 is \
         loaded through Database::load). Oracle: writer error => outside the domain; otherwise the loader must succeed and the loaded database must have the same table names, columns (name, type, nullability), \
         row multisets (bit-exact: NaN equals the same NaN, -0.0 differs from 0.0), index definitions (table, uniqueness, columns, directions, prefix lengths) and the same answers to the probe battery \
         (for every indexed column: = < >= BETWEEN IN with literals from the stored values, ORDER BY) — a probe difference counts only if the loaded database also disagrees with a clean rebuild of itself (same rows, same index definitions, indexes built by Database::create_index); otherwise the original's incrementally maintained index state is what differs, which is C02's subject. \
         A failure is attributed to the smallest trigger by re-running the round trip on one-column tables (empty, then one value). \
         Non-trivial = the database was saved and loaded, has >= 1 index and holds >= 1 awkward value (i64 extreme / beyond 2^53, NaN/inf/-0.0/subnormal/huge/tiny float, string with a metacharacter or non-ASCII, \
         fractional seconds below 1 ms, year < 1000). Distinct = hash of the case."
            .into()
    }
    fn assumptions(&self) -> Vec<String> {
        vec![
            "the original database (state reached by the engine's own executors) is the reference; the history is not checked against a model here".into(),
            "PRIMARY KEY / UNIQUE / CHECK / FOREIGN KEY constraints, defaults, views, triggers, roles and non-default schemas are not part of the compared state (the statement lists names, columns, types, nullability, rows, index definitions, query results)".into(),
            "a history that panics inside the engine discards the case (class discard:history_panic)".into(),
            "temp files: one directory per case under /verif/target/tmp/c18 (override VERIF_PERSIST_TMP), removed when the case ends".into(),
        ]
    }
    fn cases(&self, tier: Tier) -> u64 {
        match tier {
            Tier::Quick => 30_000,
            Tier::Thorough => 800_000,
        }
    }
    fn tape_len(&self, _t: Tier) -> usize {
        1500
    }
    fn prepare(&self, _args: &vcore::Args) -> Result<(), String> {
        std::fs::create_dir_all(cmp::tmp_base("c18")).map_err(|e| e.to_string())?;
        cmp::sweep_stale("c18");
        Ok(())
    }
    fn build(&self, t: &mut Tape, cfg: &GenCfg) -> Case {
        let fmt = *t.pick(&[Fmt::Binary, Fmt::Json, Fmt::Compressed]);
        let auto = t.chance(1, 4);
        let (mut o, probes) = opts_from_known(cfg, "c18", fmt.codec());
        tier_opts(&mut o, cfg.tier);
        let (db, mut excluded) = gen_db(t, &o);
        if !probes && !db.indexes.is_empty() {
            excluded += 1;
        }
        Case { db, fmt, auto, probes, excluded }
    }
    fn render(&self, c: &Case) -> String {
        format!("-- format {}{}{}\n{}", c.fmt.name(), if c.auto { " via Database::load" } else { "" }, if c.probes { "" } else { " (probe battery off)" }, gen::render(&c.db))
    }
    fn run(&self, case: &Case, obs: &mut Obs) -> Verdict {
        obs.excluded += case.excluded;
        if case.fmt == Fmt::Sql {
            return Verdict::Harness("C18 does not cover the SQL dump (C19 does)".into());
        }
        obs.class(&format!("fmt:{}", case.fmt.name()));
        if case.auto {
            obs.class("via_Database::load");
        }
        let built = match build_db(&case.db) {
            Ok(b) => b,
            Err(e) => {
                obs.class("discard:history_panic");
                if std::env::var("VERIF_PERSIST_DEBUG").is_ok() {
                    eprintln!("DISCARD {}", e);
                }
                return Verdict::Pass;
            }
        };
        let (has_index, awkward, _) = label(&built.db, &case.db, &built, obs);
        let rs = RtSpec { prop: "c18", fmt: case.fmt, auto: case.auto, check_indexes: true, probes: case.probes };
        let v = roundtrip(&built.db, &built.log, &rs, obs);
        if matches!(v, Verdict::Pass) && !obs.classes.iter().any(|c| c.starts_with("writer_refused")) {
            obs.nontrivial = has_index && awkward;
        }
        v
    }
}
