//! In-child guards for C20 (the child is `chk_persist --worker C20`):
//!  * a watchdog thread that ends the process when one load runs longer than `LOAD_DEADLINE_MS`
//!    or when the live heap exceeds `LIVE_LIMIT` (exit code 140+code in both cases);
//!  * a SIGABRT handler that turns an abort (Rust's stack-overflow guard, alloc error, explicit
//!    abort) into exit code 100+code,
//! where `code = format index * 4 + source kind` of the load in progress. vcore's isolate layer
//! reports the death of a child as `abort[status<wait status>]`; the wait status of an exit code
//! c is c*256, so the signature tells format and source kind apart.

use std::sync::atomic::{AtomicBool, AtomicU32, AtomicU64, Ordering};
use std::time::{SystemTime, UNIX_EPOCH};

pub const LOAD_DEADLINE_MS: u64 = 15_000;
pub const LIVE_LIMIT: usize = 6 << 30;

static CODE: AtomicU32 = AtomicU32::new(0);
/// start of the load in progress (ms since epoch), 0 = none
static LOAD_START: AtomicU64 = AtomicU64::new(0);
static INSTALLED: AtomicBool = AtomicBool::new(false);

fn now_ms() -> u64 {
    SystemTime::now().duration_since(UNIX_EPOCH).map(|d| d.as_millis() as u64).unwrap_or(0)
}

pub fn begin_load(code: u32) {
    CODE.store(code, Ordering::Relaxed);
    LOAD_START.store(now_ms(), Ordering::Relaxed);
}
pub fn end_load() {
    LOAD_START.store(0, Ordering::Relaxed);
}
pub fn installed() -> bool {
    INSTALLED.load(Ordering::Relaxed)
}

extern "C" fn on_abort(_sig: libc::c_int) {
    let code = CODE.load(Ordering::Relaxed) as i32;
    unsafe { libc::_exit(100 + code) }
}

/// Called once by the worker process before it starts serving cases.
pub fn install() {
    if INSTALLED.swap(true, Ordering::Relaxed) {
        return;
    }
    unsafe {
        libc::signal(libc::SIGABRT, on_abort as usize);
    }
    std::thread::Builder::new()
        .name("c20-watchdog".into())
        .spawn(|| loop {
            std::thread::sleep(std::time::Duration::from_millis(50));
            let code = CODE.load(Ordering::Relaxed) as i32;
            let st = LOAD_START.load(Ordering::Relaxed);
            if st != 0 && now_ms().saturating_sub(st) > LOAD_DEADLINE_MS {
                unsafe { libc::_exit(140 + code) }
            }
            // same exit code as the deadline: a load that does not end shows up as one or the
            // other depending on the machine's speed
            if st != 0 && crate::alloc::live_bytes() > LIVE_LIMIT {
                unsafe { libc::_exit(140 + code) }
            }
        })
        .expect("spawn watchdog");
}

/// Human-readable meaning of a child exit code produced by the guards.
pub fn explain_exit(code: i32) -> String {
    let (what, c) = match code {
        100..=139 => ("abort (SIGABRT: stack overflow guard, allocation failure or explicit abort)", code - 100),
        140..=179 => ("watchdog (one load ran longer than 15 s or its live heap exceeded 6 GiB)", code - 140),
        _ => return format!("exit code {}", code),
    };
    let fmt = ["binary", "compressed", "json", "sql"][(c / 4).clamp(0, 3) as usize];
    let src = ["mutated valid file", "crafted file", "arbitrary content", "?"][(c % 4) as usize];
    format!("{} while loading a {} as {}", what, src, fmt)
}
