//! In-child guards for C20 (the child is `chk_persist --worker C20`):
//!  * a watchdog thread that ends the process when one load burns more than `LOAD_CPU_LIMIT_MS`
//!    of CPU time (or `LOAD_WALL_BACKSTOP_MS` of wall time)
//!    or when the live heap exceeds `LIVE_LIMIT` (exit code 140+code in both cases);
//!  * a SIGABRT handler that turns an abort (Rust's stack-overflow guard, alloc error, explicit
//!    abort) into exit code 100+code,
//! where `code = format index * 4 + source kind` of the load in progress. vcore's isolate layer
//! reports the death of a child as `abort[status<wait status>]`; the wait status of an exit code
//! c is c*256, so the signature tells format and source kind apart.

use std::sync::atomic::{AtomicBool, AtomicU32, AtomicU64, Ordering};
use std::time::{SystemTime, UNIX_EPOCH};

/// CPU time one load may consume (process CPU clock: robust against a starved machine, where a
/// wall-clock deadline misfires); a load that blocks without burning CPU is ended by the wall
/// backstop (and, beyond it, by vcore's per-case timeout).
pub const LOAD_CPU_LIMIT_MS: u64 = 10_000;
pub const LOAD_WALL_BACKSTOP_MS: u64 = 90_000;
pub const LIVE_LIMIT: usize = 6 << 30;

static CODE: AtomicU32 = AtomicU32::new(0);
/// start of the load in progress (ms since epoch), 0 = none
static LOAD_START: AtomicU64 = AtomicU64::new(0);
/// process CPU time (ms) at the start of the load in progress
static LOAD_START_CPU: AtomicU64 = AtomicU64::new(0);
static INSTALLED: AtomicBool = AtomicBool::new(false);

fn now_ms() -> u64 {
    SystemTime::now().duration_since(UNIX_EPOCH).map(|d| d.as_millis() as u64).unwrap_or(0)
}

fn cpu_ms() -> u64 {
    let mut ts = libc::timespec { tv_sec: 0, tv_nsec: 0 };
    unsafe {
        libc::clock_gettime(libc::CLOCK_PROCESS_CPUTIME_ID, &mut ts);
    }
    ts.tv_sec as u64 * 1000 + ts.tv_nsec as u64 / 1_000_000
}

pub fn begin_load(code: u32) {
    CODE.store(code, Ordering::Relaxed);
    LOAD_START_CPU.store(cpu_ms(), Ordering::Relaxed);
    LOAD_START.store(now_ms(), Ordering::Relaxed);
}
pub fn end_load() {
    LOAD_START.store(0, Ordering::Relaxed);
}
pub fn installed() -> bool {
    INSTALLED.load(Ordering::Relaxed)
}

extern "C" fn on_abort(_sig: libc::c_int) {
    let code = CODE.load(Ordering::Relaxed) as i32;
    unsafe { libc::_exit(100 + code) }
}

/// Called once by the worker process before it starts serving cases.
pub fn install() {
    if INSTALLED.swap(true, Ordering::Relaxed) {
        return;
    }
    unsafe {
        libc::signal(libc::SIGABRT, on_abort as *const () as usize);
    }
    std::thread::Builder::new()
        .name("c20-watchdog".into())
        .spawn(|| loop {
            std::thread::sleep(std::time::Duration::from_millis(50));
            let code = CODE.load(Ordering::Relaxed) as i32;
            let st = LOAD_START.load(Ordering::Relaxed);
            if st != 0 && (cpu_ms().saturating_sub(LOAD_START_CPU.load(Ordering::Relaxed)) > LOAD_CPU_LIMIT_MS || now_ms().saturating_sub(st) > LOAD_WALL_BACKSTOP_MS) {
                // (a load that ended between the two reads shows st == 0 next time round)
                if LOAD_START.load(Ordering::Relaxed) == st {
                    unsafe { libc::_exit(140 + code) }
                }
            }
            // same exit code as the deadline: a load that does not end shows up as one or the
            // other depending on the machine's speed
            if st != 0 && crate::alloc::live_bytes() > LIVE_LIMIT {
                unsafe { libc::_exit(140 + code) }
            }
        })
        .expect("spawn watchdog");
}

/// Human-readable meaning of a child exit code produced by the guards.
pub fn explain_exit(code: i32) -> String {
    let (what, c) = match code {
        100..=139 => ("abort (SIGABRT: stack overflow guard, allocation failure or explicit abort)", code - 100),
        140..=179 => ("watchdog (one load used more than 10 s of CPU time or its live heap exceeded 6 GiB)", code - 140),
        _ => return format!("exit code {}", code),
    };
    let fmt = ["binary", "compressed", "json", "sql"][(c / 4).clamp(0, 3) as usize];
    let src = ["mutated valid file", "crafted file", "arbitrary content", "?"][(c % 4) as usize];
    format!("{} while loading a {} as {}", what, src, fmt)
}
