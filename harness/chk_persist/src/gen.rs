//! Shared generator of databases for C18 / C19 / C20: schema over the supported column types,
//! index definitions, and a short DML history (SQL through the executors, plus rows loaded through
//! `Database::insert_row` when SQL text cannot express the value).

use serde::{Deserialize, Serialize};
use std::collections::BTreeSet;
use vcore::engine;
use vcore::runner::catch;
use vcore::val::{gen_date, gen_time, F32_SPECIALS, F64_SPECIALS, V};
use vcore::Tape;
use vibesql_storage::{Database, Row};
use vibesql_types::{DataType, SqlValue};

// ---------------------------------------------------------------------------------------------
// schema IR

#[derive(Clone, Debug, PartialEq, Eq, Serialize, Deserialize)]
pub enum Ty {
    Small,
    Int,
    Big,
    Real,
    Double,
    Num(u8, u8),
    /// DECIMAL(p, s): same values as NUMERIC, its own type name in the catalog
    Dec(u8, u8),
    Bool,
    Varchar(u32),
    Char(u32),
    Date,
    Time,
    Ts,
    // "extended": accepted by CREATE TABLE, outside the 12 core types (labelled ext_type:*)
    Float(u8),
    Text,
    TimeTz,
    TsTz,
    IntervalDay,
}

impl Ty {
    pub fn sql(&self) -> String {
        match self {
            Ty::Small => "SMALLINT".into(),
            Ty::Int => "INTEGER".into(),
            Ty::Big => "BIGINT".into(),
            Ty::Real => "REAL".into(),
            Ty::Double => "DOUBLE PRECISION".into(),
            Ty::Num(p, s) => format!("NUMERIC({}, {})", p, s),
            Ty::Dec(p, s) => format!("DECIMAL({}, {})", p, s),
            Ty::Bool => "BOOLEAN".into(),
            Ty::Varchar(n) => format!("VARCHAR({})", n),
            Ty::Char(n) => format!("CHAR({})", n),
            Ty::Date => "DATE".into(),
            Ty::Time => "TIME".into(),
            Ty::Ts => "TIMESTAMP".into(),
            Ty::Float(p) => format!("FLOAT({})", p),
            Ty::Text => "TEXT".into(),
            Ty::TimeTz => "TIME WITH TIME ZONE".into(),
            Ty::TsTz => "TIMESTAMP WITH TIME ZONE".into(),
            Ty::IntervalDay => "INTERVAL DAY".into(),
        }
    }
    pub fn is_ext(&self) -> bool {
        matches!(self, Ty::Float(_) | Ty::Text | Ty::TimeTz | Ty::TsTz | Ty::IntervalDay)
    }
    pub fn is_string(&self) -> bool {
        matches!(self, Ty::Varchar(_) | Ty::Char(_) | Ty::Text)
    }
}

/// Label of an engine data type (used in signatures and class labels; no parameters).
pub fn type_label(dt: &DataType) -> &'static str {
    match dt {
        DataType::Smallint => "smallint",
        DataType::Integer => "integer",
        DataType::Bigint => "bigint",
        DataType::Unsigned => "unsigned",
        DataType::Real => "real",
        DataType::DoublePrecision => "double",
        DataType::Float { .. } => "float",
        DataType::Numeric { .. } => "numeric",
        DataType::Decimal { .. } => "decimal",
        DataType::Boolean => "boolean",
        DataType::Varchar { max_length: Some(_) } => "varchar",
        DataType::Varchar { max_length: None } => "varchar_unbounded",
        DataType::Character { .. } => "char",
        DataType::Date => "date",
        DataType::Time { with_timezone: false } => "time",
        DataType::Time { with_timezone: true } => "time_tz",
        DataType::Timestamp { with_timezone: false } => "timestamp",
        DataType::Timestamp { with_timezone: true } => "timestamp_tz",
        DataType::Interval { .. } => "interval",
        _ => "other",
    }
}

/// Value class of a type: the granularity at which triggers are named and avoided.
pub fn ty_class(dt: &DataType) -> &'static str {
    match dt {
        DataType::Smallint => "smallint",
        DataType::Integer | DataType::Bigint | DataType::Unsigned => "int",
        DataType::Real | DataType::Float { .. } => "f32",
        DataType::DoublePrecision => "f64",
        DataType::Numeric { .. } | DataType::Decimal { .. } => "numeric",
        DataType::Boolean => "bool",
        DataType::Varchar { .. } | DataType::Character { .. } | DataType::Name | DataType::CharacterLargeObject => "str",
        DataType::Date => "date",
        DataType::Time { .. } => "time",
        DataType::Timestamp { .. } => "ts",
        DataType::Interval { .. } => "interval",
        _ => "other",
    }
}

fn ty_class_of(ty: &Ty) -> &'static str {
    match ty {
        Ty::Small => "smallint",
        Ty::Int | Ty::Big => "int",
        Ty::Real | Ty::Float(_) => "f32",
        Ty::Double => "f64",
        Ty::Num(..) | Ty::Dec(..) => "numeric",
        Ty::Bool => "bool",
        Ty::Varchar(_) | Ty::Char(_) | Ty::Text => "str",
        Ty::Date => "date",
        Ty::Time | Ty::TimeTz => "time",
        Ty::Ts | Ty::TsTz => "ts",
        Ty::IntervalDay => "interval",
    }
}

fn ty_label_of(ty: &Ty) -> &'static str {
    match ty {
        Ty::Small => "smallint",
        Ty::Int => "integer",
        Ty::Big => "bigint",
        Ty::Real => "real",
        Ty::Double => "double",
        Ty::Num(..) => "numeric",
        Ty::Dec(..) => "decimal",
        Ty::Bool => "boolean",
        Ty::Varchar(_) => "varchar",
        Ty::Char(_) => "char",
        Ty::Date => "date",
        Ty::Time => "time",
        Ty::Ts => "timestamp",
        Ty::Float(_) => "float",
        Ty::Text => "varchar_unbounded",
        Ty::TimeTz => "time_tz",
        Ty::TsTz => "timestamp_tz",
        Ty::IntervalDay => "interval",
    }
}

#[derive(Clone, Debug, Serialize, Deserialize)]
pub struct ColDef {
    pub name: String,
    pub ty: Ty,
    pub not_null: bool,
}

#[derive(Clone, Debug, Serialize, Deserialize)]
pub struct TableDef {
    pub name: String,
    /// column 0 is always `ID INTEGER NOT NULL` holding a unique, increasing id
    pub cols: Vec<ColDef>,
    /// declare PRIMARY KEY (ID)
    pub pk: bool,
}

impl TableDef {
    pub fn create_sql(&self) -> String {
        let mut parts: Vec<String> = self.cols.iter().map(|c| format!("{} {}{}", c.name, c.ty.sql(), if c.not_null { " NOT NULL" } else { "" })).collect();
        if self.pk {
            parts.push("PRIMARY KEY (ID)".into());
        }
        format!("CREATE TABLE {} ({})", self.name, parts.join(", "))
    }
}

#[derive(Clone, Debug, Serialize, Deserialize)]
pub struct IndexDef {
    pub name: String,
    pub table: usize,
    /// (column, descending, prefix length)
    pub cols: Vec<(usize, bool, Option<u32>)>,
    pub unique: bool,
}

impl IndexDef {
    pub fn create_sql(&self, tables: &[TableDef]) -> String {
        let t = &tables[self.table];
        let cols: Vec<String> = self
            .cols
            .iter()
            .map(|(c, d, p)| format!("{}{} {}", t.cols[*c].name, p.map(|n| format!("({})", n)).unwrap_or_default(), if *d { "DESC" } else { "ASC" }))
            .collect();
        format!("CREATE {}INDEX {} ON {} ({})", if self.unique { "UNIQUE " } else { "" }, self.name, t.name, cols.join(", "))
    }
}

#[derive(Clone, Debug, Serialize, Deserialize)]
pub enum Pred {
    All,
    IdEq(i64),
    IdLt(i64),
    IdGe(i64),
    IdBetween(i64, i64),
    IdIn(Vec<i64>),
}
impl Pred {
    pub fn sql(&self) -> String {
        match self {
            Pred::All => String::new(),
            Pred::IdEq(k) => format!(" WHERE ID = {}", k),
            Pred::IdLt(k) => format!(" WHERE ID < {}", k),
            Pred::IdGe(k) => format!(" WHERE ID >= {}", k),
            Pred::IdBetween(a, b) => format!(" WHERE ID BETWEEN {} AND {}", a, b),
            Pred::IdIn(v) => format!(" WHERE ID IN ({})", v.iter().map(|x| x.to_string()).collect::<Vec<_>>().join(", ")),
        }
    }
}

#[derive(Clone, Debug, Serialize, Deserialize)]
pub enum Op {
    CreateIndex(usize),
    /// `INSERT INTO t VALUES (..), (..)` through the executor
    InsertSql { table: usize, rows: Vec<Vec<V>> },
    /// `Database::insert_row` with exactly typed values (what the INSERT executor calls after
    /// coercion); the only way to store NaN / infinities / arbitrary f32 bit patterns
    InsertApi { table: usize, rows: Vec<Vec<V>> },
    Update { table: usize, col: usize, val: V, pred: Pred },
    Delete { table: usize, pred: Pred },
}

#[derive(Clone, Debug, Default, Serialize, Deserialize)]
pub struct DbSpec {
    pub tables: Vec<TableDef>,
    pub indexes: Vec<IndexDef>,
    pub history: Vec<Op>,
    /// hand-written regression input: statements executed instead of the fields above
    #[serde(default)]
    pub raw: Option<Vec<String>>,
}

// ---------------------------------------------------------------------------------------------
// value features (computed on the values actually stored in the database)

/// All features of a stored value, most specific first. The first one names the trigger in
/// signatures `..value.<class>.<feature>..`; all of them can be switched off in the generator.
pub fn features(v: &SqlValue) -> Vec<&'static str> {
    fn ff(f: f64, out: &mut Vec<&'static str>) {
        if f.is_nan() {
            out.push("nan");
        } else if f.is_infinite() {
            out.push("inf");
        } else if f == 0.0 && f.is_sign_negative() {
            out.push("neg_zero");
        } else {
            // shape of the decimal text serde_json / Rust's `{:?}` write (positional up to 1e16,
            // e-notation beyond): significant digits as written (trailing zeros count) and the
            // power of ten that scales the integer mantissa
            let txt = format!("{:?}", f);
            let (m, x) = match txt.split_once('e') {
                Some((m, x)) => (m.to_string(), x.parse::<i32>().unwrap_or(0)),
                None => (txt.clone(), 0),
            };
            let frac_len = m.split_once('.').map(|p| p.1.len()).unwrap_or(0) as i32;
            let digits: String = m.chars().filter(|c| c.is_ascii_digit()).collect();
            let d = digits.trim_start_matches('0').len();
            if d > 15 {
                out.push("digits_gt_15");
            }
            if (x - frac_len).abs() > 22 {
                out.push("scale_gt_22");
            }
            if f != 0.0 && f.abs() < f64::MIN_POSITIVE {
                out.push("subnormal");
            }
            if f.abs() >= 1e16 {
                out.push("mag_large");
            }
            if f != 0.0 && f.abs() < 1e-5 {
                out.push("mag_small");
            }
            if f.fract() == 0.0 {
                out.push("whole");
            }
            if f < 0.0 {
                out.push("neg");
            }
            if f.fract() != 0.0 {
                out.push("frac");
            }
        }
        out.push("plain");
    }
    fn sf(s: &str, out: &mut Vec<&'static str>) {
        // a line inside the string that starts with "--" (the dump loader drops comment lines)
        if s.split('\n').skip(1).any(|l| l.trim_start().starts_with("--")) {
            out.push("newline_dashdash");
        }
        // backslash directly before a quote or as the last character (before the closing quote),
        // also across a line break (the dump loader joins the lines of a string)
        let joined = s.replace("\r\n", "").replace('\n', "");
        if joined.contains("\\'") || joined.ends_with('\\') {
            out.push("backslash_quote");
        }
        if s.contains('\n') {
            out.push("newline");
        }
        if s.contains('\r') {
            out.push("cr");
        }
        if s.contains('\\') {
            out.push("backslash");
        }
        if s.contains("--") {
            out.push("dashdash");
        }
        if s.contains('\'') {
            out.push("quote");
        }
        if s.contains(';') {
            out.push("semicolon");
        }
        if s.contains('"') {
            out.push("dquote");
        }
        if s.contains('\t') {
            out.push("tab");
        }
        if !s.is_ascii() {
            out.push("non_ascii");
        }
        if s.is_empty() {
            out.push("empty");
        }
        if s == "NULL" {
            out.push("null_word");
        }
        if s.starts_with(' ') {
            out.push("leading_space");
        }
        out.push("plain");
    }
    fn tf(t: &vibesql_types::Time, out: &mut Vec<&'static str>) {
        if t.nanosecond % 1_000_000 != 0 {
            out.push("frac_fine");
        }
        if t.nanosecond != 0 {
            out.push("frac");
        }
    }
    let mut out = Vec::new();
    match v {
        SqlValue::Null => out.push("null"),
        SqlValue::Smallint(_) => out.push("plain"),
        SqlValue::Integer(i) | SqlValue::Bigint(i) => {
            if *i == i64::MIN {
                out.push("i64_min");
            }
            if *i == i64::MAX {
                out.push("i64_max");
            }
            if i.unsigned_abs() > (1u64 << 53) {
                out.push("beyond_2_53");
            }
            if *i < 0 {
                out.push("neg");
            }
            out.push("plain");
        }
        SqlValue::Unsigned(_) => out.push("plain"),
        SqlValue::Float(f) | SqlValue::Real(f) => {
            if f.is_finite() && *f != 0.0 && f.abs() < f32::MIN_POSITIVE {
                out.push("subnormal");
            }
            ff(*f as f64, &mut out)
        }
        SqlValue::Double(f) | SqlValue::Numeric(f) => ff(*f, &mut out),
        SqlValue::Character(s) | SqlValue::Varchar(s) => sf(s, &mut out),
        SqlValue::Boolean(_) => out.push("plain"),
        SqlValue::Date(d) => {
            if d.year < 1000 {
                out.push("year_lt_1000");
            }
            out.push("plain");
        }
        SqlValue::Time(t) => {
            tf(t, &mut out);
            out.push("plain");
        }
        SqlValue::Timestamp(ts) => {
            if ts.date.year < 1000 {
                out.push("year_lt_1000");
            }
            tf(&ts.time, &mut out);
            out.push("plain");
        }
        SqlValue::Interval(_) => out.push("plain"),
    }
    out
}

/// "awkward" value classes of the properties' statements (non-triviality rule of C18)
pub fn is_awkward(v: &SqlValue) -> bool {
    features(v).iter().any(|f| {
        matches!(
            *f,
            "nan" | "inf" | "neg_zero" | "subnormal" | "digits_gt_15" | "scale_gt_22" | "mag_large" | "mag_small" | "i64_min" | "i64_max" | "beyond_2_53" | "newline_dashdash" | "newline" | "cr" | "dashdash" | "backslash_quote" | "backslash"
                | "quote" | "semicolon" | "dquote" | "tab" | "non_ascii" | "frac_fine" | "year_lt_1000"
        )
    })
}

/// metacharacter / extreme classes of C19's non-triviality rule
pub fn is_c19_hazard(v: &SqlValue) -> bool {
    features(v).iter().any(|f| {
        matches!(*f, "nan" | "inf" | "neg_zero" | "subnormal" | "digits_gt_15" | "scale_gt_22" | "mag_large" | "mag_small" | "i64_min" | "i64_max" | "beyond_2_53" | "neg" | "newline_dashdash" | "newline" | "cr" | "dashdash" | "backslash_quote" | "backslash" | "quote" | "semicolon" | "dquote" | "tab")
    })
}

// ---------------------------------------------------------------------------------------------
// generator options

#[derive(Clone, Debug, Default)]
pub struct GenOpts {
    pub max_tables: usize,
    pub max_rows: usize,
    pub max_ops: usize,
    /// "<class>.<feature>" value triggers not to generate (open known findings)
    pub no_value: BTreeSet<String>,
    /// type labels not to generate
    pub no_type: BTreeSet<String>,
    pub no_prefix: bool,
    pub no_desc: bool,
    pub no_unique: bool,
    pub no_multi: bool,
    pub no_index: bool,
    pub no_pk: bool,
    pub no_api_rows: bool,
    pub ext_types: bool,
    /// emphasise nasty strings (C19)
    pub nasty_strings: bool,
}

impl GenOpts {
    fn blocked(&self, ty: &Ty, v: &V) -> bool {
        if self.no_value.is_empty() {
            return false;
        }
        let sv = to_sql_value(v, ty);
        let cls = ty_class_of(ty);
        let fs = features(&sv);
        if self.no_value.contains(&format!("{}.finite", cls)) && fs.iter().any(|f| *f == "digits_gt_15" || *f == "scale_gt_22") {
            return true;
        }
        fs.iter().any(|f| self.no_value.contains(&format!("{}.{}", cls, f)))
    }
}

const PIECES: &[&str] = &[
    "a", "B", "x1", " ", "'", "''", "\"", "\\", ";", "--", "\n", "\r\n", "\t", "\n--", "\n\n", "-- c", "é", "日本", "😀", "NULL", "%", "_", "(", ")", ",", "0", "ß", "\\'", "';", "\\\n",
];
const PLAIN_STRS: &[&str] = &["a", "ab", "abc", "b", "", "Zed", "hello world", "x", "app", "apple"];

/// Cap to `n` bytes on a character boundary: the engine measures VARCHAR(n)/CHAR(n) in bytes and
/// its truncation of a longer multi-byte string panics (`s[..n]` inside a character) — an INSERT
/// defect outside C18-C20, so the generator stays within the declared width.
fn cap_chars(s: &str, n: usize) -> String {
    let mut out = String::new();
    for ch in s.chars() {
        if out.len() + ch.len_utf8() > n {
            break;
        }
        out.push(ch);
    }
    out
}

fn gen_string(t: &mut Tape, max: usize, nasty: bool) -> String {
    let w = if nasty { [2, 6, 1] } else { [4, 4, 1] };
    let s = match t.weighted(&w) {
        0 => t.pick(PLAIN_STRS).to_string(),
        1 => {
            let n = t.range(1, 4) as usize;
            let mut s = String::new();
            for _ in 0..n {
                s.push_str(*t.pick(PIECES));
            }
            s
        }
        _ => {
            // longer text with embedded lines
            let n = t.range(2, 6) as usize;
            let mut s = String::new();
            for i in 0..n {
                if i > 0 {
                    s.push_str(*t.pick(&["\n", " ", "; ", "\n-- ", ", "]));
                }
                s.push_str(*t.pick(PLAIN_STRS));
            }
            s
        }
    };
    cap_chars(&s, max)
}

fn gen_i64(t: &mut Tape) -> i64 {
    match t.weighted(&[4, 3, 1]) {
        0 => t.range(-3, 12),
        1 => *t.pick(&[0i64, 1, -1, i64::MAX, i64::MIN, i64::MAX - 1, i64::MIN + 1, 1 << 53, (1 << 53) + 1, -(1 << 53) - 1, 2147483647, -2147483648, 2147483648, 100, 42]),
        _ => (((t.raw() as u64) << 32) | t.raw() as u64) as i64,
    }
}

/// finite doubles that SQL text can express
fn gen_f64_sql(t: &mut Tape) -> f64 {
    match t.weighted(&[4, 3, 1]) {
        0 => (t.range(-20, 20) as f64) / 4.0,
        1 => *t.pick(&[0.0, -0.0, 0.1, -0.1, 1e308, -1e308, f64::MAX, f64::MIN, f64::MIN_POSITIVE, 5e-324, 1e-7, 1e16, 1e21, 1e22, 123456789.125, 0.30000000000000004, 9007199254740993.0, 1e15, 3.14]),
        _ => {
            let f = f64::from_bits(((t.raw() as u64) << 32) | t.raw() as u64);
            if f.is_finite() {
                f
            } else {
                1.5
            }
        }
    }
}

fn gen_f32_sql(t: &mut Tape) -> f32 {
    match t.weighted(&[4, 3, 1]) {
        0 => (t.range(-20, 20) as f32) / 4.0,
        1 => *t.pick(&[0.0f32, -0.0, 0.1, -0.1, f32::MAX, f32::MIN, f32::MIN_POSITIVE, 1e-45, 1e-7, 1e16, 1e21, 16777217.0, 3.14]),
        _ => {
            let f = f32::from_bits(t.raw());
            if f.is_finite() {
                f
            } else {
                1.5
            }
        }
    }
}

/// A value of the column type. `api` allows values only `insert_row` can store.
fn gen_value_raw(t: &mut Tape, ty: &Ty, api: bool, nasty: bool) -> V {
    match ty {
        Ty::Small => V::Small(match t.weighted(&[3, 2]) {
            0 => t.range(-3, 12) as i16,
            _ => *t.pick(&[0i16, 1, -1, i16::MAX, i16::MIN, 7]),
        }),
        Ty::Int => V::Int(gen_i64(t)),
        Ty::Big => V::Big(gen_i64(t)),
        Ty::Real | Ty::Float(_) => {
            let bits = if api && t.chance(1, 2) {
                match t.weighted(&[3, 1]) {
                    0 => *t.pick(F32_SPECIALS),
                    _ => t.raw(),
                }
            } else {
                gen_f32_sql(t).to_bits()
            };
            if matches!(ty, Ty::Real) {
                V::Real(bits)
            } else {
                V::Float(bits)
            }
        }
        Ty::Double => {
            if api && t.chance(1, 2) {
                V::Double(match t.weighted(&[3, 1]) {
                    0 => *t.pick(F64_SPECIALS),
                    _ => ((t.raw() as u64) << 32) | t.raw() as u64,
                })
            } else {
                V::Double(gen_f64_sql(t).to_bits())
            }
        }
        Ty::Num(_, s) | Ty::Dec(_, s) => {
            // exact at the declared scale, modest magnitude
            let scale = 10f64.powi(*s as i32);
            let k = match t.weighted(&[3, 2]) {
                0 => t.range(-2000, 2000),
                _ => *t.pick(&[0i64, 1, -1, 99999, -99999, 12345, 5, 100]),
            };
            V::Num((k as f64 / scale).to_bits())
        }
        Ty::Bool => V::Bool(t.chance(1, 2)),
        Ty::Varchar(n) => V::Varchar(gen_string(t, *n as usize, nasty)),
        Ty::Text => V::Varchar(gen_string(t, 200, nasty)),
        Ty::Char(n) => V::Char(gen_string(t, *n as usize, nasty)),
        Ty::Date => {
            let (y, m, d) = gen_date(t);
            V::Date(y, m, d)
        }
        Ty::Time | Ty::TimeTz => {
            let (h, m, s, n) = gen_time(t);
            V::Time(h, m, s, n)
        }
        Ty::Ts | Ty::TsTz => {
            let (y, mo, d) = gen_date(t);
            let (h, mi, s, n) = gen_time(t);
            V::Ts(y, mo, d, h, mi, s, n)
        }
        Ty::IntervalDay => V::Interval(t.range(0, 40).to_string()),
    }
}

fn simple_value(ty: &Ty) -> V {
    match ty {
        Ty::Small => V::Small(1),
        Ty::Int => V::Int(1),
        Ty::Big => V::Big(1),
        Ty::Real => V::Real(1.5f32.to_bits()),
        Ty::Float(_) => V::Float(1.5f32.to_bits()),
        Ty::Double => V::Double(1.5f64.to_bits()),
        Ty::Num(..) | Ty::Dec(..) => V::Num(1.25f64.to_bits()),
        Ty::Bool => V::Bool(true),
        Ty::Varchar(_) | Ty::Text => V::Varchar("a".into()),
        Ty::Char(_) => V::Char("a".into()),
        Ty::Date => V::Date(2001, 2, 3),
        Ty::Time | Ty::TimeTz => V::Time(1, 2, 3, 0),
        Ty::Ts | Ty::TsTz => V::Ts(2001, 2, 3, 4, 5, 6, 0),
        Ty::IntervalDay => V::Interval("1".into()),
    }
}

fn gen_value(t: &mut Tape, col: &ColDef, api: bool, o: &GenOpts, excluded: &mut u64) -> V {
    if !col.not_null && t.chance(1, 7) {
        return V::Null;
    }
    let v = gen_value_raw(t, &col.ty, api, o.nasty_strings);
    if o.blocked(&col.ty, &v) {
        *excluded += 1;
        let s = simple_value(&col.ty);
        if o.blocked(&col.ty, &s) {
            return if col.not_null { s } else { V::Null };
        }
        return s;
    }
    v
}

/// SqlValue exactly typed for the column (what the INSERT executor hands to `insert_row`).
pub fn to_sql_value(v: &V, ty: &Ty) -> SqlValue {
    match (v, ty) {
        (V::Char(s), Ty::Char(n)) => {
            let len = s.chars().count();
            let mut p = s.clone();
            for _ in len..(*n as usize) {
                p.push(' ');
            }
            SqlValue::Character(p)
        }
        (V::Interval(n), _) => SqlValue::Interval(vibesql_types::Interval::new(format!("{} DAY", n))),
        (other, _) => other.to_sql(),
    }
}

/// SQL literal in the form INSERT / UPDATE accept.
pub fn lit(v: &V) -> String {
    match v {
        V::Null => "NULL".into(),
        V::Small(i) => format!("CAST({} AS SMALLINT)", i),
        V::Int(i) | V::Big(i) => i.to_string(),
        V::Uns(u) => u.to_string(),
        V::Real(b) | V::Float(b) => format!("{:?}", f32::from_bits(*b) as f64),
        V::Double(b) | V::Num(b) => format!("{:?}", f64::from_bits(*b)),
        V::Char(s) | V::Varchar(s) => format!("'{}'", s.replace('\'', "''")),
        V::Bool(b) => if *b { "TRUE" } else { "FALSE" }.into(),
        V::Interval(n) => format!("INTERVAL '{}' DAY", n),
        other => engine::lit(&other.to_sql()),
    }
}

fn sql_expressible(v: &V) -> bool {
    match v {
        V::Real(b) | V::Float(b) => f32::from_bits(*b).is_finite(),
        V::Double(b) | V::Num(b) => f64::from_bits(*b).is_finite(),
        _ => true,
    }
}

pub fn op_sql(op: &Op, spec: &DbSpec) -> Option<String> {
    match op {
        Op::CreateIndex(i) => Some(spec.indexes[*i].create_sql(&spec.tables)),
        Op::InsertSql { table, rows } => {
            let rs: Vec<String> = rows.iter().map(|r| format!("({})", r.iter().map(lit).collect::<Vec<_>>().join(", "))).collect();
            Some(format!("INSERT INTO {} VALUES {}", spec.tables[*table].name, rs.join(", ")))
        }
        Op::InsertApi { .. } => None,
        Op::Update { table, col, val, pred } => {
            let t = &spec.tables[*table];
            Some(format!("UPDATE {} SET {} = {}{}", t.name, t.cols[*col].name, lit(val), pred.sql()))
        }
        Op::Delete { table, pred } => Some(format!("DELETE FROM {}{}", spec.tables[*table].name, pred.sql())),
    }
}

fn gen_type(t: &mut Tape, o: &GenOpts, excluded: &mut u64) -> Ty {
    for _ in 0..4 {
        let ty = if o.ext_types && t.chance(1, 8) {
            match t.below(5) {
                0 => Ty::Text,
                1 => Ty::Float(*t.pick(&[24u8, 53, 10])),
                2 => Ty::TsTz,
                3 => Ty::TimeTz,
                _ => Ty::IntervalDay,
            }
        } else {
            match t.below(13) {
                0 => Ty::Int,
                1 => Ty::Varchar(*t.pick(&[20u32, 5, 1, 100])),
                2 => Ty::Double,
                3 => Ty::Big,
                4 => Ty::Real,
                5 => Ty::Num(*t.pick(&[10u8, 5, 18, 38]), *t.pick(&[2u8, 0, 4])),
                6 => Ty::Bool,
                7 => Ty::Char(*t.pick(&[5u32, 1, 12])),
                8 => Ty::Date,
                9 => Ty::Time,
                10 => Ty::Ts,
                11 => Ty::Dec(*t.pick(&[8u8, 12, 20]), *t.pick(&[3u8, 1, 2])),
                _ => Ty::Small,
            }
        };
        if o.no_type.contains(ty_label_of(&ty)) {
            *excluded += 1;
            continue;
        }
        return ty;
    }
    Ty::Int
}

fn gen_pred(t: &mut Tape, next_id: i64) -> Pred {
    let hi = next_id.max(2);
    match t.weighted(&[4, 2, 2, 2, 2, 1]) {
        0 => Pred::IdEq(t.range(1, hi)),
        1 => Pred::IdLt(t.range(1, hi)),
        2 => Pred::IdGe(t.range(1, hi)),
        3 => {
            let a = t.range(1, hi);
            Pred::IdBetween(a, a + t.range(0, 3))
        }
        4 => Pred::IdIn((0..t.range(1, 3)).map(|_| t.range(1, hi)).collect()),
        _ => Pred::All,
    }
}

/// Generate a database description. Returns (spec, number of alternatives suppressed by `o`).
pub fn gen_db(t: &mut Tape, o: &GenOpts) -> (DbSpec, u64) {
    let mut excluded = 0u64;
    let ntab = match t.weighted(&[6, 3, 1]) {
        0 => 1,
        1 => 2,
        _ => 3,
    }
    .min(o.max_tables.max(1));
    let mut tables = Vec::new();
    for ti in 0..ntab {
        let ncols = t.range(2, 7) as usize;
        let mut cols = vec![ColDef { name: "ID".into(), ty: Ty::Int, not_null: true }];
        for ci in 1..ncols {
            let ty = gen_type(t, o, &mut excluded);
            cols.push(ColDef { name: format!("C{}", ci), ty, not_null: t.chance(1, 5) });
        }
        let pk = !o.no_pk && t.chance(1, 5);
        tables.push(TableDef { name: format!("T{}", ti + 1), cols, pk });
    }
    // index definitions
    let mut indexes: Vec<IndexDef> = Vec::new();
    if !o.no_index {
        let nidx = t.weighted(&[2, 4, 3, 1]);
        for k in 0..nidx {
            let table = t.below(tables.len());
            let tb = &tables[table];
            let ncol = if o.no_multi { 1 } else { *t.pick(&[1usize, 1, 2, 3]) };
            let mut ic: Vec<(usize, bool, Option<u32>)> = Vec::new();
            for _ in 0..ncol {
                let c = if t.chance(1, 6) { 0 } else { t.range(1, tb.cols.len() as i64 - 1) as usize };
                if ic.iter().any(|(x, _, _)| *x == c) {
                    continue;
                }
                let desc = t.chance(1, 3);
                let desc = if desc && o.no_desc {
                    excluded += 1;
                    false
                } else {
                    desc
                };
                let mut prefix = None;
                let width = match tb.cols[c].ty {
                    Ty::Varchar(n) | Ty::Char(n) => n,
                    Ty::Text => 200,
                    _ => 0,
                };
                if width > 1 && t.chance(1, 3) {
                    if o.no_prefix {
                        excluded += 1;
                    } else {
                        prefix = Some((*t.pick(&[3u32, 1, 5])).min(width - 1));
                    }
                }
                ic.push((c, desc, prefix));
            }
            let mut unique = t.chance(1, 6);
            if unique && o.no_unique {
                excluded += 1;
                unique = false;
            }
            if unique {
                // only the id is guaranteed unique
                ic = vec![(0, ic.first().map(|c| c.1).unwrap_or(false), None)];
            }
            indexes.push(IndexDef { name: format!("IX{}", k + 1), table, cols: ic, unique });
        }
    }
    // history
    let mut history: Vec<Op> = Vec::new();
    let mut created = vec![false; indexes.len()];
    let mut next_id = vec![1i64; tables.len()];
    for i in 0..indexes.len() {
        if t.chance(1, 2) {
            history.push(Op::CreateIndex(i));
            created[i] = true;
        }
    }
    let mk_rows = |t: &mut Tape, table: usize, n: usize, api: bool, next_id: &mut Vec<i64>, excluded: &mut u64| -> Vec<Vec<V>> {
        let mut rows = Vec::new();
        for _ in 0..n {
            let mut r = vec![V::Int(next_id[table])];
            next_id[table] += 1;
            for c in tables[table].cols.iter().skip(1) {
                r.push(gen_value(t, c, api, o, excluded));
            }
            rows.push(r);
        }
        rows
    };
    // initial content
    for ti in 0..tables.len() {
        let n = match t.weighted(&[6, 1, 1]) {
            0 => t.range(1, o.max_rows.max(1) as i64) as usize,
            1 => 0,
            _ => 1,
        };
        let mut left = n;
        while left > 0 {
            let k = (t.range(1, 3) as usize).min(left);
            left -= k;
            let has_interval = tables[ti].cols.iter().any(|c| c.ty == Ty::IntervalDay);
            let api = !o.no_api_rows && !has_interval && t.chance(1, 3);
            let rows = mk_rows(t, ti, k, api, &mut next_id, &mut excluded);
            history.push(if api { Op::InsertApi { table: ti, rows } } else { Op::InsertSql { table: ti, rows: rows.into_iter().map(|r| sqlize(r, &tables[ti])).collect() } });
        }
    }
    let nops = t.range(0, o.max_ops as i64) as usize;
    for _ in 0..nops {
        let table = t.below(tables.len());
        let tb = &tables[table];
        let has_interval = tb.cols.iter().any(|c| c.ty == Ty::IntervalDay);
        let op = match t.weighted(&[3, 3, 3, 1, 2]) {
            0 => {
                let n = t.range(1, 3) as usize;
                let rows = mk_rows(t, table, n, false, &mut next_id, &mut excluded);
                Op::InsertSql { table, rows: rows.into_iter().map(|r| sqlize(r, tb)).collect() }
            }
            1 => {
                let col = t.range(1, tb.cols.len() as i64 - 1) as usize;
                let val = gen_value(t, &tb.cols[col], false, o, &mut excluded);
                Op::Update { table, col, val, pred: gen_pred(t, next_id[table]) }
            }
            2 => Op::Delete { table, pred: gen_pred(t, next_id[table]) },
            3 => {
                let pending: Vec<usize> = (0..indexes.len()).filter(|i| !created[*i]).collect();
                if pending.is_empty() {
                    Op::Delete { table, pred: gen_pred(t, next_id[table]) }
                } else {
                    let i = pending[t.below(pending.len())];
                    created[i] = true;
                    Op::CreateIndex(i)
                }
            }
            _ => {
                if o.no_api_rows || has_interval {
                    let n = t.range(1, 2) as usize;
                    let rows = mk_rows(t, table, n, false, &mut next_id, &mut excluded);
                    Op::InsertSql { table, rows: rows.into_iter().map(|r| sqlize(r, tb)).collect() }
                } else {
                    let n = t.range(1, 3) as usize;
                    let rows = mk_rows(t, table, n, true, &mut next_id, &mut excluded);
                    Op::InsertApi { table, rows }
                }
            }
        };
        history.push(op);
    }
    for i in 0..indexes.len() {
        if !created[i] {
            history.push(Op::CreateIndex(i));
        }
    }
    (DbSpec { tables, indexes, history, raw: None }, excluded)
}

/// rows for the SQL path never contain values SQL text cannot express (the generator asks for
/// `api == false`, so this is only a guard)
fn sqlize(mut r: Vec<V>, tb: &TableDef) -> Vec<V> {
    for (i, v) in r.iter_mut().enumerate() {
        if !sql_expressible(v) {
            *v = simple_value(&tb.cols[i].ty);
        }
    }
    r
}

// ---------------------------------------------------------------------------------------------
// execution of a description

pub struct Built {
    pub db: Database,
    /// one line per history step with its outcome
    pub log: Vec<String>,
    pub api_rows: usize,
    pub dml_errors: usize,
}

/// Apply the description to a fresh database. Err = the history panicked inside the engine (the
/// case is then discarded: such a panic is the subject of other properties).
pub fn build_db(spec: &DbSpec) -> Result<Built, String> {
    let mut db = Database::new();
    let mut log = Vec::new();
    let mut api_rows = 0;
    let mut dml_errors = 0;
    if let Some(raw) = &spec.raw {
        for st in raw {
            match catch(|| engine::exec(&mut db, st)) {
                Ok(Ok(_)) => log.push(format!("{};", st)),
                Ok(Err(e)) => {
                    dml_errors += 1;
                    log.push(format!("{}; -- {}", st, e.text()))
                }
                Err(p) => return Err(format!("`{}` panicked: {}", st, p)),
            }
        }
        return Ok(Built { db, log, api_rows, dml_errors });
    }
    for tb in &spec.tables {
        let sql = tb.create_sql();
        if tb.cols.iter().any(|c| matches!(c.ty, Ty::Dec(..))) {
            // the parser maps DECIMAL to NUMERIC, so a DataType::Decimal column only comes from the
            // table API: take the schema CREATE TABLE builds, put the declared type back, create it
            let mut scratch = Database::new();
            let schema = match catch(|| engine::exec(&mut scratch, &sql)) {
                Ok(Ok(_)) => scratch.catalog.get_table(&tb.name).cloned(),
                Ok(Err(e)) => return Err(format!("setup `{}` refused: {}", sql, e.text())),
                Err(p) => return Err(format!("setup `{}` panicked: {}", sql, p)),
            };
            let Some(mut schema) = schema else { return Err(format!("setup `{}`: table not in catalog", sql)) };
            for (col, c) in schema.columns.iter_mut().zip(tb.cols.iter()) {
                if let Ty::Dec(p, sc) = c.ty {
                    col.data_type = vibesql_types::DataType::Decimal { precision: p, scale: sc };
                }
            }
            match catch(|| db.create_table(schema)) {
                Ok(Ok(_)) => log.push(format!("{}; -- through Database::create_table, DECIMAL columns as DataType::Decimal", sql)),
                Ok(Err(e)) => return Err(format!("create_table for `{}` refused: {:?}", sql, e)),
                Err(p) => return Err(format!("create_table for `{}` panicked: {}", sql, p)),
            }
            continue;
        }
        match catch(|| engine::exec(&mut db, &sql)) {
            Ok(Ok(_)) => log.push(format!("{};", sql)),
            Ok(Err(e)) => return Err(format!("setup `{}` refused: {}", sql, e.text())),
            Err(p) => return Err(format!("setup `{}` panicked: {}", sql, p)),
        }
    }
    for op in &spec.history {
        match op {
            Op::InsertApi { table, rows } => {
                let tb = &spec.tables[*table];
                for r in rows {
                    let vals: Vec<SqlValue> = r.iter().zip(tb.cols.iter()).map(|(v, c)| to_sql_value(v, &c.ty)).collect();
                    let shown = vals.iter().map(engine::val_text).collect::<Vec<_>>().join(", ");
                    match catch(|| db.insert_row(&tb.name, Row::new(vals))) {
                        Ok(Ok(())) => {
                            api_rows += 1;
                            log.push(format!("-- insert_row({}, [{}])", tb.name, shown));
                        }
                        Ok(Err(e)) => {
                            dml_errors += 1;
                            log.push(format!("-- insert_row({}, [{}]) refused: {:?}", tb.name, shown, e));
                        }
                        Err(p) => return Err(format!("insert_row panicked: {}", p)),
                    }
                }
            }
            other => {
                let sql = op_sql(other, spec).unwrap();
                match catch(|| engine::exec(&mut db, &sql)) {
                    Ok(Ok(_)) => log.push(format!("{};", sql)),
                    Ok(Err(e)) => {
                        dml_errors += 1;
                        log.push(format!("{}; -- refused: {}", sql, vcore::runner::truncate(&e.text(), 200)));
                    }
                    Err(p) => return Err(format!("`{}` panicked: {}", vcore::runner::truncate(&sql, 300), p)),
                }
            }
        }
    }
    Ok(Built { db, log, api_rows, dml_errors })
}

pub fn render(spec: &DbSpec) -> String {
    if let Some(raw) = &spec.raw {
        return raw.join(";\n");
    }
    let mut s: Vec<String> = spec.tables.iter().map(|t| t.create_sql()).collect();
    for op in &spec.history {
        match op {
            Op::InsertApi { table, rows } => {
                let tb = &spec.tables[*table];
                for r in rows {
                    let vals: Vec<String> = r.iter().zip(tb.cols.iter()).map(|(v, c)| engine::val_text(&to_sql_value(v, &c.ty))).collect();
                    s.push(format!("-- Database::insert_row({}, [{}])", tb.name, vals.join(", ")));
                }
            }
            other => s.push(op_sql(other, spec).unwrap()),
        }
    }
    s.join(";\n")
}
