//! chk_persist — checks for the persistence properties
//!   C18: native save/load (binary, compressed, JSON) round-trips the database
//!   C19: the SQL dump round-trips table contents
//!   C20: loading damaged files fails cleanly
//!
//! Run through the `chk_persist` binary (same command line as `vcheck`).

pub mod alloc;
pub mod c18;
pub mod c19;
pub mod c20;
pub mod cmp;
pub mod gen;
pub mod guard;

pub use c18::C18;
pub use c19::C19;
pub use c20::C20;
