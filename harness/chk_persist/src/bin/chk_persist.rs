//! chk_persist <ID> quick|thorough|--replay <file> [--cases N] [--strict] [--survey] [--focus s]
//! chk_persist --worker <ID>          — child mode (isolated checks)

use vcore::runner::{parse_args, run_check};

#[global_allocator]
static ALLOC: chk_persist::alloc::Counting = chk_persist::alloc::Counting;

macro_rules! dispatch {
    ($id:expr, $f:ident ( $($extra:expr),* )) => {
        match $id {
            "C18" => $f(chk_persist::C18, $($extra),*),
            "C19" => $f(chk_persist::C19, $($extra),*),
            "C20" => $f(chk_persist::C20, $($extra),*),
            other => {
                eprintln!("unknown property id {}", other);
                2
            }
        }
    };
}

fn worker<C: vcore::Check>(c: C) -> i32 {
    let root = std::env::var("VERIF_ROOT").unwrap_or_else(|_| "/verif".into());
    if std::env::var("VERIF_STRICT").is_err() {
        let k = vcore::kf::KnownFindings::load(&std::path::Path::new(&root).join("known_findings.json"), c.id());
        vcore::kf::set_open_sigs(k.open_signatures());
    }
    if c.id() == "C20" {
        // watchdog thread + SIGABRT handler (see chk_persist::guard)
        chk_persist::guard::install();
    }
    vcore::isolate::worker_main(c)
}

fn run<C: vcore::Check>(c: C, args: vcore::Args) -> i32 {
    run_check(c, args)
}

fn main() {
    chk_persist::alloc::mark_installed();
    let argv: Vec<String> = std::env::args().skip(1).collect();
    let code = if argv.first().map(|s| s == "--worker").unwrap_or(false) {
        let id = argv.get(1).cloned().unwrap_or_default();
        dispatch!(id.as_str(), worker())
    } else {
        match parse_args(&argv) {
            Err(e) => {
                eprintln!("{}", e);
                2
            }
            Ok(args) => {
                let id = args.id.clone();
                dispatch!(id.as_str(), run(args))
            }
        }
    };
    std::process::exit(code);
}
