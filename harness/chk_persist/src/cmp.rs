//! Snapshots of a database, comparison, attribution of a round-trip failure to a single column
//! type or a single stored value, the index-probe battery, temp directories and the four formats.

use crate::gen::{features, ty_class, type_label};
use serde::{Deserialize, Serialize};
use std::collections::BTreeMap;
use std::path::{Path, PathBuf};
use std::sync::atomic::{AtomicU64, Ordering};
use vcore::engine;
use vcore::runner::{catch, panic_sig, truncate};
use vibesql_catalog::{ColumnSchema, TableSchema};
use vibesql_storage::{Database, Row};
use vibesql_types::SqlValue;

// ---------------------------------------------------------------------------------------------
// formats

#[derive(Clone, Copy, Debug, PartialEq, Eq, Hash, Serialize, Deserialize)]
pub enum Fmt {
    Binary,
    Compressed,
    Json,
    Sql,
}

impl Fmt {
    pub fn name(self) -> &'static str {
        match self {
            Fmt::Binary => "binary",
            Fmt::Compressed => "compressed",
            Fmt::Json => "json",
            Fmt::Sql => "sql",
        }
    }
    /// binary and compressed share writer and reader (compressed = zstd of the same stream)
    pub fn codec(self) -> &'static str {
        match self {
            Fmt::Binary | Fmt::Compressed => "bin",
            Fmt::Json => "json",
            Fmt::Sql => "sql",
        }
    }
    pub fn ext(self) -> &'static str {
        match self {
            Fmt::Binary => "vbsql",
            Fmt::Compressed => "vbsqlz",
            Fmt::Json => "json",
            Fmt::Sql => "sql",
        }
    }
    pub fn index(self) -> usize {
        match self {
            Fmt::Binary => 0,
            Fmt::Compressed => 1,
            Fmt::Json => 2,
            Fmt::Sql => 3,
        }
    }
}

/// Save with the format's writer. Err(text) = the writer refused; a panic is reported as
/// Err starting with "PANIC ".
pub fn save(db: &Database, fmt: Fmt, path: &Path) -> Result<(), String> {
    let r = catch(|| match fmt {
        Fmt::Binary => db.save_binary(path).map_err(|e| format!("{:?}", e)),
        Fmt::Compressed => db.save_compressed(path).map_err(|e| format!("{:?}", e)),
        Fmt::Json => db.save_json(path).map_err(|e| format!("{:?}", e)),
        Fmt::Sql => db.save_sql_dump(path).map_err(|e| format!("{:?}", e)),
    });
    match r {
        Ok(r) => r,
        Err(p) => Err(format!("PANIC {}", p)),
    }
}

pub fn load(fmt: Fmt, path: &Path) -> Result<Database, String> {
    let r = catch(|| match fmt {
        Fmt::Binary => Database::load_binary(path).map_err(|e| format!("{:?}", e)),
        Fmt::Compressed => Database::load_compressed(path).map_err(|e| format!("{:?}", e)),
        Fmt::Json => Database::load_json(path).map_err(|e| format!("{:?}", e)),
        Fmt::Sql => vibesql_executor::load_sql_dump(path).map_err(|e| format!("{:?}", e)),
    });
    match r {
        Ok(r) => r,
        Err(p) => Err(format!("PANIC {}", p)),
    }
}

// ---------------------------------------------------------------------------------------------
// temp directories

static DIR_COUNTER: AtomicU64 = AtomicU64::new(0);

pub fn tmp_base(id: &str) -> PathBuf {
    std::env::var("VERIF_PERSIST_TMP").map(PathBuf::from).unwrap_or_else(|_| PathBuf::from("/verif/target/tmp")).join(id.to_lowercase())
}

pub struct TmpDir(pub PathBuf);
impl TmpDir {
    pub fn new(id: &str) -> Result<TmpDir, String> {
        let n = DIR_COUNTER.fetch_add(1, Ordering::Relaxed);
        let p = tmp_base(id).join(format!("{}-{}", std::process::id(), n));
        let _ = std::fs::remove_dir_all(&p);
        std::fs::create_dir_all(&p).map_err(|e| format!("cannot create {}: {}", p.display(), e))?;
        Ok(TmpDir(p))
    }
    pub fn file(&self, name: &str) -> PathBuf {
        self.0.join(name)
    }
}
impl Drop for TmpDir {
    fn drop(&mut self) {
        let _ = std::fs::remove_dir_all(&self.0);
    }
}

/// remove directories left behind by dead processes
pub fn sweep_stale(id: &str) {
    if let Ok(rd) = std::fs::read_dir(tmp_base(id)) {
        for e in rd.filter_map(|e| e.ok()) {
            let name = e.file_name().to_string_lossy().to_string();
            if let Some(pid) = name.split('-').next().and_then(|p| p.parse::<u32>().ok()) {
                if pid != std::process::id() && !Path::new(&format!("/proc/{}", pid)).exists() {
                    let _ = std::fs::remove_dir_all(e.path());
                }
            }
        }
    }
}

// ---------------------------------------------------------------------------------------------
// snapshots

#[derive(Clone, Debug, PartialEq)]
pub struct ColSnap {
    pub name: String,
    pub ty: String,
    pub label: &'static str,
    pub nullable: bool,
}

#[derive(Clone, Debug)]
pub struct TableSnap {
    pub cols: Vec<ColSnap>,
    pub rows: Vec<Vec<SqlValue>>,
}

#[derive(Clone, Debug, PartialEq)]
pub struct IndexSnap {
    pub table: String,
    pub unique: bool,
    /// (column, "Asc"/"Desc", prefix length)
    pub cols: Vec<(String, String, Option<u64>)>,
}

#[derive(Clone, Debug)]
pub struct Snap {
    pub tables: BTreeMap<String, TableSnap>,
    pub indexes: BTreeMap<String, IndexSnap>,
}

pub fn snapshot(db: &Database) -> Snap {
    let mut tables = BTreeMap::new();
    for n in db.list_tables() {
        if let Some(t) = db.get_table(&n) {
            let cols = t
                .schema
                .columns
                .iter()
                .map(|c| ColSnap { name: c.name.clone(), ty: format!("{:?}", c.data_type), label: type_label(&c.data_type), nullable: c.nullable })
                .collect();
            let rows = t.scan().iter().map(|r| r.values.clone()).collect();
            tables.insert(n.to_uppercase(), TableSnap { cols, rows });
        }
    }
    let mut indexes = BTreeMap::new();
    for n in db.list_indexes() {
        if let Some(m) = db.get_index(&n) {
            indexes.insert(
                n.to_uppercase(),
                IndexSnap {
                    table: m.table_name.to_uppercase(),
                    unique: m.unique,
                    cols: m.columns.iter().map(|c| (c.column_name.to_uppercase(), format!("{:?}", c.direction), c.prefix_length)).collect(),
                },
            );
        }
    }
    Snap { tables, indexes }
}

/// Exact identity of a value: type tag + bit pattern, except that every NaN of a type is the
/// same value (NaN equals NaN; payload and sign of a NaN are not demanded), -0.0 differs from 0.0.
pub fn vkey(v: &SqlValue) -> String {
    match v {
        SqlValue::Double(f) if f.is_nan() => "D:NaN".into(),
        SqlValue::Numeric(f) if f.is_nan() => "N:NaN".into(),
        SqlValue::Float(f) if f.is_nan() => "F:NaN".into(),
        SqlValue::Real(f) if f.is_nan() => "R:NaN".into(),
        other => engine::val_text(other),
    }
}

pub fn row_key(r: &[SqlValue]) -> String {
    r.iter().map(vkey).collect::<Vec<_>>().join("|")
}

#[derive(Clone, Debug)]
pub struct Diff {
    /// "tables" | "column.name" | "column.type.<label>" | "column.nullable" | "rows.count" | "rows.value"
    pub kind: String,
    pub detail: String,
}

/// Compare table names, columns and row multisets (bit-exact values).
pub fn diff_tables(a: &Snap, b: &Snap) -> Option<Diff> {
    let an: Vec<&String> = a.tables.keys().collect();
    let bn: Vec<&String> = b.tables.keys().collect();
    if an != bn {
        return Some(Diff { kind: "tables".into(), detail: format!("table names before {:?}, after {:?}", an, bn) });
    }
    for (name, ta) in &a.tables {
        let tb = &b.tables[name];
        if ta.cols.len() != tb.cols.len() {
            return Some(Diff { kind: "column.count".into(), detail: format!("table {}: {} columns before, {} after", name, ta.cols.len(), tb.cols.len()) });
        }
        for (ca, cb) in ta.cols.iter().zip(tb.cols.iter()) {
            if ca.name != cb.name {
                return Some(Diff { kind: "column.name".into(), detail: format!("table {}: column {} became {}", name, ca.name, cb.name) });
            }
            if ca.ty != cb.ty {
                return Some(Diff { kind: format!("column.type.{}", ca.label), detail: format!("table {}: column {} type {} became {}", name, ca.name, ca.ty, cb.ty) });
            }
            if ca.nullable != cb.nullable {
                return Some(Diff { kind: "column.nullable".into(), detail: format!("table {}: column {} nullable {} became {}", name, ca.name, ca.nullable, cb.nullable) });
            }
        }
    }
    for (name, ta) in &a.tables {
        let tb = &b.tables[name];
        let mut ra: Vec<String> = ta.rows.iter().map(|r| row_key(r)).collect();
        let mut rb: Vec<String> = tb.rows.iter().map(|r| row_key(r)).collect();
        ra.sort();
        rb.sort();
        if ra != rb {
            let only_a: Vec<&String> = ra.iter().filter(|r| !rb.contains(r)).take(4).collect();
            let only_b: Vec<&String> = rb.iter().filter(|r| !ra.contains(r)).take(4).collect();
            let kind = if ra.len() != rb.len() { "rows.count" } else { "rows.value" };
            return Some(Diff {
                kind: kind.into(),
                detail: format!("table {}: {} rows before, {} after\n only before: {:#?}\n only after: {:#?}", name, ra.len(), rb.len(), only_a, only_b),
            });
        }
    }
    None
}

/// Compare index definitions. kind: "missing" | "extra" | "table" | "unique" | "columns" | "direction" | "prefix_length"
pub fn diff_indexes(a: &Snap, b: &Snap) -> Option<Diff> {
    for (n, ia) in &a.indexes {
        let Some(ib) = b.indexes.get(n) else {
            return Some(Diff { kind: "missing".into(), detail: format!("index {} ({:?}) does not exist after loading", n, ia) });
        };
        if ia == ib {
            continue;
        }
        let kind = if ia.table != ib.table {
            "table"
        } else if ia.unique != ib.unique {
            "unique"
        } else if ia.cols.iter().map(|c| &c.0).collect::<Vec<_>>() != ib.cols.iter().map(|c| &c.0).collect::<Vec<_>>() {
            "columns"
        } else if ia.cols.iter().map(|c| &c.1).collect::<Vec<_>>() != ib.cols.iter().map(|c| &c.1).collect::<Vec<_>>() {
            "direction"
        } else {
            "prefix_length"
        };
        return Some(Diff { kind: kind.into(), detail: format!("index {}: before {:?}\n after {:?}", n, ia, ib) });
    }
    for n in b.indexes.keys() {
        if !a.indexes.contains_key(n) {
            return Some(Diff { kind: "extra".into(), detail: format!("index {} exists only after loading", n) });
        }
    }
    None
}

/// Short, digit-free class of an error text.
pub fn err_class(msg: &str) -> String {
    if let Some(p) = msg.strip_prefix("PANIC ") {
        return panic_sig(p);
    }
    let mut out = String::new();
    let mut last_us = true;
    for ch in msg.chars() {
        if ch == '\n' {
            break;
        }
        if ch.is_ascii_alphabetic() {
            out.push(ch.to_ascii_lowercase());
            last_us = false;
        } else if !last_us {
            out.push('_');
            last_us = true;
        }
        if out.len() >= 48 {
            break;
        }
    }
    out.trim_matches('_').to_string()
}

// ---------------------------------------------------------------------------------------------
// attribution

#[derive(Clone, Debug)]
pub struct Culprit {
    /// "type.<label>.<effect>" or "value.<class>.<feature>.<effect>"
    pub sig: String,
    pub detail: String,
}

fn single_col_db(col: &ColumnSchema, value: Option<&SqlValue>) -> Result<Database, String> {
    let mut db = Database::new();
    let c = ColumnSchema { name: "C".into(), data_type: col.data_type.clone(), nullable: true, default_value: None };
    db.create_table(TableSchema::new("X".into(), vec![c])).map_err(|e| format!("{:?}", e))?;
    if let Some(v) = value {
        db.insert_row("X", Row::new(vec![v.clone()])).map_err(|e| format!("{:?}", e))?;
    }
    Ok(db)
}

/// Find a single column type, or a single stored value, whose one-column database already fails
/// the round trip `rt`. Used only to name the trigger of a failure that was detected on the whole
/// database; None = the failure needs a combination.
pub fn attribute(orig: &Database, rt: &dyn Fn(&Database) -> Result<Database, String>) -> Option<Culprit> {
    let mut names = orig.list_tables();
    names.sort();
    // 1. column types alone (empty table)
    let mut seen_types: Vec<String> = Vec::new();
    for n in &names {
        let Some(t) = orig.get_table(n) else { continue };
        for c in &t.schema.columns {
            let key = format!("{:?}", c.data_type);
            if seen_types.contains(&key) {
                continue;
            }
            seen_types.push(key.clone());
            let Ok(db) = single_col_db(c, None) else { continue };
            let label = type_label(&c.data_type);
            match rt(&db) {
                Err(e) => {
                    return Some(Culprit { sig: format!("type.{}.load_error", label), detail: format!("an empty table with one column of type {} does not load: {}", key, truncate(&e, 600)) })
                }
                Ok(l) => {
                    if let Some(d) = diff_tables(&snapshot(&db), &snapshot(&l)) {
                        return Some(Culprit { sig: format!("type.{}.changed", label), detail: format!("an empty table with one column of type {}: {}", key, d.detail) });
                    }
                }
            }
        }
    }
    // 2. single values, alone
    let mut seen: Vec<(ColumnSchema, SqlValue)> = Vec::new();
    for n in &names {
        let Some(t) = orig.get_table(n) else { continue };
        for r in t.scan() {
            for (j, v) in r.values.iter().enumerate() {
                if matches!(v, SqlValue::Null) {
                    continue;
                }
                let c = &t.schema.columns[j];
                if seen.iter().any(|(sc, sv)| sc.data_type == c.data_type && vkey(sv) == vkey(v)) {
                    continue;
                }
                seen.push((c.clone(), v.clone()));
            }
        }
    }
    for (c, v) in &seen {
        let Ok(db) = single_col_db(c, Some(v)) else { continue };
        let cls = ty_class(&c.data_type);
        let feat = features(v)[0];
        let shown = format!("{} in a column of type {:?}", engine::val_text(v), c.data_type);
        match rt(&db) {
            Err(e) => return Some(Culprit { sig: format!("value.{}.{}.load_error", cls, feat), detail: format!("a one-row table holding {} does not load: {}", shown, truncate(&e, 600)) }),
            Ok(l) => {
                if let Some(d) = diff_tables(&snapshot(&db), &snapshot(&l)) {
                    let after = l.get_table("X").and_then(|t| t.scan().first().map(|r| r.values.clone())).unwrap_or_default();
                    let effect = if d.kind == "rows.count" { "row_count" } else { value_effect(v, after.first()) };
                    // a finite float that comes back a few ulps off: the trigger is "a finite
                    // float outside the reader's exact range", whatever else the value is
                    let feat = if effect == "off_by_ulps" { "finite" } else { feat };
                    return Some(Culprit { sig: format!("value.{}.{}.{}", cls, feat, effect), detail: format!("a one-row table holding {}: {}", shown, d.detail) });
                }
            }
        }
    }
    // 3. single values followed by other statements: the value twice in X, then a second table Y
    for (c, v) in &seen {
        let Ok(mut db) = single_col_db(c, Some(v)) else { continue };
        if db.insert_row("X", Row::new(vec![v.clone()])).is_err() {
            continue;
        }
        let y = ColumnSchema { name: "K".into(), data_type: vibesql_types::DataType::Integer, nullable: true, default_value: None };
        if db.create_table(TableSchema::new("Y".into(), vec![y])).is_err() || db.insert_row("Y", Row::new(vec![SqlValue::Integer(7)])).is_err() {
            continue;
        }
        let cls = ty_class(&c.data_type);
        let feat = features(v)[0];
        let shown = format!("{} in a column of type {:?}", engine::val_text(v), c.data_type);
        let what = "table X holding the value in two rows, followed by table Y (K INTEGER) with one row";
        match rt(&db) {
            Err(e) => return Some(Culprit { sig: format!("value.{}.{}.breaks_following_statements", cls, feat), detail: format!("{} = {}: does not load: {}", what, shown, truncate(&e, 600)) }),
            Ok(l) => {
                if let Some(d) = diff_tables(&snapshot(&db), &snapshot(&l)) {
                    let effect = "breaks_following_statements";
                    return Some(Culprit { sig: format!("value.{}.{}.{}", cls, feat, effect), detail: format!("{} = {}: {}", what, shown, d.detail) });
                }
            }
        }
    }
    None
}

/// How a single value changed: became_null / off_by_ulps / sign_lost / padding / type_changed / changed
fn value_effect(before: &SqlValue, after: Option<&SqlValue>) -> &'static str {
    let Some(after) = after else { return "changed" };
    if matches!(after, SqlValue::Null) {
        return "became_null";
    }
    if std::mem::discriminant(before) != std::mem::discriminant(after) {
        return "type_changed";
    }
    let fl = |v: &SqlValue| match v {
        SqlValue::Double(f) | SqlValue::Numeric(f) => Some(*f),
        SqlValue::Float(f) | SqlValue::Real(f) => Some(*f as f64),
        _ => None,
    };
    if let (Some(a), Some(b)) = (fl(before), fl(after)) {
        if a == b {
            return "sign_lost";
        }
        if a.is_finite() && b.is_finite() {
            let is32 = matches!(before, SqlValue::Float(_) | SqlValue::Real(_));
            let ulps = if is32 { ((a as f32).to_bits() as i64 - (b as f32).to_bits() as i64).abs() } else { (a.to_bits() as i64).wrapping_sub(b.to_bits() as i64).abs() };
            if ulps <= 8 {
                return "off_by_ulps";
            }
        }
        return "changed";
    }
    if let (SqlValue::Character(a) | SqlValue::Varchar(a), SqlValue::Character(b) | SqlValue::Varchar(b)) = (before, after) {
        if a.trim_end_matches(' ') == b.trim_end_matches(' ') {
            return "padding";
        }
    }
    "changed"
}

// ---------------------------------------------------------------------------------------------
// index probes

/// SQL literal of a stored value for a probe predicate; None when SQL text cannot express it.
pub fn probe_lit(v: &SqlValue) -> Option<String> {
    Some(match v {
        SqlValue::Null => return None,
        SqlValue::Integer(i) | SqlValue::Bigint(i) => i.to_string(),
        SqlValue::Smallint(i) => i.to_string(),
        SqlValue::Unsigned(u) => u.to_string(),
        SqlValue::Numeric(f) | SqlValue::Double(f) => {
            if !f.is_finite() {
                return None;
            }
            format!("{:?}", f)
        }
        SqlValue::Float(f) | SqlValue::Real(f) => {
            if !f.is_finite() {
                return None;
            }
            format!("{:?}", *f as f64)
        }
        SqlValue::Character(s) | SqlValue::Varchar(s) => format!("'{}'", s.replace('\'', "''")),
        SqlValue::Boolean(b) => if *b { "TRUE" } else { "FALSE" }.into(),
        SqlValue::Date(d) => format!("DATE '{}'", d),
        SqlValue::Time(t) => format!("TIME '{}'", t),
        SqlValue::Timestamp(t) => format!("TIMESTAMP '{}'", t),
        SqlValue::Interval(_) => return None,
    })
}

#[derive(Clone, Debug)]
pub struct Probe {
    pub sql: String,
    /// "eq" | "lt" | "ge" | "between" | "in" | "order_by"
    pub kind: &'static str,
    /// position of the ORDER BY column in `SELECT *` (order_by probes only)
    pub order_col: Option<usize>,
}

/// The battery: for every column of every index, = < >= BETWEEN IN with literals taken from the
/// stored values (minimum, median, maximum of the distinct non-null values) and ORDER BY.
pub fn probes(db: &Database) -> Vec<Probe> {
    let mut out: Vec<Probe> = Vec::new();
    let mut done: Vec<(String, String)> = Vec::new();
    let mut names = db.list_indexes();
    names.sort();
    for n in names {
        let Some(m) = db.get_index(&n) else { continue };
        let Some(t) = db.get_table(&m.table_name) else { continue };
        for ic in &m.columns {
            let key = (m.table_name.to_uppercase(), ic.column_name.to_uppercase());
            if done.contains(&key) {
                continue;
            }
            done.push(key);
            let Some(j) = t.schema.columns.iter().position(|c| c.name.eq_ignore_ascii_case(&ic.column_name)) else { continue };
            let mut vals: Vec<SqlValue> = t.scan().iter().map(|r| r.values[j].clone()).filter(|v| probe_lit(v).is_some()).collect();
            vals.sort();
            vals.dedup_by(|a, b| vkey(a) == vkey(b));
            let tn = &m.table_name;
            let cn = &ic.column_name;
            if !vals.is_empty() {
                let lo = probe_lit(&vals[0]).unwrap();
                let mid = probe_lit(&vals[vals.len() / 2]).unwrap();
                let hi = probe_lit(&vals[vals.len() - 1]).unwrap();
                out.push(Probe { sql: format!("SELECT * FROM {} WHERE {} = {}", tn, cn, mid), kind: "eq", order_col: None });
                out.push(Probe { sql: format!("SELECT * FROM {} WHERE {} < {}", tn, cn, mid), kind: "lt", order_col: None });
                out.push(Probe { sql: format!("SELECT * FROM {} WHERE {} >= {}", tn, cn, mid), kind: "ge", order_col: None });
                out.push(Probe { sql: format!("SELECT * FROM {} WHERE {} BETWEEN {} AND {}", tn, cn, lo, hi), kind: "between", order_col: None });
                out.push(Probe { sql: format!("SELECT * FROM {} WHERE {} IN ({}, {})", tn, cn, lo, hi), kind: "in", order_col: None });
            }
            let dir = if format!("{:?}", ic.direction) == "Desc" { "DESC" } else { "ASC" };
            out.push(Probe { sql: format!("SELECT * FROM {} ORDER BY {} {}", tn, cn, dir), kind: "order_by", order_col: Some(j) });
        }
    }
    out
}

/// Result of a probe: Ok(rows) or Err(class of the error)
pub fn run_probe(db: &Database, p: &Probe) -> Result<Vec<Vec<SqlValue>>, String> {
    match catch(|| engine::query_raw(db, &p.sql)) {
        Ok(Ok(rows)) => Ok(rows.into_iter().map(|r| r.values).collect()),
        Ok(Err(e)) => Err(e.text()),
        Err(p) => Err(format!("PANIC {}", p)),
    }
}

/// Key of an ORDER BY column up to the ties the engine's index order has.
fn order_key(v: &SqlValue) -> String {
    let num = |f: f64| if f.is_nan() { "nan".to_string() } else if f == 0.0 { "0".to_string() } else { format!("{:e}", f) };
    match v {
        SqlValue::Integer(i) | SqlValue::Bigint(i) => num(*i as f64),
        SqlValue::Smallint(i) => num(*i as f64),
        SqlValue::Unsigned(u) => num(*u as f64),
        SqlValue::Numeric(f) | SqlValue::Double(f) => num(*f),
        SqlValue::Float(f) | SqlValue::Real(f) => num(*f as f64),
        SqlValue::Character(s) | SqlValue::Varchar(s) => format!("s:{}", s.trim_end_matches(' ')),
        other => engine::val_text(other),
    }
}

/// None = same answer. Some(shape) with shape in missing_rows / extra_rows / values / order / error
pub fn probe_diff(p: &Probe, a: &Result<Vec<Vec<SqlValue>>, String>, b: &Result<Vec<Vec<SqlValue>>, String>) -> Option<&'static str> {
    match (a, b) {
        (Err(_), Err(_)) => None,
        (Ok(_), Err(_)) | (Err(_), Ok(_)) => Some("error"),
        (Ok(x), Ok(y)) => {
            let mut kx: Vec<String> = x.iter().map(|r| row_key(r)).collect();
            let mut ky: Vec<String> = y.iter().map(|r| row_key(r)).collect();
            if let Some(j) = p.order_col {
                // ORDER BY one column is not a total order, and the engine's indexes compare numeric
                // keys as f64 (2^53 and 2^53+1 tie) and order ties by row position, which differs
                // legitimately between the two databases: the sequences of *normalised* keys must agree
                let sx: Vec<String> = x.iter().map(|r| order_key(&r[j])).collect();
                let sy: Vec<String> = y.iter().map(|r| order_key(&r[j])).collect();
                if x.len() == y.len() && sx != sy {
                    kx.sort();
                    ky.sort();
                    if kx == ky {
                        return Some("order");
                    }
                }
            }
            kx.sort();
            ky.sort();
            if kx == ky {
                None
            } else if ky.len() < kx.len() {
                Some("missing_rows")
            } else if ky.len() > kx.len() {
                Some("extra_rows")
            } else {
                Some("values")
            }
        }
    }
}

/// A clean rebuild of `db`: the same rows in the same order in fresh tables, then the same index
/// definitions created by `Database::create_index` (what CREATE INDEX calls). Reference for the
/// question "do the loaded indexes answer like indexes the engine builds over these rows".
pub fn rebuilt(db: &Database) -> Result<Database, String> {
    let mut out = Database::new();
    let mut names = db.list_tables();
    names.sort();
    for n in names {
        let Some(t) = db.get_table(&n) else { continue };
        let cols: Vec<ColumnSchema> = t.schema.columns.iter().map(|c| ColumnSchema { name: c.name.clone(), data_type: c.data_type.clone(), nullable: c.nullable, default_value: None }).collect();
        out.create_table(TableSchema::new(t.schema.name.clone(), cols)).map_err(|e| format!("{:?}", e))?;
        for r in t.scan() {
            out.insert_row(&t.schema.name, Row::new(r.values.clone())).map_err(|e| format!("{:?}", e))?;
        }
    }
    let mut ix = db.list_indexes();
    ix.sort();
    for n in ix {
        let Some(m) = db.get_index(&n) else { continue };
        out.create_index(m.index_name.clone(), m.table_name.clone(), m.unique, m.columns.clone()).map_err(|e| format!("{:?}", e))?;
    }
    Ok(out)
}

pub fn show_result(r: &Result<Vec<Vec<SqlValue>>, String>) -> String {
    match r {
        Err(e) => format!("  ERROR {}\n", truncate(e, 300)),
        Ok(rows) => {
            let mut s = String::new();
            for r in rows.iter().take(12) {
                s.push_str(&format!("  ({})\n", row_key(r)));
            }
            if rows.len() > 12 {
                s.push_str(&format!("  ... {} rows\n", rows.len()));
            }
            if rows.is_empty() {
                s.push_str("  (no rows)\n");
            }
            s
        }
    }
}
