//! chk_sec — checks for the security / cache properties
//!   C26: access control is complete and follows the GRANT/REVOKE history
//!   C25: the query result cache never serves a stale or foreign result
//!
//! Run through the `chk_sec` binary (same command line as `vcheck`).

pub mod c25;
pub mod c26;
pub mod dev;

pub use c25::C25;
pub use c26::C26;
