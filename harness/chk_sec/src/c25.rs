//! C25 — the query result cache never serves a stale or foreign result.
//!
//! The check is a cache *client* written exactly like the only in-repo user
//! (tests/sqllogictest/db_adapter.rs::execute_sql) and the library's documentation:
//!   SELECT: key = `QuerySignature::from_sql(text)`; `QueryResultCache::get`; on a miss execute,
//!           then `insert(key, rows, schema, extract_tables_from_select(stmt))`
//!           (the LIBRARY's extractor, cache/table_extractor.rs);
//!   INSERT / UPDATE / DELETE / DROP TABLE: `invalidate_table(stmt.table_name)`, then execute.
//! Every answer served from the cache is compared with an uncached execution of the same text on
//! the same database state (the twin).  Query texts come in confusable families: spellings that
//! must share an entry (keyword / identifier case, spacing) and siblings that differ in meaning
//! (case or inner whitespace of a string literal, case of a quoted identifier, a line comment
//! that ends at a newline), and the tables are referenced from every clause the extractor has to
//! cover (subqueries in WHERE / select list / HAVING / GROUP BY / ORDER BY / JOIN ON / CASE /
//! function arguments / CAST / BETWEEN / LIKE / IS NULL / NOT / quantified, nested subqueries,
//! joins, CTEs, derived tables, set-operation arms, views).

use serde::{Deserialize, Serialize};
use std::collections::BTreeMap;
use vcore::engine::{self, ExecErr};
use vcore::val::{multiset_eq, seq_eq, show_rows, CRow};
use vcore::{Check, GenCfg, Obs, Tape, Tier, Verdict};
use vibesql_ast::Statement;
use vibesql_executor::cache::{extract_tables_from_select, QueryResultCache, QuerySignature};
use vibesql_storage::{Database, Row};

pub struct C25;

// ---------------------------------------------------------------------------------------------
// case description

#[derive(Clone, Debug, Serialize, Deserialize)]
pub struct View {
    pub base: usize,
    pub filter: Option<i64>,
}

#[derive(Clone, Debug, Serialize, Deserialize)]
pub struct World {
    pub rows: Vec<Vec<(i64, String, i64)>>,
    pub views: Vec<View>,
}

/// literal groups: members of one group collide under lower-casing / whitespace collapsing
pub const GROUPS: &[&[&str]] = &[&["a", "A"], &["a b", "a  b"], &["ab", "AB", "Ab"], &["x y", "x\ty"], &["o'b  x", "o'b x"], &["o'B", "o'b"]];

fn group_kind(g: usize, i: usize, j: usize) -> &'static str {
    let (a, b) = (GROUPS[g][i], GROUPS[g][j]);
    if a.to_lowercase() == b.to_lowercase() {
        "literal_case"
    } else {
        "literal_whitespace"
    }
}

#[derive(Clone, Debug, PartialEq, Eq, Serialize, Deserialize)]
pub enum QShape {
    Plain { t: usize },
    LitItem { t: usize },
    InSub { h: usize, x: usize },
    NotInSub { h: usize, x: usize },
    ScalarItem { h: usize, x: usize },
    Exists { h: usize, x: usize },
    Quant { h: usize, x: usize },
    Join { h: usize, x: usize },
    JoinOnSub { h: usize, j: usize, x: usize },
    Cte { x: usize },
    CteInSub { h: usize, x: usize },
    View { v: usize },
    ViewInSub { h: usize, v: usize },
    SetOp { h: usize, x: usize, x_left: bool, op: u8 },
    Derived { x: usize },
    OrderBySub { h: usize, x: usize },
    GroupBySub { h: usize, x: usize },
    HavingSub { h: usize, x: usize },
    CaseSub { h: usize, x: usize },
    FuncArgSub { h: usize, x: usize },
    CastSub { h: usize, x: usize },
    BetweenSub { h: usize, x: usize },
    LikeSub { h: usize, x: usize },
    IsNullSub { h: usize, x: usize },
    Nested { h: usize, x: usize, y: usize },
    /// SELECT "k" FROM tq  /  SELECT "K" FROM tq   (the literal slot is unused)
    Quoted,
}

#[derive(Clone, Debug, Serialize, Deserialize)]
pub struct QSpec {
    pub shape: QShape,
    pub group: usize,
}

#[derive(Clone, Debug, PartialEq, Eq, Serialize, Deserialize)]
pub struct Spell {
    /// keywords: 0 UPPER 1 lower 2 Mixed
    pub kw: u8,
    pub ident_upper: bool,
    /// 0 single space, 1 double spaces, 2 newline / tab alternating
    pub ws: u8,
    /// Plain only: 0 none, 1 `-- c` + newline before WHERE, 2 `-- c` + space before WHERE (rest of the line is comment)
    pub comment: u8,
}

#[derive(Clone, Debug, Serialize, Deserialize)]
pub enum Write {
    Insert { t: usize, row: (i64, String, i64) },
    UpdateB { t: usize, a: i64, b: String },
    UpdateC { t: usize, a: i64, c: i64 },
    Delete { t: usize, a: Option<i64> },
    /// DROP TABLE t; CREATE TABLE t (...); INSERT new rows
    DropCreate { t: usize, rows: Vec<(i64, String, i64)> },
    /// DROP TABLE t (and nothing else: readers of t now fail)
    Drop { t: usize },
}

#[derive(Clone, Debug, Serialize, Deserialize)]
pub enum Step {
    /// variant: index into the literal group (or lower/upper for Quoted)
    Read { spec: usize, variant: usize, spell: Spell },
    Write(Write),
}

#[derive(Clone, Debug, Serialize, Deserialize)]
pub struct Case {
    pub world: World,
    pub specs: Vec<QSpec>,
    pub steps: Vec<Step>,
    #[serde(default)]
    pub excluded: u32,
}

// ---------------------------------------------------------------------------------------------
// rendering

fn tn(i: usize) -> String {
    format!("t{}", i)
}
fn tc(i: usize, c: char) -> String {
    format!("t{}_{}", i, c)
}
fn create_sql(i: usize) -> String {
    format!("CREATE TABLE {} ({} INTEGER, {} VARCHAR(12), {} INTEGER)", tn(i), tc(i, 'a'), tc(i, 'b'), tc(i, 'c'))
}
fn insert_sql(i: usize, rows: &[(i64, String, i64)]) -> String {
    format!("INSERT INTO {} VALUES {}", tn(i), rows.iter().map(|(a, b, c)| format!("({}, '{}', {})", a, b.replace('\'', "''"), c)).collect::<Vec<_>>().join(", "))
}

impl World {
    pub fn setup_sql(&self) -> Vec<String> {
        let mut v = Vec::new();
        for (i, rows) in self.rows.iter().enumerate() {
            v.push(create_sql(i));
            if !rows.is_empty() {
                v.push(insert_sql(i, rows));
            }
        }
        for (k, vw) in self.views.iter().enumerate() {
            let b = vw.base;
            v.push(format!(
                "CREATE VIEW v{} AS SELECT {}, {} FROM {}{}",
                k,
                tc(b, 'a'),
                tc(b, 'b'),
                tn(b),
                match vw.filter {
                    Some(f) => format!(" WHERE {} >= {}", tc(b, 'c'), f),
                    None => String::new(),
                }
            ));
        }
        v.push("CREATE TABLE tq (\"k\" INTEGER, \"K\" INTEGER)".into());
        v.push("INSERT INTO tq VALUES (1, 2), (3, 4)".into());
        v
    }
}

/// token kinds: keywords and identifiers get re-spelled, literals / quoted identifiers / symbols do not
#[derive(Clone, Debug)]
enum Tok {
    Kw(&'static str),
    Id(String),
    Raw(String),
    /// marks the position in front of WHERE where the Plain shape may carry a line comment
    CommentSlot,
}

fn kw(s: &'static str) -> Tok {
    Tok::Kw(s)
}
fn id(s: String) -> Tok {
    Tok::Id(s)
}
fn raw(s: &str) -> Tok {
    Tok::Raw(s.to_string())
}
fn lit_tok(s: &str) -> Tok {
    Tok::Raw(format!("'{}'", s.replace('\'', "''")))
}

/// `( SELECT <item> FROM x WHERE x_b = LIT )`
fn sub(x: usize, item: Vec<Tok>, lit: &str, extra: Vec<Tok>) -> Vec<Tok> {
    let mut v = vec![raw("("), kw("SELECT")];
    v.extend(item);
    v.extend([kw("FROM"), id(tn(x)), kw("WHERE")]);
    v.extend(extra);
    v.extend([id(tc(x, 'b')), raw("="), lit_tok(lit), raw(")")]);
    v
}

impl QSpec {
    /// tables the query depends on, with the way it references them
    pub fn deps(&self, w: &World) -> Vec<(usize, &'static str)> {
        use QShape::*;
        match &self.shape {
            Plain { t } | LitItem { t } => vec![(*t, "from")],
            InSub { h, x } | NotInSub { h, x } | Exists { h, x } | Quant { h, x } | BetweenSub { h, x } | LikeSub { h, x } | IsNullSub { h, x } => vec![(*h, "from"), (*x, "subquery_where")],
            ScalarItem { h, x } | CaseSub { h, x } | FuncArgSub { h, x } | CastSub { h, x } => vec![(*h, "from"), (*x, "subquery_select_list")],
            Join { h, x } => vec![(*h, "from"), (*x, "join")],
            JoinOnSub { h, j, x } => vec![(*h, "from"), (*j, "join"), (*x, "subquery_join_on")],
            Cte { x } => vec![(*x, "cte")],
            CteInSub { h, x } => vec![(*h, "from"), (*x, "cte")],
            View { v } => vec![(w.views[*v].base, "view")],
            ViewInSub { h, v } => vec![(*h, "from"), (w.views[*v].base, "view")],
            SetOp { h, x, .. } => vec![(*h, "set_op_arm"), (*x, "set_op_arm")],
            Derived { x } => vec![(*x, "derived")],
            OrderBySub { h, x } => vec![(*h, "from"), (*x, "subquery_order_by")],
            GroupBySub { h, x } => vec![(*h, "from"), (*x, "subquery_group_by")],
            HavingSub { h, x } => vec![(*h, "from"), (*x, "subquery_having")],
            Nested { h, x, y } => vec![(*h, "from"), (*x, "subquery_where"), (*y, "subquery_nested")],
            Quoted => vec![],
        }
    }

    fn ordered(&self) -> bool {
        matches!(self.shape, QShape::OrderBySub { .. })
    }

    fn tokens(&self, w: &World, variant: usize) -> Vec<Tok> {
        use QShape::*;
        let g = GROUPS[self.group % GROUPS.len()];
        let lit = g[variant % g.len()];
        let a = |i: usize| id(tc(i, 'a'));
        let b = |i: usize| id(tc(i, 'b'));
        let c = |i: usize| id(tc(i, 'c'));
        let t = |i: usize| id(tn(i));
        let mut v: Vec<Tok> = Vec::new();
        match &self.shape {
            Plain { t: i } => {
                v.extend([kw("SELECT"), a(*i), raw(","), b(*i), kw("FROM"), t(*i), Tok::CommentSlot, kw("WHERE"), b(*i), raw("="), lit_tok(lit)]);
            }
            LitItem { t: i } => v.extend([kw("SELECT"), lit_tok(lit), raw(","), a(*i), kw("FROM"), t(*i)]),
            InSub { h, x } => {
                v.extend([kw("SELECT"), a(*h), kw("FROM"), t(*h), kw("WHERE"), a(*h), kw("IN")]);
                v.extend(sub(*x, vec![a(*x)], lit, vec![]));
            }
            NotInSub { h, x } => {
                v.extend([kw("SELECT"), a(*h), kw("FROM"), t(*h), kw("WHERE"), kw("NOT"), raw("("), a(*h), kw("IN")]);
                v.extend(sub(*x, vec![a(*x)], lit, vec![]));
                v.push(raw(")"));
            }
            ScalarItem { h, x } => {
                v.extend([kw("SELECT"), a(*h), raw(",")]);
                v.extend(sub(*x, vec![raw("COUNT(*)")], lit, vec![]));
                v.extend([kw("FROM"), t(*h)]);
            }
            Exists { h, x } => {
                v.extend([kw("SELECT"), a(*h), kw("FROM"), t(*h), kw("WHERE"), kw("EXISTS")]);
                v.extend(sub(*x, vec![raw("1")], lit, vec![a(*x), raw("="), a(*h), kw("AND")]));
            }
            Quant { h, x } => {
                v.extend([kw("SELECT"), a(*h), kw("FROM"), t(*h), kw("WHERE"), a(*h), raw("="), kw("ANY")]);
                v.extend(sub(*x, vec![a(*x)], lit, vec![]));
            }
            Join { h, x } => v.extend([kw("SELECT"), a(*h), raw(","), b(*x), kw("FROM"), t(*h), kw("JOIN"), t(*x), kw("ON"), a(*h), raw("="), a(*x), kw("WHERE"), b(*x), raw("="), lit_tok(lit)]),
            JoinOnSub { h, j, x } => {
                v.extend([kw("SELECT"), a(*h), kw("FROM"), t(*h), kw("JOIN"), t(*j), kw("ON"), a(*h), raw("="), a(*j), kw("AND"), a(*h), kw("IN")]);
                v.extend(sub(*x, vec![a(*x)], lit, vec![]));
            }
            Cte { x } => {
                v.extend([kw("WITH"), id("q".into()), kw("AS")]);
                v.extend(sub(*x, vec![a(*x), raw(","), b(*x)], lit, vec![]));
                v.extend([kw("SELECT"), raw("*"), kw("FROM"), id("q".into())]);
            }
            CteInSub { h, x } => {
                v.extend([kw("WITH"), id("q".into()), kw("AS")]);
                v.extend(sub(*x, vec![a(*x)], lit, vec![]));
                v.extend([kw("SELECT"), a(*h), kw("FROM"), t(*h), kw("WHERE"), a(*h), kw("IN"), raw("("), kw("SELECT"), a(*x), kw("FROM"), id("q".into()), raw(")")]);
            }
            View { v: k } => {
                let bt = w.views[*k].base;
                v.extend([kw("SELECT"), raw("*"), kw("FROM"), id(format!("v{}", k)), kw("WHERE"), b(bt), raw("="), lit_tok(lit)]);
            }
            ViewInSub { h, v: k } => {
                let bt = w.views[*k].base;
                v.extend([kw("SELECT"), a(*h), kw("FROM"), t(*h), kw("WHERE"), a(*h), kw("IN"), raw("("), kw("SELECT"), a(bt), kw("FROM"), id(format!("v{}", k)), kw("WHERE"), b(bt), raw("="), lit_tok(lit), raw(")")]);
            }
            SetOp { h, x, x_left, op } => {
                let arm_h = vec![kw("SELECT"), b(*h), kw("FROM"), t(*h), kw("WHERE"), b(*h), raw("="), lit_tok(lit)];
                let arm_x = vec![kw("SELECT"), b(*x), kw("FROM"), t(*x)];
                let o = match op % 3 {
                    0 => vec![kw("UNION"), kw("ALL")],
                    1 => vec![kw("UNION")],
                    _ => vec![kw("EXCEPT")],
                };
                let (l, r) = if *x_left { (arm_x, arm_h) } else { (arm_h, arm_x) };
                v.extend(l);
                v.extend(o);
                v.extend(r);
            }
            Derived { x } => v.extend([
                kw("SELECT"),
                id(format!("d.{}", tc(*x, 'a'))),
                kw("FROM"),
                raw("("),
                kw("SELECT"),
                a(*x),
                raw(","),
                b(*x),
                kw("FROM"),
                t(*x),
                raw(")"),
                kw("AS"),
                id("d".into()),
                kw("WHERE"),
                id(format!("d.{}", tc(*x, 'b'))),
                raw("="),
                lit_tok(lit),
            ]),
            OrderBySub { h, x } => {
                v.extend([kw("SELECT"), a(*h), raw(","), c(*h), kw("FROM"), t(*h), kw("ORDER"), kw("BY")]);
                v.extend(sub(*x, vec![raw("COUNT(*)")], lit, vec![a(*x), raw("="), a(*h), kw("AND")]));
                v.extend([raw(","), a(*h), raw(","), c(*h)]);
            }
            GroupBySub { h, x } => {
                v.extend([kw("SELECT"), raw("COUNT(*)"), kw("FROM"), t(*h), kw("GROUP"), kw("BY"), a(*h), kw("IN")]);
                v.extend(sub(*x, vec![a(*x)], lit, vec![]));
            }
            HavingSub { h, x } => {
                v.extend([kw("SELECT"), a(*h), kw("FROM"), t(*h), kw("GROUP"), kw("BY"), a(*h), kw("HAVING"), a(*h), kw("IN")]);
                v.extend(sub(*x, vec![a(*x)], lit, vec![]));
            }
            CaseSub { h, x } => {
                v.extend([kw("SELECT"), a(*h), raw(","), kw("CASE"), kw("WHEN"), a(*h), kw("IN")]);
                v.extend(sub(*x, vec![a(*x)], lit, vec![]));
                v.extend([kw("THEN"), raw("1"), kw("ELSE"), raw("0"), kw("END"), kw("FROM"), t(*h)]);
            }
            FuncArgSub { h, x } => {
                v.extend([kw("SELECT"), a(*h), raw(","), kw("COALESCE"), raw("(")]);
                v.extend(sub(*x, vec![id(format!("MAX({})", tc(*x, 'c')))], lit, vec![]));
                v.extend([raw(","), raw("0"), raw(")"), kw("FROM"), t(*h)]);
            }
            CastSub { h, x } => {
                v.extend([kw("SELECT"), a(*h), raw(","), kw("CAST"), raw("(")]);
                v.extend(sub(*x, vec![id(format!("MAX({})", tc(*x, 'c')))], lit, vec![]));
                v.extend([kw("AS"), kw("INTEGER"), raw(")"), kw("FROM"), t(*h)]);
            }
            BetweenSub { h, x } => {
                v.extend([kw("SELECT"), a(*h), kw("FROM"), t(*h), kw("WHERE"), c(*h), kw("BETWEEN"), raw("0"), kw("AND")]);
                v.extend(sub(*x, vec![id(format!("MAX({})", tc(*x, 'c')))], lit, vec![]));
            }
            LikeSub { h, x } => {
                v.extend([kw("SELECT"), a(*h), kw("FROM"), t(*h), kw("WHERE"), b(*h), kw("LIKE")]);
                v.extend(sub(*x, vec![id(format!("MAX({})", tc(*x, 'b')))], lit, vec![]));
            }
            IsNullSub { h, x } => {
                v.extend([kw("SELECT"), a(*h), kw("FROM"), t(*h), kw("WHERE")]);
                v.extend(sub(*x, vec![id(format!("MAX({})", tc(*x, 'c')))], lit, vec![]));
                v.extend([kw("IS"), kw("NULL")]);
            }
            Nested { h, x, y } => {
                v.extend([kw("SELECT"), a(*h), kw("FROM"), t(*h), kw("WHERE"), a(*h), kw("IN"), raw("("), kw("SELECT"), a(*x), kw("FROM"), t(*x), kw("WHERE"), c(*x), kw("IN")]);
                v.extend(sub(*y, vec![c(*y)], lit, vec![]));
                v.push(raw(")"));
            }
            Quoted => v.extend([kw("SELECT"), raw(if variant % 2 == 0 { "\"k\"" } else { "\"K\"" }), kw("FROM"), id("tq".into())]),
        }
        v
    }

    pub fn text(&self, w: &World, variant: usize, sp: &Spell) -> String {
        let toks = self.tokens(w, variant);
        let plain = matches!(self.shape, QShape::Plain { .. });
        let comment = if plain { sp.comment % 3 } else { 0 };
        // a same-line comment must not meet a newline separator (the statement would mean something else)
        let ws = if comment == 2 && sp.ws % 3 == 2 { 0 } else { sp.ws % 3 };
        let mut out = String::new();
        let mut n = 0usize;
        let sep = |out: &mut String, n: &mut usize| {
            match ws {
                0 => out.push(' '),
                1 => out.push_str("  "),
                _ => out.push(if *n % 2 == 0 { '\n' } else { '\t' }),
            }
            *n += 1;
        };
        let mut first = true;
        let mut skip_sep = false;
        let mut kwn = 0usize;
        for tk in toks {
            let piece = match tk {
                Tok::Kw(s) => {
                    kwn += 1;
                    match sp.kw % 3 {
                        0 => s.to_string(),
                        1 => s.to_lowercase(),
                        _ => {
                            if kwn % 2 == 0 {
                                s.to_lowercase()
                            } else {
                                let mut c = s.chars();
                                let f = c.next().unwrap();
                                format!("{}{}", f, c.as_str().to_lowercase())
                            }
                        }
                    }
                }
                Tok::Id(s) => {
                    if sp.ident_upper {
                        s.to_uppercase()
                    } else {
                        s
                    }
                }
                Tok::Raw(s) => s,
                Tok::CommentSlot => {
                    match comment {
                        1 => {
                            out.push_str(" -- c\n");
                            skip_sep = true;
                        }
                        2 => out.push_str(" -- c"),
                        _ => {}
                    }
                    continue;
                }
            };
            if !first && !skip_sep {
                sep(&mut out, &mut n);
            }
            skip_sep = false;
            first = false;
            out.push_str(&piece);
        }
        out
    }
}

impl Write {
    pub fn table(&self) -> usize {
        match self {
            Write::Insert { t, .. } | Write::UpdateB { t, .. } | Write::UpdateC { t, .. } | Write::Delete { t, .. } | Write::DropCreate { t, .. } | Write::Drop { t } => *t,
        }
    }
    pub fn sql(&self) -> Vec<String> {
        match self {
            Write::Insert { t, row } => vec![insert_sql(*t, std::slice::from_ref(row))],
            Write::UpdateB { t, a, b } => vec![format!("UPDATE {} SET {} = '{}' WHERE {} = {}", tn(*t), tc(*t, 'b'), b.replace('\'', "''"), tc(*t, 'a'), a)],
            Write::UpdateC { t, a, c } => vec![format!("UPDATE {} SET {} = {} WHERE {} = {}", tn(*t), tc(*t, 'c'), c, tc(*t, 'a'), a)],
            Write::Delete { t, a } => vec![match a {
                Some(a) => format!("DELETE FROM {} WHERE {} = {}", tn(*t), tc(*t, 'a'), a),
                None => format!("DELETE FROM {}", tn(*t)),
            }],
            Write::DropCreate { t, rows } => {
                let mut v = vec![format!("DROP TABLE {}", tn(*t)), create_sql(*t)];
                if !rows.is_empty() {
                    v.push(insert_sql(*t, rows));
                }
                v
            }
            Write::Drop { t } => vec![format!("DROP TABLE {}", tn(*t))],
        }
    }
}

// ---------------------------------------------------------------------------------------------
// the cache client (mirrors db_adapter.rs::execute_sql)

struct Client {
    db: Database,
    cache: QueryResultCache,
}

enum ReadOutcome {
    Hit(Vec<Row>),
    Miss(Result<Vec<Row>, String>),
}

impl Client {
    fn read(&mut self, sql: &str) -> Result<ReadOutcome, String> {
        let stmt = vibesql_parser::Parser::parse_sql(sql).map_err(|e| format!("parse error: {:?}", e))?;
        let Statement::Select(select) = stmt else { return Err("not a SELECT".into()) };
        let signature = QuerySignature::from_sql(sql);
        if let Some((rows, _schema)) = self.cache.get(&signature) {
            return Ok(ReadOutcome::Hit(rows));
        }
        let db = &self.db;
        let r = match vcore::runner::catch(|| vibesql_executor::SelectExecutor::new(db).execute(&select)) {
            Ok(r) => r.map_err(|e| format!("{:?}", e)),
            Err(p) => Err(format!("Panic {}", p)),
        };
        if let Ok(rows) = &r {
            use vibesql_catalog::{ColumnSchema, TableSchema};
            use vibesql_executor::schema::CombinedSchema;
            let schema = if let Some(first) = rows.first() {
                let columns: Vec<ColumnSchema> =
                    first.values.iter().enumerate().map(|(i, v)| ColumnSchema { name: format!("col{}", i), data_type: v.get_type(), nullable: v.is_null(), default_value: None }).collect();
                CombinedSchema::from_table("result".to_string(), TableSchema::new("result".to_string(), columns))
            } else {
                CombinedSchema::from_table("result".to_string(), TableSchema::new("result".to_string(), vec![]))
            };
            let tables = extract_tables_from_select(&select);
            self.cache.insert(signature, rows.clone(), schema, tables);
        }
        Ok(ReadOutcome::Miss(r))
    }

    fn fresh(&self, sql: &str) -> Result<Vec<CRow>, ExecErr> {
        engine::query(&self.db, sql)
    }

    fn write(&mut self, sql: &str) -> Result<(), String> {
        let stmt = vibesql_parser::Parser::parse_sql(sql).map_err(|e| format!("parse error: {:?}", e))?;
        match &stmt {
            Statement::Insert(s) => self.cache.invalidate_table(&s.table_name),
            Statement::Update(s) => self.cache.invalidate_table(&s.table_name),
            Statement::Delete(s) => self.cache.invalidate_table(&s.table_name),
            Statement::DropTable(s) => self.cache.invalidate_table(&s.table_name),
            _ => {}
        }
        let db = &mut self.db;
        match vcore::runner::catch(|| engine::exec_stmt(db, &stmt)) {
            Ok(Ok(_)) => Ok(()),
            Ok(Err(e)) => Err(e.text()),
            Err(p) => Err(format!("Panic {}", p)),
        }
    }
}

/// what the harness remembers about the text that filled a cache entry
#[derive(Clone, Debug)]
struct Stored {
    text: String,
    spec: usize,
    variant: usize,
    comment: u8,
    step: usize,
}

// ---------------------------------------------------------------------------------------------
// generator

const WORDS: &[&str] = &["a", "A", "a b", "a  b", "ab", "AB", "Ab", "x y", "x\ty", "b", "o'b  x", "o'b x", "o'B", "o'b"];

fn gen_row(t: &mut Tape) -> (i64, String, i64) {
    (t.below(4) as i64, t.pick(WORDS).to_string(), t.below(4) as i64)
}

fn gen_world(t: &mut Tape) -> World {
    let nt = t.range(2, 3) as usize;
    let mut rows = Vec::new();
    for _ in 0..nt {
        let n = t.range(2, 6) as usize;
        rows.push((0..n).map(|_| gen_row(t)).collect());
    }
    let nv = t.weighted(&[2, 3, 1]);
    let views = (0..nv).map(|_| View { base: t.below(nt), filter: if t.chance(1, 3) { Some(t.below(3) as i64) } else { None } }).collect();
    World { rows, views }
}

fn gen_shape(t: &mut Tape, w: &World) -> QShape {
    let nt = w.rows.len();
    let h = t.below(nt);
    let x = (h + 1 + t.below(nt - 1)) % nt;
    let y = t.below(nt);
    let nv = w.views.len();
    // a third table different from h and x (inner and outer scopes must not share column names:
    // the engine resolves ambiguous unqualified columns through a randomly seeded HashMap)
    let z = if nt >= 3 { (0..nt).find(|i| *i != h && *i != x) } else { None };
    let views_off_h: Vec<usize> = (0..nv).filter(|v| w.views[*v].base != h).collect();
    let k = t.weighted(&[
        4,                         // 0 plain
        1,                         // 1 literal item
        3,                         // 2 in-subquery
        1,                         // 3 not in
        2,                         // 4 scalar item
        2,                         // 5 exists
        1,                         // 6 quantified
        2,                         // 7 join
        if z.is_some() { 1 } else { 0 }, // 8 join-on subquery
        2,                         // 9 cte
        1,                         // 10 cte in subquery
        if nv > 0 { 4 } else { 0 }, // 11 view
        if !views_off_h.is_empty() { 2 } else { 0 }, // 12 view in subquery
        2,                         // 13 set op
        2,                         // 14 derived
        1,                         // 15 order by subquery
        1,                         // 16 group by subquery
        1,                         // 17 having subquery
        1,                         // 18 case subquery
        1,                         // 19 function argument
        1,                         // 20 cast
        1,                         // 21 between
        1,                         // 22 like
        1,                         // 23 is null
        if z.is_some() { 1 } else { 0 }, // 24 nested
        1,                         // 25 quoted identifiers
    ]);
    match k {
        0 => QShape::Plain { t: h },
        1 => QShape::LitItem { t: h },
        2 => QShape::InSub { h, x },
        3 => QShape::NotInSub { h, x },
        4 => QShape::ScalarItem { h, x },
        5 => QShape::Exists { h, x },
        6 => QShape::Quant { h, x },
        7 => QShape::Join { h, x },
        8 => QShape::JoinOnSub { h, j: x, x: z.unwrap_or(y) },
        9 => QShape::Cte { x },
        10 => QShape::CteInSub { h, x },
        11 => QShape::View { v: t.below(nv) },
        12 => QShape::ViewInSub { h, v: views_off_h[t.below(views_off_h.len())] },
        13 => QShape::SetOp { h, x, x_left: t.chance(1, 2), op: t.below(3) as u8 },
        14 => QShape::Derived { x },
        15 => QShape::OrderBySub { h, x },
        16 => QShape::GroupBySub { h, x },
        17 => QShape::HavingSub { h, x },
        18 => QShape::CaseSub { h, x },
        19 => QShape::FuncArgSub { h, x },
        20 => QShape::CastSub { h, x },
        21 => QShape::BetweenSub { h, x },
        22 => QShape::LikeSub { h, x },
        23 => QShape::IsNullSub { h, x },
        24 => QShape::Nested { h, x, y: z.unwrap_or(y) },
        _ => QShape::Quoted,
    }
}

// ---------------------------------------------------------------------------------------------

impl Check for C25 {
    type Case = Case;
    fn id(&self) -> &'static str {
        "C25"
    }
    fn rule(&self) -> String {
        "2-3 tables (a INTEGER, b VARCHAR, c INTEGER; 2-6 rows, b from confusable words 'a'/'A', 'a b'/'a  b', 'ab'/'AB'/'Ab', 'x y'/'x<TAB>y'), 0-2 views, a table with \
         quoted columns \"k\"/\"K\"; a pool of 1-4 query specs (plain, literal item, IN / NOT IN / EXISTS / scalar / quantified subquery, join, JOIN ON subquery, CTE, view, \
         set-operation arm, derived table, subquery in ORDER BY / GROUP BY / HAVING / CASE / function argument / CAST / BETWEEN / LIKE / IS NULL, nested subquery, quoted identifier) \
         each with one string-literal slot; 6-32 steps: reads (spec, literal variant of the slot's confusable group, spelling = keyword case x identifier case x spacing x line comment) \
         and writes (INSERT / UPDATE / DELETE / DROP+CREATE+INSERT / DROP) mostly on tables the pool depends on. Oracle: adapter-style cache client vs uncached execution on the same \
         state at every hit. Non-trivial = a cache hit occurred after >= 1 write, or two distinct texts mapped to one signature. Distinct = hash of the case."
            .into()
    }
    fn assumptions(&self) -> Vec<String> {
        vec![
            "the client protocol is the one of tests/sqllogictest/db_adapter.rs (key = QuerySignature::from_sql(text); invalidate_table(stmt.table_name) before INSERT/UPDATE/DELETE/DROP TABLE; only successful SELECTs are stored), with the library's extract_tables_from_select for the dependencies".into(),
            "results are compared as multisets of canonical rows (as a sequence for the ORDER BY shape); a mismatch is reported only if two uncached executions agree with each other".into(),
            "cache capacity 10000 (adapter default): no eviction inside a case".into(),
        ]
    }
    fn cases(&self, tier: Tier) -> u64 {
        match tier {
            Tier::Quick => 60_000,
            Tier::Thorough => 1_500_000,
        }
    }
    fn tape_len(&self, _t: Tier) -> usize {
        500
    }
    fn floors(&self) -> Vec<(&'static str, f64)> {
        vec![("hit_after_write", 0.30), ("hit_ok", 0.50)]
    }

    fn build(&self, t: &mut Tape, cfg: &GenCfg) -> Case {
        let world = gen_world(t);
        let av_case = cfg.avoiding("c25.foreign.literal_case");
        let av_ws = cfg.avoiding("c25.foreign.literal_whitespace");
        let av_quoted = cfg.avoiding("c25.foreign.quoted_ident_case");
        let av_comment = cfg.avoiding("c25.foreign.comment_newline");
        let av_view = cfg.avoiding("c25.stale.view");
        let mut excluded = 0u32;
        let ns = t.range(1, 4) as usize;
        let mut specs = Vec::new();
        for _ in 0..ns {
            let mut shape = gen_shape(t, &world);
            if av_view && matches!(shape, QShape::View { .. } | QShape::ViewInSub { .. }) {
                shape = QShape::InSub { h: 0, x: 1 };
                excluded += 1;
            }
            specs.push(QSpec { shape, group: t.below(GROUPS.len()) });
        }
        // which literal variants of a spec may appear in this case (siblings collide by design)
        let allowed: Vec<Vec<usize>> = specs
            .iter()
            .map(|s| {
                let g = GROUPS[s.group];
                let mut v = vec![0usize];
                for j in 1..g.len() {
                    let kind = if matches!(s.shape, QShape::Quoted) { "quoted" } else { group_kind(s.group, 0, j) };
                    let blocked = match kind {
                        "quoted" => av_quoted,
                        "literal_case" => av_case,
                        _ => av_ws,
                    };
                    if blocked {
                        excluded += 1;
                    } else {
                        v.push(j);
                    }
                }
                if matches!(s.shape, QShape::Quoted) {
                    v.retain(|j| *j < 2);
                }
                v
            })
            .collect();
        // variants of one group must be pairwise non-colliding under avoidance: with index 0 always present
        // every other allowed variant collides with it only through a non-avoided kind (checked above);
        // collisions among the others (e.g. 'AB' vs 'Ab') are of kind literal_case as well.
        let n = t.range(6, 32) as usize;
        let mut steps = Vec::new();
        let dep_tables: Vec<usize> = {
            let mut v: Vec<usize> = specs.iter().flat_map(|s| s.deps(&world).into_iter().map(|d| d.0)).collect();
            v.sort();
            v.dedup();
            v
        };
        for i in 0..n {
            let read = if i == 0 { true } else { t.chance(2, 3) };
            if read {
                let spec = t.below(specs.len());
                let al = &allowed[spec];
                let variant = if t.chance(2, 3) { al[0] } else { al[t.below(al.len())] };
                let mut comment = if matches!(specs[spec].shape, QShape::Plain { .. }) { t.weighted(&[4, 1, 1]) as u8 } else { 0 };
                if av_comment && comment == 2 {
                    comment = 1;
                    excluded += 1;
                }
                let spell = Spell { kw: t.below(3) as u8, ident_upper: t.chance(1, 4), ws: t.weighted(&[3, 1, 1]) as u8, comment };
                steps.push(Step::Read { spec, variant, spell });
            } else {
                let tbl = if !dep_tables.is_empty() && t.chance(4, 5) { dep_tables[t.below(dep_tables.len())] } else { t.below(world.rows.len()) };
                let w = match t.weighted(&[5, 3, 2, 3, 2, 1]) {
                    0 => Write::Insert { t: tbl, row: gen_row(t) },
                    1 => Write::UpdateB { t: tbl, a: t.below(4) as i64, b: t.pick(WORDS).to_string() },
                    2 => Write::UpdateC { t: tbl, a: t.below(4) as i64, c: t.below(4) as i64 },
                    3 => Write::Delete { t: tbl, a: if t.chance(1, 4) { None } else { Some(t.below(4) as i64) } },
                    4 => {
                        let k = t.range(1, 4) as usize;
                        Write::DropCreate { t: tbl, rows: (0..k).map(|_| gen_row(t)).collect() }
                    }
                    _ => Write::Drop { t: tbl },
                };
                steps.push(Step::Write(w));
            }
        }
        Case { world, specs, steps, excluded }
    }

    fn render(&self, c: &Case) -> String {
        let mut v = c.world.setup_sql();
        for s in &c.steps {
            match s {
                Step::Read { spec, variant, spell } => v.push(format!("/* read  */ {}", c.specs[*spec].text(&c.world, *variant, spell).replace('\n', "\\n").replace('\t', "\\t"))),
                Step::Write(w) => {
                    for q in w.sql() {
                        v.push(format!("/* write */ {}", q.replace('\t', "\\t")));
                    }
                }
            }
        }
        v.join(";\n")
    }

    fn run(&self, case: &Case, obs: &mut Obs) -> Verdict {
        let w = &case.world;
        obs.excluded = case.excluded as u64;
        let mut cl = Client { db: Database::new(), cache: QueryResultCache::new(10_000) };
        for st in w.setup_sql() {
            if let Err(e) = engine::exec(&mut cl.db, &st) {
                return Verdict::Harness(format!("setup statement `{}` rejected: {}", st, e.text()));
            }
        }
        let mut stored: BTreeMap<u64, Stored> = BTreeMap::new();
        let mut texts_of_sig: BTreeMap<u64, Vec<String>> = BTreeMap::new();
        // (step, table)
        let mut writes: Vec<(usize, usize)> = Vec::new();
        let mut log: Vec<String> = Vec::new();
        let mut hit_after_write = false;
        let mut shared_sig = false;

        macro_rules! report {
            ($sig:expr, $detail:expr) => {{
                let sig: String = $sig;
                if vcore::kf::is_open_global(&sig) {
                    if !obs.known_hits.contains(&sig) {
                        obs.known_hits.push(sig);
                    }
                } else {
                    return Verdict::fail(sig, format!("{}\n--- history so far ---\n{}", $detail, log.join(";\n")));
                }
            }};
        }

        for (si, step) in case.steps.iter().enumerate() {
            match step {
                Step::Write(wr) => {
                    for q in wr.sql() {
                        log.push(format!("/* write */ {}", q.replace('\t', "\\t")));
                        match cl.write(&q) {
                            Ok(()) => obs.class("write_ok"),
                            Err(e) => obs.class(&format!("write_err:{}", vcore::runner::truncate(&e, 40))),
                        }
                    }
                    writes.push((si, wr.table()));
                    obs.class(match wr {
                        Write::Insert { .. } => "write:insert",
                        Write::UpdateB { .. } | Write::UpdateC { .. } => "write:update",
                        Write::Delete { .. } => "write:delete",
                        Write::DropCreate { .. } => "write:drop_create",
                        Write::Drop { .. } => "write:drop",
                    });
                }
                Step::Read { spec, variant, spell } => {
                    let qs = &case.specs[*spec];
                    let text = qs.text(w, *variant, spell);
                    log.push(format!("/* read  */ {}", text.replace('\n', "\\n").replace('\t', "\\t")));
                    obs.sub_evals += 1;
                    let shape_name = format!("{:?}", qs.shape);
                    obs.class(&format!("shape:{}", shape_name.split(|c: char| !c.is_alphanumeric()).next().unwrap_or("")));
                    let sig = QuerySignature::from_sql(&text).hash();
                    let seen = texts_of_sig.entry(sig).or_default();
                    if !seen.contains(&text) {
                        seen.push(text.clone());
                        if seen.len() > 1 {
                            shared_sig = true;
                            obs.class("two_texts_one_signature");
                        }
                    }
                    let out = match cl.read(&text) {
                        Ok(o) => o,
                        Err(e) => return Verdict::Harness(format!("generated read `{}` is not a SELECT the parser accepts: {}", text, e)),
                    };
                    let comment = if matches!(qs.shape, QShape::Plain { .. }) { spell.comment % 3 } else { 0 };
                    match out {
                        ReadOutcome::Miss(r) => {
                            obs.class("miss");
                            match r {
                                Ok(_) => {
                                    stored.insert(sig, Stored { text: text.clone(), spec: *spec, variant: *variant, comment, step: si });
                                }
                                Err(e) => obs.class(&format!("read_err:{}", vcore::runner::truncate(&e, 40))),
                            }
                        }
                        ReadOutcome::Hit(rows) => {
                            let cached = engine::canon_rows(&rows);
                            let st = stored.get(&sig).cloned();
                            if !writes.is_empty() {
                                hit_after_write = true;
                            }
                            let same = |a: &[CRow], b: &[CRow]| if qs.ordered() { seq_eq(a, b, 0.0) } else { multiset_eq(a, b, 0.0) };
                            let fresh = cl.fresh(&text);
                            let ok = match &fresh {
                                Ok(f) => same(&cached, f),
                                Err(_) => false,
                            };
                            if ok {
                                obs.class("hit_ok");
                                if let Some(s) = &st {
                                    if s.text != text {
                                        obs.class("hit_ok_other_spelling");
                                    }
                                    if writes.iter().any(|(ws, _)| *ws > s.step) {
                                        obs.class("hit_ok_after_later_write");
                                    }
                                }
                                continue;
                            }
                            // the twin must agree with itself before anything is concluded
                            let fresh2 = cl.fresh(&text);
                            let deterministic = match (&fresh, &fresh2) {
                                (Ok(a), Ok(b)) => same(a, b),
                                (Err(a), Err(b)) => a.kind() == b.kind(),
                                _ => false,
                            };
                            if !deterministic {
                                obs.class("twin_nondeterministic");
                                continue;
                            }
                            let fresh_txt = match &fresh {
                                Ok(f) => show_rows(f, 12),
                                Err(e) => format!("  {}\n", e.text()),
                            };
                            let Some(s) = st else {
                                return Verdict::Harness(format!("cache hit for `{}` but the harness never saw the entry being stored", text));
                            };
                            // foreign: the entry was filled by a text with a different meaning
                            // two pool entries may describe the same query
                            let same_spec = s.spec == *spec || (case.specs[s.spec].shape == qs.shape && (qs.shape == QShape::Quoted || case.specs[s.spec].group % GROUPS.len() == qs.group % GROUPS.len()));
                            let same_meaning = same_spec && s.variant == *variant && (s.comment == 2) == (comment == 2);
                            let (sig_name, why) = if !same_meaning {
                                let kind = if !same_spec {
                                    "other_query".to_string()
                                } else if matches!(qs.shape, QShape::Quoted) {
                                    "quoted_ident_case".to_string()
                                } else if s.variant != *variant {
                                    group_kind(qs.group % GROUPS.len(), s.variant % GROUPS[qs.group % GROUPS.len()].len(), *variant % GROUPS[qs.group % GROUPS.len()].len()).to_string()
                                } else {
                                    "comment_newline".to_string()
                                };
                                (
                                    format!("c25.foreign.{}", kind),
                                    format!("the entry was stored at step {} by a different text with the same signature:\n  `{}`", s.step + 1, s.text.replace('\n', "\\n").replace('\t', "\\t")),
                                )
                            } else {
                                // stale: which dependency was written since the entry was stored?
                                let deps = qs.deps(w);
                                let culprit = writes.iter().filter(|(ws, _)| *ws > s.step).find_map(|(ws, t)| deps.iter().find(|d| d.0 == *t).map(|d| (*ws, d.0, d.1)));
                                match culprit {
                                    Some((ws, t, kind)) => (
                                        format!("c25.stale.{}", kind),
                                        format!("the entry was stored at step {}; step {} wrote {} which the query references through: {}", s.step + 1, ws + 1, tn(t), kind),
                                    ),
                                    None => ("c25.stale.unexplained".to_string(), format!("the entry was stored at step {} and no dependency was written since", s.step + 1)),
                                }
                            };
                            report!(
                                sig_name,
                                format!(
                                    "cache hit for `{}` served\n{}but executing it now gives\n{}{}",
                                    text.replace('\n', "\\n").replace('\t', "\\t"),
                                    show_rows(&cached, 12),
                                    fresh_txt,
                                    why
                                )
                            );
                        }
                    }
                }
            }
        }
        if hit_after_write {
            obs.class("hit_after_write");
        }
        obs.nontrivial = hit_after_write || shared_sig;
        Verdict::Pass
    }
}
