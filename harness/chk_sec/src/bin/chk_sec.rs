//! chk_sec <ID> quick|thorough|--replay <file> [--cases N] [--strict] [--survey] [--focus s]
//! chk_sec --worker <ID>          — child mode (isolated checks)
//! chk_sec dev-sql <script>       — dev aid: run a script with role switching

use vcore::runner::{parse_args, run_check};

macro_rules! dispatch {
    ($id:expr, $f:ident ( $($extra:expr),* )) => {
        match $id {
            "C25" => $f(chk_sec::C25, $($extra),*),
            "C26" => $f(chk_sec::C26, $($extra),*),
            other => {
                eprintln!("unknown property id {}", other);
                2
            }
        }
    };
}

fn worker<C: vcore::Check>(c: C) -> i32 {
    let root = std::env::var("VERIF_ROOT").unwrap_or_else(|_| "/verif".into());
    if std::env::var("VERIF_STRICT").is_err() {
        let k = vcore::kf::KnownFindings::load(&std::path::Path::new(&root).join("known_findings.json"), c.id());
        vcore::kf::set_open_sigs(k.open_signatures());
    }
    vcore::isolate::worker_main(c)
}

fn run<C: vcore::Check>(c: C, args: vcore::Args) -> i32 {
    run_check(c, args)
}

fn main() {
    let argv: Vec<String> = std::env::args().skip(1).collect();
    if argv.first().map(|s| s == "dev-sql").unwrap_or(false) {
        chk_sec::dev::dev_sql(&argv[1]);
        return;
    }
    let code = if argv.first().map(|s| s == "--worker").unwrap_or(false) {
        let id = argv.get(1).cloned().unwrap_or_default();
        dispatch!(id.as_str(), worker())
    } else {
        match parse_args(&argv) {
            Err(e) => {
                eprintln!("{}", e);
                2
            }
            Ok(args) => {
                let id = args.id.clone();
                dispatch!(id.as_str(), run(args))
            }
        }
    };
    std::process::exit(code);
}
