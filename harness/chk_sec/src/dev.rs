//! dev aid: run a script with role switching. Lines: `@role NAME` | `@admin` | `@public` | `@sec on|off` | `@obs` | SQL
use vcore::engine;

pub fn dev_sql(path: &str) {
    vcore::runner::install_panic_hook();
    let txt = std::fs::read_to_string(path).expect("read script");
    let mut db = vibesql_storage::Database::new();
    for line in txt.lines() {
        let line = line.trim();
        if line.is_empty() || line.starts_with('#') {
            continue;
        }
        if let Some(r) = line.strip_prefix("@role ") {
            db.set_role(Some(r.trim().to_string()));
            println!("-- role {}", r.trim());
            continue;
        }
        match line {
            "@admin" => {
                db.set_role(Some("ADMIN".into()));
                println!("-- role ADMIN");
                continue;
            }
            "@public" => {
                db.set_role(None);
                println!("-- role (none => PUBLIC)");
                continue;
            }
            "@sec on" => {
                db.enable_security();
                continue;
            }
            "@sec off" => {
                db.disable_security();
                continue;
            }
            "@obs" => {
                println!("{:#?}", engine::observe(&db));
                continue;
            }
            "@grants" => {
                for g in db.catalog.get_all_grants() {
                    println!("   grant {:?} on {} to {} by {}", g.privilege, g.object, g.grantee, g.grantor);
                }
                continue;
            }
            _ => {}
        }
        let r = match vcore::runner::catch(|| engine::exec(&mut db, line)) {
            Ok(r) => r,
            Err(p) => Err(engine::ExecErr::Exec(format!("Panic {}", p))),
        };
        match r {
            Ok(engine::Out::Rows(rows)) => {
                println!("{}\n   => {} rows: {}", line, rows.len(), vcore::val::show_rows(&engine::canon_rows(&rows), 20).replace('\n', " "));
            }
            Ok(o) => println!("{}\n   => {:?}", line, o),
            Err(e) => println!("{}\n   => ERR {}", line, e.text()),
        }
    }
}
