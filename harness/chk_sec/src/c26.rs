//! C26 — access control is complete and follows the GRANT/REVOKE history.
//!
//! A case is a small world (2-4 tables with identical column types, indexes, views), two roles
//! plus the PUBLIC session, and a history of admin statements (CREATE ROLE / GRANT / REVOKE in
//! all their spellings) interleaved with statements executed under `set_role(non-admin)`.
//! The oracle is a model `held(principal, object, privilege)` that follows only the admin
//! statements that *succeeded*.  Because the harness builds every role statement from a typed
//! shape it knows which relations the statement reads and which table it writes.
//!
//! What is demanded (and no more):
//!  * must-deny: if a needed privilege is held neither by the session role nor by PUBLIC, the
//!    statement must return Err and `observe(db)` must be unchanged.  When such a statement
//!    returns Ok the harness decides with a non-interference probe whether rows of the
//!    unprivileged table influenced the outcome (`leak`), or — when the unprivileged reference
//!    must have been evaluated (unguarded position, no empty table involved) — reports
//!    `not_denied`.  A reference that the engine never had to evaluate (e.g. subquery under
//!    an OR that is already true, empty outer table) is counted, not reported.
//!  * converse (plain tables only, privilege held by the session role itself): no
//!    PermissionDenied; any other error is allowed.
//!  * views: reading through a view needs SELECT on the view object (what table.rs documents:
//!    "Check SELECT privilege on the view") and, as the property states, SELECT on the base
//!    tables (the engine executes the view body with the invoker's role).  The converse is never
//!    demanded for views (the engine cannot GRANT on a view: TableNotFound).

use serde::{Deserialize, Serialize};
use std::collections::BTreeSet;
use vcore::engine::{self, ExecErr, Out};
use vcore::val::{multiset_eq, seq_eq, show_rows, CRow};
use vcore::{Check, GenCfg, Obs, Tape, Tier, Verdict};
use vibesql_storage::Database;

pub struct C26;

// ---------------------------------------------------------------------------------------------
// case description

#[derive(Clone, Copy, Debug, PartialEq, Eq, PartialOrd, Ord, Serialize, Deserialize)]
pub enum Priv {
    Select,
    Insert,
    Update,
    Delete,
}
impl Priv {
    fn sql(self) -> &'static str {
        match self {
            Priv::Select => "SELECT",
            Priv::Insert => "INSERT",
            Priv::Update => "UPDATE",
            Priv::Delete => "DELETE",
        }
    }
    const ALL: [Priv; 4] = [Priv::Select, Priv::Insert, Priv::Update, Priv::Delete];
}

/// a relation a statement reads from
#[derive(Clone, Copy, Debug, PartialEq, Eq, PartialOrd, Ord, Serialize, Deserialize)]
pub enum Rel {
    T(usize),
    V(usize),
}

/// an object privileges are granted on
#[derive(Clone, Copy, Debug, PartialEq, Eq, PartialOrd, Ord, Serialize, Deserialize)]
pub enum Obj {
    T(usize),
    V(usize),
    /// a table that does not exist (GRANT must fail: TableNotFound)
    Missing,
}

#[derive(Clone, Debug, Serialize, Deserialize)]
pub struct View {
    pub base: usize,
    pub join: Option<usize>,
    pub filter: Option<i64>,
}

#[derive(Clone, Debug, Serialize, Deserialize)]
pub struct World {
    /// rows per table: (a, b, c)
    pub rows: Vec<Vec<(i64, String, i64)>>,
    /// (table, on column c instead of a)
    pub indexes: Vec<(usize, bool)>,
    pub views: Vec<View>,
    /// table has PRIMARY KEY (a)
    #[serde(default)]
    pub pk: Vec<bool>,
}

/// principals: 0 = R1, 1 = R2, 2 = PUBLIC (session without a role), 3 = a role that is never created
pub const PUBLIC: u8 = 2;
pub const GHOST: u8 = 3;

fn role_name(who: u8) -> &'static str {
    match who {
        0 => "r1",
        1 => "r2",
        2 => "public",
        _ => "ghost",
    }
}
fn session_role(who: u8) -> Option<String> {
    match who {
        0 => Some("R1".into()),
        1 => Some("R2".into()),
        _ => None, // get_current_role() => "PUBLIC"
    }
}

#[derive(Clone, Debug, Serialize, Deserialize)]
pub enum PrivSpec {
    All,
    List(Vec<Priv>),
}
impl PrivSpec {
    fn expand(&self) -> Vec<Priv> {
        match self {
            PrivSpec::All => Priv::ALL.to_vec(),
            PrivSpec::List(v) => v.clone(),
        }
    }
    fn sql(&self) -> String {
        match self {
            PrivSpec::All => "ALL PRIVILEGES".into(),
            PrivSpec::List(v) => v.iter().map(|p| p.sql()).collect::<Vec<_>>().join(", "),
        }
    }
}

#[derive(Clone, Copy, Debug, PartialEq, Eq, Serialize, Deserialize)]
pub enum RevMode {
    Plain,
    Cascade,
    Restrict,
    GrantOptionFor,
}

#[derive(Clone, Debug, Serialize, Deserialize)]
pub enum AdminOp {
    CreateRole { who: u8 },
    Grant { privs: PrivSpec, obj: Obj, to: Vec<u8>, wgo: bool, table_kw: bool },
    Revoke { privs: PrivSpec, obj: Obj, from: Vec<u8>, mode: RevMode, table_kw: bool },
}

#[derive(Clone, Debug, Serialize, Deserialize)]
pub enum Sub {
    /// h_a [NOT] IN (SELECT x_a FROM x [WHERE x_a >= k])   (col_c: the c columns instead)
    In { x: Rel, col_c: bool, neg: bool, inner: Option<i64> },
    /// [NOT] EXISTS (SELECT 1 FROM x WHERE x_a = h_a)  |  ... WHERE x_c >= k
    Exists { x: Rel, corr: bool, neg: bool, k: i64 },
    /// h_c <= (SELECT agg FROM x)
    ScalarCmp { x: Rel, agg: u8 },
    /// h_a >= ALL (SELECT x_a FROM x)  |  h_a = ANY (...)
    Quant { x: Rel, all: bool },
}
impl Sub {
    fn x(&self) -> Rel {
        match self {
            Sub::In { x, .. } | Sub::Exists { x, .. } | Sub::ScalarCmp { x, .. } | Sub::Quant { x, .. } => *x,
        }
    }
}

#[derive(Clone, Copy, Debug, PartialEq, Eq, Serialize, Deserialize)]
pub enum Pos {
    Where,
    WhereOr(i64),
    WhereAnd(i64),
    Item,
    CaseItem(i64),
    Having,
    GroupBy,
    OrderBy,
    JoinOn(usize),
}

#[derive(Clone, Debug, Serialize, Deserialize)]
pub enum DmlWhere {
    None,
    Simple(i64),
    Sub(Sub),
}

#[derive(Clone, Debug, Serialize, Deserialize)]
pub enum Stmt {
    /// filter: (on column c, op 0 '=' 1 '>=' 2 '<', constant).  `qualified` (`public.t`) is never generated: the engine
    /// cannot resolve a schema-qualified name in FROM at all (TableNotFound even for the admin), so it is outside the input domain
    Scan { x: Rel, qualified: bool, alias: bool, filter: Option<(bool, u8, i64)>, order: bool, limit: Option<u64> },
    CountStar { x: Rel },
    Agg { x: Rel, f: u8 },
    /// kind 0 INNER 1 LEFT 2 CROSS 3 comma
    Join { h: usize, x: Rel, kind: u8, swap: bool },
    Cte { x: Rel, then_sub: Option<usize> },
    /// op 0 UNION 1 INTERSECT 2 EXCEPT
    SetOp { h: usize, x: Rel, op: u8, all: bool, swap: bool },
    Derived { x: Rel, join_h: Option<usize> },
    Host { h: usize, pos: Pos, sub: Sub },
    ScalarItem { h: usize, x: Rel, agg: u8, guard: Option<i64> },
    InsertValues { w: usize, collist: bool, row: (i64, String, i64) },
    InsertSelect { w: usize, x: Rel, star: bool, collist: bool, filter: Option<i64> },
    InsertSelectSub { w: usize, h: usize, sub: Sub },
    Update { w: usize, set_scalar: Option<(Rel, u8)>, set_k: i64, where_: DmlWhere },
    Delete { w: usize, where_: DmlWhere },
    Truncate { w: usize },
    /// kind 0: INSERT .. ON DUPLICATE KEY UPDATE c = k; 1: REPLACE INTO; 2: INSERT OR REPLACE INTO
    Upsert { w: usize, kind: u8, row: (i64, String, i64), k: i64 },
}

#[derive(Clone, Debug, Serialize, Deserialize)]
pub enum Step {
    Admin(AdminOp),
    Role { who: u8, stmt: Stmt },
}

#[derive(Clone, Debug, Serialize, Deserialize)]
pub struct Case {
    pub world: World,
    pub steps: Vec<Step>,
    /// generator switches turned off because of open known findings
    #[serde(default)]
    pub excluded: u32,
}

// ---------------------------------------------------------------------------------------------
// rendering

fn tn(i: usize) -> String {
    format!("t{}", i)
}
fn tc(i: usize, c: char) -> String {
    format!("t{}_{}", i, c)
}

impl World {
    fn rel_name(&self, r: Rel) -> String {
        match r {
            Rel::T(i) => tn(i),
            Rel::V(v) => format!("v{}", v),
        }
    }
    fn rel_col(&self, r: Rel, c: char) -> String {
        match r {
            Rel::T(i) => tc(i, c),
            Rel::V(v) => {
                let vw = &self.views[v];
                if c == 'a' {
                    tc(vw.base, 'a')
                } else {
                    tc(vw.join.unwrap_or(vw.base), c)
                }
            }
        }
    }
    fn bases(&self, r: Rel) -> Vec<usize> {
        match r {
            Rel::T(i) => vec![i],
            Rel::V(v) => {
                let vw = &self.views[v];
                let mut b = vec![vw.base];
                if let Some(j) = vw.join {
                    if j != vw.base {
                        b.push(j);
                    }
                }
                b
            }
        }
    }
    fn has_index(&self, t: usize, on_c: bool) -> bool {
        self.indexes.iter().any(|&(ti, c)| ti == t && c == on_c)
    }
    pub fn setup_sql(&self) -> Vec<String> {
        let mut v = Vec::new();
        for (i, rows) in self.rows.iter().enumerate() {
            let pk = if self.pk.get(i).copied().unwrap_or(false) { " PRIMARY KEY" } else { "" };
            v.push(format!("CREATE TABLE {} ({} INTEGER{}, {} VARCHAR(12), {} INTEGER)", tn(i), tc(i, 'a'), pk, tc(i, 'b'), tc(i, 'c')));
            if !rows.is_empty() {
                let vals = rows.iter().map(|(a, b, c)| format!("({}, '{}', {})", a, b, c)).collect::<Vec<_>>().join(", ");
                v.push(format!("INSERT INTO {} VALUES {}", tn(i), vals));
            }
        }
        for (k, &(t, on_c)) in self.indexes.iter().enumerate() {
            v.push(format!("CREATE INDEX ix{} ON {} ({})", k, tn(t), tc(t, if on_c { 'c' } else { 'a' })));
        }
        for (k, vw) in self.views.iter().enumerate() {
            let b = vw.base;
            let sql = match vw.join {
                Some(j) if j != b => format!(
                    "CREATE VIEW v{} AS SELECT {}, {}, {} FROM {} JOIN {} ON {} = {}",
                    k,
                    tc(b, 'a'),
                    tc(j, 'b'),
                    tc(j, 'c'),
                    tn(b),
                    tn(j),
                    tc(b, 'a'),
                    tc(j, 'a')
                ),
                _ => format!(
                    "CREATE VIEW v{} AS SELECT {}, {}, {} FROM {}{}",
                    k,
                    tc(b, 'a'),
                    tc(b, 'b'),
                    tc(b, 'c'),
                    tn(b),
                    match vw.filter {
                        Some(f) => format!(" WHERE {} >= {}", tc(b, 'c'), f),
                        None => String::new(),
                    }
                ),
            };
            v.push(sql);
        }
        v
    }
}

fn agg_sql(w: &World, x: Rel, agg: u8) -> String {
    match agg % 4 {
        0 => format!("MAX({})", w.rel_col(x, 'c')),
        1 => format!("MIN({})", w.rel_col(x, 'c')),
        2 => "COUNT(*)".to_string(),
        _ => format!("SUM({})", w.rel_col(x, 'c')),
    }
}

impl Sub {
    fn kind(&self, w: &World) -> &'static str {
        match self {
            Sub::In { x, col_c, .. } => match x {
                Rel::T(i) if w.has_index(*i, *col_c) => "in_subquery_indexed",
                _ => "in_subquery",
            },
            Sub::Exists { .. } => "exists",
            Sub::ScalarCmp { .. } => "scalar_cmp",
            Sub::Quant { .. } => "quantified",
        }
    }
    /// predicate over the host table `h`
    fn sql(&self, w: &World, h: usize) -> String {
        match self {
            Sub::In { x, col_c, neg, inner } => {
                let c = if *col_c { 'c' } else { 'a' };
                let xc = w.rel_col(*x, c);
                format!(
                    "{} {}IN (SELECT {} FROM {}{})",
                    tc(h, c),
                    if *neg { "NOT " } else { "" },
                    xc,
                    w.rel_name(*x),
                    match inner {
                        Some(k) => format!(" WHERE {} >= {}", xc, k),
                        None => String::new(),
                    }
                )
            }
            Sub::Exists { x, corr, neg, k } => format!(
                "{}EXISTS (SELECT 1 FROM {} WHERE {})",
                if *neg { "NOT " } else { "" },
                w.rel_name(*x),
                if *corr { format!("{} = {}", w.rel_col(*x, 'a'), tc(h, 'a')) } else { format!("{} >= {}", w.rel_col(*x, 'c'), k) }
            ),
            Sub::ScalarCmp { x, agg } => format!("{} <= (SELECT {} FROM {})", tc(h, 'c'), agg_sql(w, *x, *agg), w.rel_name(*x)),
            Sub::Quant { x, all } => format!(
                "{} {} (SELECT {} FROM {})",
                tc(h, 'a'),
                if *all { ">= ALL" } else { "= ANY" },
                w.rel_col(*x, 'a'),
                w.rel_name(*x)
            ),
        }
    }
}

fn cols3(i: usize) -> String {
    format!("{}, {}, {}", tc(i, 'a'), tc(i, 'b'), tc(i, 'c'))
}

impl Stmt {
    pub fn sql(&self, w: &World) -> String {
        match self {
            Stmt::Scan { x, qualified, alias, filter, order, limit } => {
                let mut s = format!("SELECT * FROM {}{}", if *qualified { "public." } else { "" }, w.rel_name(*x));
                if *alias {
                    s.push_str(" AS z");
                }
                if let Some((on_c, op, k)) = filter {
                    let c = w.rel_col(*x, if *on_c { 'c' } else { 'a' });
                    s.push_str(&format!(" WHERE {} {} {}", c, ["=", ">=", "<"][(*op % 3) as usize], k));
                }
                if *order {
                    s.push_str(&format!(" ORDER BY {}, {}, {}", w.rel_col(*x, 'a'), w.rel_col(*x, 'c'), w.rel_col(*x, 'b')));
                    if let Some(l) = limit {
                        s.push_str(&format!(" LIMIT {}", l));
                    }
                }
                s
            }
            Stmt::CountStar { x } => format!("SELECT COUNT(*) FROM {}", w.rel_name(*x)),
            Stmt::Agg { x, f } => match f % 3 {
                0 => format!("SELECT MAX({}) FROM {}", w.rel_col(*x, 'a'), w.rel_name(*x)),
                1 => format!("SELECT SUM({}), COUNT({}) FROM {}", w.rel_col(*x, 'c'), w.rel_col(*x, 'b'), w.rel_name(*x)),
                _ => format!("SELECT {}, COUNT(*) FROM {} GROUP BY {}", w.rel_col(*x, 'a'), w.rel_name(*x), w.rel_col(*x, 'a')),
            },
            Stmt::Join { h, x, kind, swap } => {
                let (l, r) = if *swap { (w.rel_name(*x), tn(*h)) } else { (tn(*h), w.rel_name(*x)) };
                let on = format!("{} = {}", tc(*h, 'a'), w.rel_col(*x, 'a'));
                let items = format!("{}, {}", tc(*h, 'a'), w.rel_col(*x, 'b'));
                match kind % 4 {
                    0 => format!("SELECT {} FROM {} JOIN {} ON {}", items, l, r, on),
                    1 => format!("SELECT {} FROM {} LEFT JOIN {} ON {}", items, l, r, on),
                    2 => format!("SELECT {} FROM {} CROSS JOIN {}", items, l, r),
                    _ => format!("SELECT {} FROM {}, {} WHERE {}", items, l, r, on),
                }
            }
            Stmt::Cte { x, then_sub } => match then_sub {
                None => format!("WITH q AS (SELECT {}, {} FROM {}) SELECT * FROM q", w.rel_col(*x, 'a'), w.rel_col(*x, 'c'), w.rel_name(*x)),
                Some(h) => format!(
                    "WITH q AS (SELECT {} FROM {}) SELECT {} FROM {} WHERE {} IN (SELECT {} FROM q)",
                    w.rel_col(*x, 'a'),
                    w.rel_name(*x),
                    tc(*h, 'a'),
                    tn(*h),
                    tc(*h, 'a'),
                    w.rel_col(*x, 'a')
                ),
            },
            Stmt::SetOp { h, x, op, all, swap } => {
                let a = format!("SELECT {} FROM {}", tc(*h, 'a'), tn(*h));
                let b = format!("SELECT {} FROM {}", w.rel_col(*x, 'a'), w.rel_name(*x));
                let o = ["UNION", "INTERSECT", "EXCEPT"][(*op % 3) as usize];
                let (l, r) = if *swap { (b, a) } else { (a, b) };
                format!("{} {}{} {}", l, o, if *all { " ALL" } else { "" }, r)
            }
            Stmt::Derived { x, join_h } => match join_h {
                None => format!("SELECT * FROM (SELECT {}, {} FROM {}) AS d", w.rel_col(*x, 'a'), w.rel_col(*x, 'c'), w.rel_name(*x)),
                Some(h) => format!(
                    "SELECT d.{} FROM (SELECT {} FROM {}) AS d JOIN {} ON d.{} = {}.{}",
                    w.rel_col(*x, 'a'),
                    w.rel_col(*x, 'a'),
                    w.rel_name(*x),
                    tn(*h),
                    w.rel_col(*x, 'a'),
                    tn(*h),
                    tc(*h, 'a')
                ),
            },
            Stmt::Host { h, pos, sub } => {
                let p = sub.sql(w, *h);
                let (ha, hc, hn) = (tc(*h, 'a'), tc(*h, 'c'), tn(*h));
                match pos {
                    Pos::Where => format!("SELECT {} FROM {} WHERE {}", ha, hn, p),
                    Pos::WhereOr(k) => format!("SELECT {} FROM {} WHERE {} < {} OR {}", ha, hn, hc, k, p),
                    Pos::WhereAnd(k) => format!("SELECT {} FROM {} WHERE {} >= {} AND {}", ha, hn, hc, k, p),
                    Pos::Item => format!("SELECT {}, CASE WHEN {} THEN 1 ELSE 0 END FROM {}", ha, p, hn),
                    Pos::CaseItem(k) => format!("SELECT {}, CASE WHEN {} >= {} THEN (CASE WHEN {} THEN 1 ELSE 0 END) ELSE 2 END FROM {}", ha, ha, k, p, hn),
                    Pos::Having => format!("SELECT {}, {} FROM {} GROUP BY {}, {} HAVING {}", ha, hc, hn, ha, hc, p),
                    Pos::GroupBy => format!("SELECT COUNT(*), MIN({}) FROM {} GROUP BY {}", ha, hn, p),
                    Pos::OrderBy => format!("SELECT {}, {} FROM {} ORDER BY {}, {}, {}", ha, hc, hn, p, ha, hc),
                    Pos::JoinOn(j) => format!("SELECT {} FROM {} JOIN {} ON {} = {} AND {}", ha, hn, tn(*j), ha, tc(*j, 'a'), p),
                }
            }
            Stmt::ScalarItem { h, x, agg, guard } => {
                let sq = format!("(SELECT {} FROM {})", agg_sql(w, *x, *agg), w.rel_name(*x));
                match guard {
                    None => format!("SELECT {}, {} FROM {}", tc(*h, 'a'), sq, tn(*h)),
                    Some(k) => format!("SELECT {}, CASE WHEN {} >= {} THEN {} ELSE 0 END FROM {}", tc(*h, 'a'), tc(*h, 'a'), k, sq, tn(*h)),
                }
            }
            Stmt::InsertValues { w: t, collist, row } => format!(
                "INSERT INTO {}{} VALUES ({}, '{}', {})",
                tn(*t),
                if *collist { format!(" ({})", cols3(*t)) } else { String::new() },
                row.0,
                row.1,
                row.2
            ),
            Stmt::InsertSelect { w: t, x, star, collist, filter } => format!(
                "INSERT INTO {}{} SELECT {} FROM {}{}",
                tn(*t),
                if *collist { format!(" ({})", cols3(*t)) } else { String::new() },
                if *star { "*".to_string() } else { format!("{}, {}, {}", w.rel_col(*x, 'a'), w.rel_col(*x, 'b'), w.rel_col(*x, 'c')) },
                w.rel_name(*x),
                match filter {
                    Some(f) => format!(" WHERE {} >= {}", w.rel_col(*x, 'c'), f),
                    None => String::new(),
                }
            ),
            Stmt::InsertSelectSub { w: t, h, sub } => format!("INSERT INTO {} SELECT {} FROM {} WHERE {}", tn(*t), cols3(*h), tn(*h), sub.sql(w, *h)),
            Stmt::Update { w: t, set_scalar, set_k, where_ } => {
                let val = match set_scalar {
                    Some((x, agg)) => format!("(SELECT {} FROM {})", agg_sql(w, *x, *agg), w.rel_name(*x)),
                    None => set_k.to_string(),
                };
                let wh = match where_ {
                    DmlWhere::None => String::new(),
                    DmlWhere::Simple(k) => format!(" WHERE {} = {}", tc(*t, 'a'), k),
                    DmlWhere::Sub(s) => format!(" WHERE {}", s.sql(w, *t)),
                };
                format!("UPDATE {} SET {} = {}{}", tn(*t), tc(*t, 'c'), val, wh)
            }
            Stmt::Delete { w: t, where_ } => {
                let wh = match where_ {
                    DmlWhere::None => String::new(),
                    DmlWhere::Simple(k) => format!(" WHERE {} = {}", tc(*t, 'a'), k),
                    DmlWhere::Sub(s) => format!(" WHERE {}", s.sql(w, *t)),
                };
                format!("DELETE FROM {}{}", tn(*t), wh)
            }
            Stmt::Truncate { w: t } => format!("TRUNCATE TABLE {}", tn(*t)),
            Stmt::Upsert { w: t, kind, row, k } => match kind % 3 {
                0 => format!("INSERT INTO {} VALUES ({}, '{}', {}) ON DUPLICATE KEY UPDATE {} = {}", tn(*t), row.0, row.1, row.2, tc(*t, 'c'), k),
                1 => format!("REPLACE INTO {} VALUES ({}, '{}', {})", tn(*t), row.0, row.1, row.2),
                _ => format!("INSERT OR REPLACE INTO {} VALUES ({}, '{}', {})", tn(*t), row.0, row.1, row.2),
            },
        }
    }

    /// relations whose rows the statement reads (needs SELECT)
    pub fn reads(&self) -> Vec<Rel> {
        let mut v = match self {
            Stmt::Scan { x, .. } | Stmt::CountStar { x } | Stmt::Agg { x, .. } => vec![*x],
            Stmt::Join { h, x, .. } | Stmt::SetOp { h, x, .. } => vec![Rel::T(*h), *x],
            Stmt::Cte { x, then_sub } => {
                let mut v = vec![*x];
                if let Some(h) = then_sub {
                    v.push(Rel::T(*h));
                }
                v
            }
            Stmt::Derived { x, join_h } => {
                let mut v = vec![*x];
                if let Some(h) = join_h {
                    v.push(Rel::T(*h));
                }
                v
            }
            Stmt::Host { h, pos, sub } => {
                let mut v = vec![Rel::T(*h), sub.x()];
                if let Pos::JoinOn(j) = pos {
                    v.push(Rel::T(*j));
                }
                v
            }
            Stmt::ScalarItem { h, x, .. } => vec![Rel::T(*h), *x],
            Stmt::InsertValues { .. } | Stmt::Truncate { .. } | Stmt::Upsert { .. } => vec![],
            Stmt::InsertSelect { x, .. } => vec![*x],
            Stmt::InsertSelectSub { h, sub, .. } => vec![Rel::T(*h), sub.x()],
            Stmt::Update { set_scalar, where_, .. } => {
                let mut v = vec![];
                if let Some((x, _)) = set_scalar {
                    v.push(*x);
                }
                if let DmlWhere::Sub(s) = where_ {
                    v.push(s.x());
                }
                v
            }
            Stmt::Delete { where_, .. } => match where_ {
                DmlWhere::Sub(s) => vec![s.x()],
                _ => vec![],
            },
        };
        v.sort();
        v.dedup();
        v
    }

    pub fn write(&self) -> Option<(usize, Priv)> {
        match self {
            // an upsert needs INSERT; whether it may also change or remove existing rows is judged by its effect
            Stmt::InsertValues { w, .. } | Stmt::InsertSelect { w, .. } | Stmt::InsertSelectSub { w, .. } | Stmt::Upsert { w, .. } => Some((*w, Priv::Insert)),
            Stmt::Update { w, .. } => Some((*w, Priv::Update)),
            Stmt::Delete { w, .. } | Stmt::Truncate { w } => Some((*w, Priv::Delete)),
            _ => None,
        }
    }

    /// true when the engine may legitimately never evaluate the reference to `rel`
    /// (short-circuit OR / AND / CASE, join residual, SET expression of an UPDATE whose WHERE selects no row)
    fn guarded_for(&self, rel: Rel) -> bool {
        match self {
            Stmt::Host { pos, sub, .. } => sub.x() == rel && matches!(pos, Pos::WhereOr(_) | Pos::WhereAnd(_) | Pos::CaseItem(_) | Pos::JoinOn(_)),
            Stmt::ScalarItem { guard, x, .. } => *x == rel && guard.is_some(),
            Stmt::Update { set_scalar: Some((x, _)), where_, .. } => {
                let in_where = matches!(where_, DmlWhere::Sub(s) if s.x() == rel);
                *x == rel && !in_where && !matches!(where_, DmlWhere::None)
            }
            _ => false,
        }
    }

    /// tables whose emptiness could make the engine skip evaluating another reference
    fn row_sources(&self, w: &World) -> Vec<usize> {
        let mut v: Vec<usize> = self.reads().iter().flat_map(|r| w.bases(*r)).collect();
        if let Stmt::Update { w: t, .. } | Stmt::Delete { w: t, .. } = self {
            v.push(*t);
        }
        v.sort();
        v.dedup();
        v
    }

    /// concrete trigger feature used in failure signatures
    pub fn trigger(&self, w: &World) -> String {
        let view = self.reads().iter().any(|r| matches!(r, Rel::V(_)));
        let base: String = match self {
            Stmt::Scan { x, qualified, filter, .. } => {
                let mut s = String::from("scan");
                if *qualified {
                    s.push_str(".qualified");
                }
                if let (Rel::T(i), Some((on_c, _, _)), false) = (x, filter, *qualified) {
                    if w.has_index(*i, *on_c) {
                        s.push_str(".index");
                    }
                }
                s
            }
            Stmt::CountStar { .. } => "count_star".into(),
            Stmt::Agg { .. } => "aggregate".into(),
            Stmt::Join { .. } => "join".into(),
            Stmt::Cte { .. } => "cte".into(),
            Stmt::SetOp { .. } => "set_op".into(),
            Stmt::Derived { .. } => "derived".into(),
            Stmt::Host { pos, sub, .. } => {
                let p = match pos {
                    Pos::Where => "where",
                    Pos::WhereOr(_) => "where_or",
                    Pos::WhereAnd(_) => "where_and",
                    Pos::Item => "select_list",
                    Pos::CaseItem(_) => "case_guard",
                    Pos::Having => "having",
                    Pos::GroupBy => "group_by",
                    Pos::OrderBy => "order_by",
                    Pos::JoinOn(_) => "join_on",
                };
                format!("{}.{}", p, sub.kind(w))
            }
            Stmt::ScalarItem { guard, .. } => if guard.is_some() { "case_guard.scalar" } else { "select_list.scalar" }.into(),
            Stmt::InsertValues { .. } => "insert_values".into(),
            Stmt::InsertSelect { x, star, collist, filter, .. } => {
                if *star && !*collist && filter.is_none() && matches!(x, Rel::T(_)) {
                    "insert_select_star_bulk".into()
                } else {
                    "insert_select".into()
                }
            }
            Stmt::InsertSelectSub { sub, .. } => format!("insert_select.where.{}", sub.kind(w)),
            Stmt::Update { set_scalar, where_, .. } => {
                let mut s = String::from("update");
                if set_scalar.is_some() {
                    s.push_str(".set_scalar");
                }
                if let DmlWhere::Sub(sub) = where_ {
                    s.push_str(&format!(".where.{}", sub.kind(w)));
                }
                s
            }
            Stmt::Delete { where_, .. } => match where_ {
                DmlWhere::Sub(_) => "delete_where_subquery".into(),
                _ => "delete".into(),
            },
            Stmt::Truncate { .. } => "truncate".into(),
            Stmt::Upsert { kind, .. } => if kind % 3 == 0 { "upsert.on_duplicate_key_update" } else { "upsert.replace" }.into(),
        };
        if view && base != "delete_where_subquery" {
            format!("{}.view", base)
        } else {
            base
        }
    }
}

fn obj_name(o: Obj) -> String {
    match o {
        Obj::T(i) => tn(i),
        Obj::V(v) => format!("v{}", v),
        Obj::Missing => "t9".into(),
    }
}

impl AdminOp {
    pub fn sql(&self) -> String {
        let names = |v: &Vec<u8>| v.iter().map(|w| role_name(*w)).collect::<Vec<_>>().join(", ");
        match self {
            AdminOp::CreateRole { who } => format!("CREATE ROLE {}", role_name(*who)),
            AdminOp::Grant { privs, obj, to, wgo, table_kw } => format!(
                "GRANT {} ON {}{} TO {}{}",
                privs.sql(),
                if *table_kw { "TABLE " } else { "" },
                obj_name(*obj),
                names(to),
                if *wgo { " WITH GRANT OPTION" } else { "" }
            ),
            AdminOp::Revoke { privs, obj, from, mode, table_kw } => format!(
                "REVOKE {}{} ON {}{} FROM {}{}",
                if *mode == RevMode::GrantOptionFor { "GRANT OPTION FOR " } else { "" },
                privs.sql(),
                if *table_kw { "TABLE " } else { "" },
                obj_name(*obj),
                names(from),
                match mode {
                    RevMode::Cascade => " CASCADE",
                    RevMode::Restrict => " RESTRICT",
                    _ => "",
                }
            ),
        }
    }
}

// ---------------------------------------------------------------------------------------------
// model

#[derive(Clone, Debug, Default)]
struct Model {
    roles: BTreeSet<u8>,
    held: BTreeSet<(u8, Obj, Priv)>,
    revokes_ok: u32,
}
impl Model {
    fn apply(&mut self, op: &AdminOp) {
        match op {
            AdminOp::CreateRole { who } => {
                self.roles.insert(*who);
            }
            AdminOp::Grant { privs, obj, to, .. } => {
                for w in to {
                    for p in privs.expand() {
                        self.held.insert((*w, *obj, p));
                    }
                }
            }
            AdminOp::Revoke { privs, obj, from, mode, .. } => {
                self.revokes_ok += 1;
                if *mode == RevMode::GrantOptionFor {
                    return;
                }
                for w in from {
                    for p in privs.expand() {
                        self.held.remove(&(*w, *obj, p));
                    }
                }
            }
        }
    }
    fn direct(&self, who: u8, o: Obj, p: Priv) -> bool {
        self.held.contains(&(who, o, p))
    }
    /// held by the session role or by PUBLIC (the weaker reading used for must-deny)
    fn any(&self, who: u8, o: Obj, p: Priv) -> bool {
        self.direct(who, o, p) || self.direct(PUBLIC, o, p)
    }
}

fn needed(stmt: &Stmt, w: &World) -> Vec<(Obj, Priv)> {
    let mut v = Vec::new();
    for r in stmt.reads() {
        match r {
            Rel::T(i) => v.push((Obj::T(i), Priv::Select)),
            Rel::V(k) => {
                v.push((Obj::V(k), Priv::Select));
                for b in w.bases(r) {
                    v.push((Obj::T(b), Priv::Select));
                }
            }
        }
    }
    if let Some((t, p)) = stmt.write() {
        v.push((Obj::T(t), p));
    }
    v.sort();
    v.dedup();
    v
}

// ---------------------------------------------------------------------------------------------
// execution helpers

fn exec_caught(db: &mut Database, sql: &str) -> Result<Out, ExecErr> {
    match vcore::runner::catch(|| engine::exec(db, sql)) {
        Ok(r) => r,
        Err(p) => Err(ExecErr::Exec(format!("Panic {}", p))),
    }
}

fn exec_as(db: &mut Database, who: u8, sql: &str) -> Result<Out, ExecErr> {
    db.set_role(session_role(who));
    let r = exec_caught(db, sql);
    db.set_role(Some("ADMIN".into()));
    r
}

#[derive(Clone, Debug)]
struct Outcome {
    /// Ok(rows or count) / Err(kind)
    res: Result<(Vec<CRow>, Option<usize>), String>,
    post: engine::DbObs,
}

fn outcome_of(db: &mut Database, who: u8, sql: &str) -> Outcome {
    let r = exec_as(db, who, sql);
    let res = match r {
        Ok(Out::Rows(rows)) => Ok((engine::canon_rows(&rows), None)),
        Ok(Out::Count(n)) => Ok((vec![], Some(n))),
        Ok(Out::Done) => Ok((vec![], None)),
        Err(e) => Err(e.kind()),
    };
    Outcome { res, post: engine::observe(db) }
}

/// compare two outcomes ignoring the content of the tables in `skip`; `ordered` = compare row sequences
fn outcomes_differ(a: &Outcome, b: &Outcome, skip: &[String], ordered: bool) -> Option<String> {
    match (&a.res, &b.res) {
        (Ok((ra, ca)), Ok((rb, cb))) => {
            if ca != cb {
                return Some(format!("affected rows {:?} vs {:?}", ca, cb));
            }
            let same = if ordered { seq_eq(ra, rb, 0.0) } else { multiset_eq(ra, rb, 0.0) };
            if !same {
                return Some(format!("result rows\n{}vs\n{}", show_rows(ra, 12), show_rows(rb, 12)));
            }
        }
        (Err(x), Err(y)) if x == y => {}
        (x, y) => return Some(format!("outcome {:?} vs {:?}", x.as_ref().map(|_| "Ok"), y.as_ref().map(|_| "Ok"))),
    }
    let strip = |o: &engine::DbObs| {
        let mut o = o.clone();
        o.tables.retain(|t| !skip.iter().any(|s| t.name.eq_ignore_ascii_case(s) || t.name.to_uppercase().ends_with(&format!(".{}", s.to_uppercase()))));
        o
    };
    engine::diff_obs(&strip(&a.post), &strip(&b.post)).map(|d| format!("database state\n{}", d))
}

/// Effects a role statement had on each table must be covered by privileges: rows can only appear with
/// INSERT or UPDATE, and can only disappear (or change) with DELETE or UPDATE.
fn effect_violation(pre: &engine::DbObs, post: &engine::DbObs, m: &Model, who: u8, nt: usize) -> Option<String> {
    for i in 0..nt {
        let name = tn(i).to_uppercase();
        let find = |o: &engine::DbObs| o.tables.iter().find(|t| t.name.to_uppercase() == name).map(|t| t.rows.clone()).unwrap_or_default();
        let (p, q) = (find(pre), find(post));
        if p == q {
            continue;
        }
        // multiset differences (rows are sorted text)
        let mut added = q.clone();
        let mut removed = Vec::new();
        for r in &p {
            if let Some(k) = added.iter().position(|x| x == r) {
                added.remove(k);
            } else {
                removed.push(r.clone());
            }
        }
        let ins = m.any(who, Obj::T(i), Priv::Insert);
        let upd = m.any(who, Obj::T(i), Priv::Update);
        let del = m.any(who, Obj::T(i), Priv::Delete);
        if !added.is_empty() && !ins && !upd {
            return Some(format!("rows appeared in {} although the role holds neither INSERT nor UPDATE on it: {:?}", tn(i), added));
        }
        if !removed.is_empty() && !del && !upd {
            return Some(format!("rows of {} were changed or removed although the role holds neither UPDATE nor DELETE on it: before {:?}, now instead {:?}", tn(i), removed, added));
        }
    }
    None
}

fn table_rows(db: &Database, t: usize) -> usize {
    db.get_table(&tn(t)).map(|x| x.row_count()).unwrap_or(0)
}

// ---------------------------------------------------------------------------------------------
// generator

struct GenState<'a> {
    w: &'a World,
    gm: Model,
    av_bulk: bool,
    av_in_order: bool,
    av_in_group: bool,
    av_delete_sub: bool,
    av_upsert_dup: bool,
    av_upsert_replace: bool,
    excluded: u32,
}

const WORDS: &[&str] = &["a", "b", "ab", "x", "A"];

fn gen_world(t: &mut Tape) -> World {
    let nt = t.range(2, 4) as usize;
    let mut rows = Vec::new();
    let mut pk = Vec::new();
    for _ in 0..nt {
        let n = match t.weighted(&[8, 1]) {
            0 => t.range(1, 4) as usize,
            _ => 0,
        };
        let is_pk = t.chance(1, 4);
        let mut r: Vec<(i64, String, i64)> = Vec::new();
        for _ in 0..n {
            let row = (t.below(5) as i64, t.pick(WORDS).to_string(), 10 * t.below(5) as i64);
            if is_pk && r.iter().any(|x| x.0 == row.0) {
                continue;
            }
            r.push(row);
        }
        rows.push(r);
        pk.push(is_pk);
    }
    let mut indexes = Vec::new();
    for i in 0..nt {
        if t.chance(1, 2) {
            indexes.push((i, false));
        }
        if t.chance(1, 4) {
            indexes.push((i, true));
        }
    }
    let mut views = Vec::new();
    let nv = t.weighted(&[3, 3, 1]);
    for _ in 0..nv {
        let base = t.below(nt);
        let join = if t.chance(1, 3) {
            let j = (base + 1 + t.below(nt - 1)) % nt;
            Some(j)
        } else {
            None
        };
        let filter = if join.is_none() && t.chance(1, 3) { Some(10 * t.below(4) as i64) } else { None };
        views.push(View { base, join, filter });
    }
    World { rows, indexes, views, pk }
}

impl GenState<'_> {
    fn nt(&self) -> usize {
        self.w.rows.len()
    }

    /// a table other than the ones in `not`; biased by SELECT status of `who` when `want_held` is given
    fn pick_table(&self, t: &mut Tape, not: &[usize], who: u8, want_held: Option<bool>) -> usize {
        let cands: Vec<usize> = (0..self.nt()).filter(|i| !not.contains(i)).collect();
        let cands = if cands.is_empty() { (0..self.nt()).collect() } else { cands };
        if let Some(wh) = want_held {
            let pref: Vec<usize> = cands.iter().copied().filter(|i| self.gm.any(who, Obj::T(*i), Priv::Select) == wh).collect();
            if !pref.is_empty() && t.chance(3, 4) {
                return pref[t.below(pref.len())];
            }
        }
        cands[t.below(cands.len())]
    }

    /// the relation playing the "possibly unprivileged" part: a table (mostly) or a view
    fn pick_x(&self, t: &mut Tape, not: &[usize], who: u8) -> Rel {
        if !self.w.views.is_empty() && t.chance(1, 6) {
            // a view none of whose base tables is excluded (column names would clash)
            let ok: Vec<usize> = (0..self.w.views.len()).filter(|v| self.w.bases(Rel::V(*v)).iter().all(|b| !not.contains(b))).collect();
            if !ok.is_empty() {
                return Rel::V(ok[t.below(ok.len())]);
            }
        }
        let want = match t.weighted(&[2, 1, 1]) {
            0 => Some(false),
            1 => Some(true),
            _ => None,
        };
        Rel::T(self.pick_table(t, not, who, want))
    }

    fn gen_sub(&mut self, t: &mut Tape, not: &[usize], who: u8) -> Sub {
        let x = self.pick_x(t, not, who);
        match t.weighted(&[5, 2, 2, 1]) {
            0 => Sub::In { x, col_c: t.chance(1, 4), neg: t.chance(1, 4), inner: if t.chance(1, 3) { Some(t.below(3) as i64) } else { None } },
            1 => Sub::Exists { x, corr: t.chance(1, 2), neg: t.chance(1, 4), k: 10 * t.below(4) as i64 },
            2 => Sub::ScalarCmp { x, agg: t.below(4) as u8 },
            _ => Sub::Quant { x, all: t.chance(1, 2) },
        }
    }

    fn gen_stmt(&mut self, t: &mut Tape, who: u8) -> Stmt {
        let nt = self.nt();
        let shape = t.weighted(&[
            4, // 0 scan
            1, // 1 count(*)
            1, // 2 aggregate
            3, // 3 join
            2, // 4 cte
            2, // 5 set op
            2, // 6 derived
            9, // 7 host + subquery position
            2, // 8 scalar in select list
            2, // 9 insert values
            5, // 10 insert select
            2, // 11 insert select with subquery
            4, // 12 update
            4, // 13 delete
            1, // 14 truncate
            if self.w.pk.iter().any(|b| *b) { 3 } else { 0 }, // 15 upsert into a table with a primary key
        ]);
        let mut s = match shape {
            0 => {
                let x = self.pick_x(t, &[], who);
                let filter = if t.chance(1, 2) { Some((t.chance(1, 4), t.below(3) as u8, t.below(5) as i64)) } else { None };
                let order = t.chance(1, 3);
                Stmt::Scan { x, qualified: false, alias: t.chance(1, 6), filter, order, limit: if order && t.chance(1, 2) { Some(t.range(1, 3) as u64) } else { None } }
            }
            1 => Stmt::CountStar { x: self.pick_x(t, &[], who) },
            2 => Stmt::Agg { x: self.pick_x(t, &[], who), f: t.below(3) as u8 },
            3 => {
                let h = self.pick_table(t, &[], who, Some(true));
                Stmt::Join { h, x: self.pick_x(t, &[h], who), kind: t.below(4) as u8, swap: t.chance(1, 2) }
            }
            4 => {
                let x = self.pick_x(t, &[], who);
                let then_sub = if t.chance(1, 2) { Some(self.pick_table(t, &self.w.bases(x), who, Some(true))) } else { None };
                Stmt::Cte { x, then_sub }
            }
            5 => {
                let h = self.pick_table(t, &[], who, Some(true));
                Stmt::SetOp { h, x: self.pick_x(t, &[h], who), op: t.below(3) as u8, all: t.chance(1, 2), swap: t.chance(1, 2) }
            }
            6 => {
                let x = self.pick_x(t, &[], who);
                let join_h = if t.chance(1, 2) { Some(self.pick_table(t, &self.w.bases(x), who, Some(true))) } else { None };
                Stmt::Derived { x, join_h }
            }
            7 => {
                let h = self.pick_table(t, &[], who, Some(true));
                let pos = match t.weighted(&[4, 2, 1, 2, 2, 2, 2, 3, if nt >= 2 { 2 } else { 0 }]) {
                    0 => Pos::Where,
                    1 => Pos::WhereOr(*t.pick(&[0i64, 20, 100])),
                    2 => Pos::WhereAnd(*t.pick(&[0i64, 20, 100])),
                    3 => Pos::Item,
                    4 => Pos::CaseItem(t.below(5) as i64),
                    5 => Pos::Having,
                    6 => Pos::GroupBy,
                    7 => Pos::OrderBy,
                    _ => Pos::JoinOn(self.pick_table(t, &[h], who, Some(true))),
                };
                let not = match pos {
                    Pos::JoinOn(j) => vec![h, j],
                    _ => vec![h],
                };
                let sub = self.gen_sub(t, &not, who);
                Stmt::Host { h, pos, sub }
            }
            8 => {
                let h = self.pick_table(t, &[], who, Some(true));
                Stmt::ScalarItem { h, x: self.pick_x(t, &[h], who), agg: t.below(4) as u8, guard: if t.chance(1, 3) { Some(t.below(5) as i64) } else { None } }
            }
            9 => Stmt::InsertValues {
                w: self.pick_table(t, &[], who, None),
                collist: t.chance(1, 3),
                row: (t.below(5) as i64, t.pick(WORDS).to_string(), 10 * t.below(5) as i64),
            },
            10 => {
                let w = self.pick_dml_target(t, who, Priv::Insert);
                let x = self.pick_x(t, &[w], who);
                let star = t.chance(1, 2);
                Stmt::InsertSelect { w, x, star, collist: t.chance(1, 3), filter: if t.chance(1, 3) { Some(10 * t.below(4) as i64) } else { None } }
            }
            11 => {
                let w = self.pick_dml_target(t, who, Priv::Insert);
                let h = self.pick_table(t, &[w], who, Some(true));
                let sub = self.gen_sub(t, &[w, h], who);
                Stmt::InsertSelectSub { w, h, sub }
            }
            12 => {
                let w = self.pick_dml_target(t, who, Priv::Update);
                // no SUM here: SUM(INTEGER) is a DOUBLE in this engine and the assignment to an INTEGER column is refused
                let set_scalar = if t.chance(1, 3) { Some((self.pick_x(t, &[w], who), t.below(3) as u8)) } else { None };
                let where_ = match t.weighted(&[1, 2, 3]) {
                    0 => DmlWhere::None,
                    1 => DmlWhere::Simple(t.below(5) as i64),
                    _ => DmlWhere::Sub(self.gen_sub(t, &[w], who)),
                };
                Stmt::Update { w, set_scalar, set_k: 10 * t.below(5) as i64, where_ }
            }
            13 => {
                let w = self.pick_dml_target(t, who, Priv::Delete);
                let where_ = match t.weighted(&[1, 3, 4]) {
                    0 => DmlWhere::None,
                    1 => DmlWhere::Simple(t.below(5) as i64),
                    _ => DmlWhere::Sub(self.gen_sub(t, &[w], who)),
                };
                Stmt::Delete { w, where_ }
            }
            14 => Stmt::Truncate { w: self.pick_dml_target(t, who, Priv::Delete) },
            _ => {
                let pks: Vec<usize> = (0..nt).filter(|i| self.w.pk[*i]).collect();
                let held: Vec<usize> = pks.iter().copied().filter(|i| self.gm.any(who, Obj::T(*i), Priv::Insert)).collect();
                let w = if !held.is_empty() && t.chance(3, 4) { held[t.below(held.len())] } else { pks[t.below(pks.len())] };
                Stmt::Upsert { w, kind: t.below(3) as u8, row: (t.below(5) as i64, t.pick(WORDS).to_string(), 10 * t.below(5) as i64), k: 10 * t.below(5) as i64 + 5 }
            }
        };
        // stay out of the triggers of open known findings (80 % of the workers)
        let trig = s.trigger(self.w);
        match &mut s {
            Stmt::InsertSelect { filter, .. } if self.av_bulk && trig == "insert_select_star_bulk" => {
                *filter = Some(0);
                self.excluded += 1;
            }
            Stmt::Host { pos, .. } if (self.av_in_order && trig == "order_by.in_subquery_indexed") || (self.av_in_group && trig == "group_by.in_subquery_indexed") => {
                *pos = Pos::Where;
                self.excluded += 1;
            }
            Stmt::Delete { where_, .. } if self.av_delete_sub && matches!(where_, DmlWhere::Sub(_)) => {
                *where_ = DmlWhere::Simple(1);
                self.excluded += 1;
            }
            Stmt::Upsert { w, row, .. } if (self.av_upsert_dup && trig == "upsert.on_duplicate_key_update") || (self.av_upsert_replace && trig == "upsert.replace") => {
                s = Stmt::InsertValues { w: *w, collist: false, row: row.clone() };
                self.excluded += 1;
            }
            _ => {}
        }
        s
    }

    /// DML target: mostly one the role holds the write privilege on (so that the SELECT side decides)
    fn pick_dml_target(&self, t: &mut Tape, who: u8, p: Priv) -> usize {
        let held: Vec<usize> = (0..self.nt()).filter(|i| self.gm.any(who, Obj::T(*i), p)).collect();
        if !held.is_empty() && t.chance(3, 4) {
            held[t.below(held.len())]
        } else {
            t.below(self.nt())
        }
    }

    fn gen_privs(&self, t: &mut Tape) -> PrivSpec {
        match t.weighted(&[5, 2, 3]) {
            0 => PrivSpec::List(vec![if t.chance(1, 2) { Priv::Select } else { *t.pick(&Priv::ALL) }]),
            1 => {
                let a = *t.pick(&Priv::ALL);
                let b = *t.pick(&Priv::ALL);
                PrivSpec::List(if a == b { vec![a] } else { vec![a, b] })
            }
            _ => PrivSpec::All,
        }
    }

    fn gen_obj(&self, t: &mut Tape) -> Obj {
        match t.weighted(&[30, if self.w.views.is_empty() { 0 } else { 3 }, 1]) {
            0 => Obj::T(t.below(self.nt())),
            1 => Obj::V(t.below(self.w.views.len())),
            _ => Obj::Missing,
        }
    }

    fn gen_grantees(&self, t: &mut Tape) -> Vec<u8> {
        let created: Vec<u8> = self.gm.roles.iter().cloned().collect();
        let one = |t: &mut Tape| {
            if !created.is_empty() && t.chance(9, 10) {
                // R1 first: it runs most of the statements
                let k = t.weighted(&[3, 2, 2]);
                return created[k.min(created.len() - 1)];
            }
            match t.weighted(&[2, 2, 2, 1]) {
                0 => 0u8,
                1 => 1,
                2 => PUBLIC,
                _ => GHOST,
            }
        };
        let a = one(t);
        if t.chance(1, 6) {
            let b = one(t);
            if b != a {
                return vec![a, b];
            }
        }
        vec![a]
    }

    fn gen_admin(&mut self, t: &mut Tape) -> AdminOp {
        let missing_roles: Vec<u8> = [1u8, PUBLIC].iter().cloned().filter(|r| !self.gm.roles.contains(r)).collect();
        match t.weighted(&[if missing_roles.is_empty() { 1 } else { 6 }, 12, 6]) {
            0 => AdminOp::CreateRole { who: if missing_roles.is_empty() || t.chance(1, 10) { *t.pick(&[0u8, 1, PUBLIC]) } else { missing_roles[t.below(missing_roles.len())] } },
            1 => AdminOp::Grant { privs: self.gen_privs(t), obj: self.gen_obj(t), to: self.gen_grantees(t), wgo: t.chance(1, 8), table_kw: t.chance(1, 4) },
            _ => {
                let mode = match t.weighted(&[6, 1, 1, 1]) {
                    0 => RevMode::Plain,
                    1 => RevMode::Cascade,
                    2 => RevMode::Restrict,
                    _ => RevMode::GrantOptionFor,
                };
                // mostly revoke something that is held, so that the revoke matters
                let held: Vec<(u8, Obj, Priv)> = self.gm.held.iter().cloned().collect();
                if !held.is_empty() && t.chance(3, 4) {
                    let (who, obj, p) = held[t.below(held.len())];
                    let privs = if t.chance(1, 4) { PrivSpec::All } else { PrivSpec::List(vec![p]) };
                    AdminOp::Revoke { privs, obj, from: vec![who], mode, table_kw: t.chance(1, 4) }
                } else {
                    AdminOp::Revoke { privs: self.gen_privs(t), obj: self.gen_obj(t), from: self.gen_grantees(t), mode, table_kw: t.chance(1, 4) }
                }
            }
        }
    }

    /// generator-side prediction (only used to bias later choices)
    fn predict(&mut self, op: &AdminOp) {
        let valid = |gm: &Model, obj: &Obj, who: &Vec<u8>| matches!(obj, Obj::T(_)) && who.iter().all(|w| gm.roles.contains(w));
        match op {
            AdminOp::CreateRole { .. } => self.gm.apply(op),
            AdminOp::Grant { obj, to, .. } => {
                if valid(&self.gm, obj, to) {
                    self.gm.apply(op)
                }
            }
            AdminOp::Revoke { obj, from, .. } => {
                if valid(&self.gm, obj, from) {
                    self.gm.apply(op)
                }
            }
        }
    }
}

// ---------------------------------------------------------------------------------------------

impl Check for C26 {
    type Case = Case;
    fn id(&self) -> &'static str {
        "C26"
    }
    fn rule(&self) -> String {
        "2-4 tables (a INTEGER, b VARCHAR, c INTEGER; 0-4 rows; indexes on a/c), 0-2 views (plain, filtered, join), principals R1, R2, PUBLIC session; \
         4-26 steps: admin CREATE ROLE / GRANT / REVOKE (single privilege, lists, ALL PRIVILEGES, ON TABLE, several grantees, WITH GRANT OPTION, CASCADE / RESTRICT / \
         GRANT OPTION FOR, re-grant, revoke-not-held, unknown role/table, grants on views) interleaved with statements under set_role(non-admin): scan (alias, \
         index predicate, ORDER BY/LIMIT), COUNT(*), aggregates, joins (inner/left/cross/comma), CTE, set operations, derived tables, views, IN / EXISTS / scalar / quantified \
         subqueries in WHERE, under OR / AND, select list, CASE, HAVING, GROUP BY, ORDER BY, JOIN ON, INSERT VALUES, INSERT..SELECT (* / column list / WHERE / subquery), \
         UPDATE / DELETE with subqueries on other tables, TRUNCATE. Oracle: held(principal, object, privilege) from the admin statements that succeeded. \
         Non-trivial = after >= 1 successful REVOKE some role statement needed >= 2 privileges of which at least one was held and at least one was not. Distinct = hash of the case."
            .into()
    }
    fn assumptions(&self) -> Vec<String> {
        vec![
            "admin = set_role(\"ADMIN\") with enable_security(); PUBLIC = session without a role (get_current_role() answers \"PUBLIC\")".into(),
            "must-deny is demanded only when neither the session role nor PUBLIC holds the privilege; the converse only when the session role itself holds every needed privilege and no view is involved".into(),
            "a statement that returns Ok although a SELECT privilege is missing is a `leak` when a non-interference probe (same statement, same role, the unprivileged table emptied / refilled by the admin) changes its outcome, `not_denied` when the reference is in an unguarded position and no involved table is empty, and is only counted otherwise (the engine never had to evaluate the reference)".into(),
            "UPDATE/DELETE need only the write privilege on their target (the property does not ask SELECT for the target's WHERE columns)".into(),
            "reading a view needs SELECT on the view (engine: 'Check SELECT privilege on the view') and on its base tables (property; engine executes the view body as the invoker)".into(),
        ]
    }
    fn cases(&self, tier: Tier) -> u64 {
        match tier {
            Tier::Quick => 120_000,
            Tier::Thorough => 3_000_000,
        }
    }
    fn tape_len(&self, _t: Tier) -> usize {
        600
    }
    fn floors(&self) -> Vec<(&'static str, f64)> {
        vec![("allowed_ok", 0.15), ("denied_err", 0.40), ("mixed_after_revoke", 0.15)]
    }

    fn build(&self, t: &mut Tape, cfg: &GenCfg) -> Case {
        let world = gen_world(t);
        let mut g = GenState {
            w: &world,
            gm: Model::default(),
            av_bulk: cfg.avoiding("c26.unauthorized_ok.insert_select_star_bulk"),
            av_in_order: cfg.avoiding("c26.unauthorized_ok.order_by.in_subquery_indexed"),
            av_in_group: cfg.avoiding("c26.unauthorized_ok.group_by.in_subquery_indexed"),
            av_delete_sub: cfg.avoiding("c26.unauthorized_ok.delete_where_subquery"),
            av_upsert_dup: cfg.avoiding("c26.effect_without_priv.upsert.on_duplicate_key_update"),
            av_upsert_replace: cfg.avoiding("c26.effect_without_priv.upsert.replace"),
            excluded: 0,
        };
        let mut steps = Vec::new();
        let first = AdminOp::CreateRole { who: 0 };
        g.predict(&first);
        steps.push(Step::Admin(first));
        let n = t.range(4, 28) as usize;
        for i in 0..n {
            // the first few steps lean towards admin statements so that privileges exist
            let admin = if i < 4 { t.chance(5, 6) } else { t.chance(2, 5) };
            if admin {
                let op = g.gen_admin(t);
                g.predict(&op);
                steps.push(Step::Admin(op));
            } else {
                let who = match t.weighted(&[5, 2, 2]) {
                    0 => 0u8,
                    1 => 1,
                    _ => PUBLIC,
                };
                let stmt = g.gen_stmt(t, who);
                steps.push(Step::Role { who, stmt });
            }
        }
        let excluded = g.excluded;
        Case { world, steps, excluded }
    }

    fn render(&self, c: &Case) -> String {
        let mut v = c.world.setup_sql();
        v.push("-- enable_security(); set_role(ADMIN)".into());
        for s in &c.steps {
            match s {
                Step::Admin(op) => v.push(format!("/* ADMIN  */ {}", op.sql())),
                Step::Role { who, stmt } => v.push(format!("/* {:<6} */ {}", role_name(*who).to_uppercase(), stmt.sql(&c.world))),
            }
        }
        v.join(";\n")
    }

    fn run(&self, case: &Case, obs: &mut Obs) -> Verdict {
        let w = &case.world;
        obs.excluded = case.excluded as u64;
        let mut db = Database::new();
        for st in w.setup_sql() {
            if let Err(e) = engine::exec(&mut db, &st) {
                return Verdict::Harness(format!("setup statement `{}` rejected: {}", st, e.text()));
            }
        }
        db.enable_security();
        db.set_role(Some("ADMIN".into()));
        let mut m = Model::default();
        let mut log: Vec<String> = Vec::new();
        let mut mixed_after_revoke = false;

        macro_rules! report {
            ($sig:expr, $detail:expr) => {{
                let sig: String = $sig;
                if vcore::kf::is_open_global(&sig) {
                    if !obs.known_hits.contains(&sig) {
                        obs.known_hits.push(sig);
                    }
                } else {
                    return Verdict::fail(sig, format!("{}\n--- history so far ---\n{}", $detail, log.join(";\n")));
                }
            }};
        }

        for step in &case.steps {
            match step {
                Step::Admin(op) => {
                    let sql = op.sql();
                    log.push(format!("/* ADMIN  */ {}", sql));
                    match exec_caught(&mut db, &sql) {
                        Ok(_) => {
                            // classes: what kind of history element this is
                            match op {
                                AdminOp::CreateRole { .. } => obs.class("admin:create_role"),
                                AdminOp::Grant { privs, obj, to, .. } => {
                                    obs.class(if matches!(privs, PrivSpec::All) { "admin:grant_all" } else { "admin:grant" });
                                    if to.iter().all(|x| privs.expand().iter().all(|p| m.direct(*x, *obj, *p))) {
                                        obs.class("admin:regrant");
                                    }
                                }
                                AdminOp::Revoke { privs, obj, from, mode, .. } => {
                                    obs.class(match mode {
                                        RevMode::Plain => "admin:revoke",
                                        RevMode::Cascade => "admin:revoke_cascade",
                                        RevMode::Restrict => "admin:revoke_restrict",
                                        RevMode::GrantOptionFor => "admin:revoke_grant_option_for",
                                    });
                                    if from.iter().all(|x| privs.expand().iter().all(|p| !m.direct(*x, *obj, *p))) {
                                        obs.class("admin:revoke_not_held");
                                    }
                                }
                            }
                            m.apply(op);
                        }
                        Err(e) => obs.class(&format!("admin_err:{}", e.kind())),
                    }
                }
                Step::Role { who, stmt } => {
                    let sql = stmt.sql(w);
                    let tag = role_name(*who).to_uppercase();
                    log.push(format!("/* {:<6} */ {}", tag, sql));
                    // keep table sizes bounded (INSERT..SELECT chains double them)
                    if let Stmt::InsertSelect { .. } | Stmt::InsertSelectSub { .. } = stmt {
                        if stmt.reads().iter().flat_map(|r| w.bases(*r)).any(|b| table_rows(&db, b) > 48) {
                            obs.class("skipped_large_insert_select");
                            log.pop();
                            continue;
                        }
                    }
                    obs.sub_evals += 1;
                    let trig = stmt.trigger(w);
                    obs.class(&format!("shape:{}", trig));
                    let need = needed(stmt, w);
                    let missing: Vec<(Obj, Priv)> = need.iter().cloned().filter(|(o, p)| !m.any(*who, *o, *p)).collect();
                    let has_view = need.iter().any(|(o, _)| matches!(o, Obj::V(_)));
                    // an engine may statically ask UPDATE for ON DUPLICATE KEY UPDATE and DELETE for REPLACE (MySQL does):
                    // the converse is demanded for an upsert only when the role holds that privilege as well
                    let upsert_extra = match stmt {
                        Stmt::Upsert { w: t, kind, .. } => m.direct(*who, Obj::T(*t), if kind % 3 == 0 { Priv::Update } else { Priv::Delete }),
                        _ => true,
                    };
                    let all_direct = !has_view && upsert_extra && need.iter().all(|(o, p)| m.direct(*who, *o, *p));
                    let n_held = need.iter().filter(|(o, p)| m.any(*who, *o, *p)).count();
                    if !missing.is_empty() && n_held > 0 && m.revokes_ok > 0 {
                        mixed_after_revoke = true;
                    }

                    if !missing.is_empty() {
                        let pre = db.clone();
                        let actual = outcome_of(&mut db, *who, &sql);
                        if let Some(d) = effect_violation(&engine::observe(&pre), &actual.post, &m, *who, w.rows.len()) {
                            report!(format!("c26.effect_without_priv.{}", trig), format!("`{}` as {}: {}", sql, tag, d));
                        }
                        match &actual.res {
                            Err(kind) => {
                                obs.class("denied_err");
                                if kind != "PermissionDenied" {
                                    obs.class(&format!("denied_other_err:{}", kind));
                                }
                                if let Some(d) = engine::diff_obs(&engine::observe(&pre), &actual.post) {
                                    report!(
                                        format!("c26.changed_on_denied.{}", trig),
                                        format!("`{}` as {} lacks {:?}; it returned an error ({}) but changed the database:\n{}", sql, tag, missing, kind, d)
                                    );
                                }
                            }
                            Ok(_) => {
                                let miss_txt = missing.iter().map(|(o, p)| format!("{} ON {}", p.sql(), obj_name(*o))).collect::<Vec<_>>().join(", ");
                                if let Some((t, p)) = stmt.write() {
                                    if missing.contains(&(Obj::T(t), p)) {
                                        let d = engine::diff_obs(&engine::observe(&pre), &actual.post).unwrap_or_else(|| "(no change)".into());
                                        report!(
                                            format!("c26.unauthorized_ok.write.{}", trig),
                                            format!("`{}` as {} succeeded without {}:\n{}", sql, tag, miss_txt, d)
                                        );
                                        continue;
                                    }
                                }
                                // SELECT privileges are missing: did rows of the unprivileged tables influence the outcome?
                                let reads_now = stmt.reads();
                                let mut mt: Vec<usize> = missing
                                    .iter()
                                    .filter_map(|(o, p)| match o {
                                        Obj::T(i) if *p == Priv::Select => Some(*i),
                                        _ => None,
                                    })
                                    .collect();
                                if mt.is_empty() {
                                    // only a view object is missing: perturb those of its base tables the statement reads in no other way
                                    for (o, _) in &missing {
                                        if let Obj::V(v) = o {
                                            for b in w.bases(Rel::V(*v)) {
                                                let other = reads_now.iter().any(|r| *r != Rel::V(*v) && w.bases(*r).contains(&b));
                                                if !other {
                                                    mt.push(b);
                                                }
                                            }
                                        }
                                    }
                                }
                                if let Some((t, _)) = stmt.write() {
                                    mt.retain(|i| *i != t);
                                }
                                mt.sort();
                                mt.dedup();
                                let skip: Vec<String> = mt.iter().map(|i| tn(*i)).collect();
                                // determinism control: the same statement on an identical copy
                                let mut ctl = pre.clone();
                                let control = outcome_of(&mut ctl, *who, &sql);
                                if outcomes_differ(&actual, &control, &[], false).is_some() {
                                    obs.class("probe_nondeterministic");
                                    continue;
                                }
                                // row order is compared only for statements with an explicit ORDER BY
                                let has_order = matches!(stmt, Stmt::Host { pos: Pos::OrderBy, .. } | Stmt::Scan { order: true, .. });
                                let ordered = has_order && outcomes_differ(&actual, &control, &[], true).is_none();
                                let mut leak: Option<String> = None;
                                for variant in 0..3 {
                                    let mut alt = pre.clone();
                                    let mut ok = true;
                                    for &i in &mt {
                                        let qs: Vec<String> = match variant {
                                            0 => vec![format!("DELETE FROM {}", tn(i))],
                                            1 => vec![format!("INSERT INTO {} VALUES (0, 'p', 0), (1, 'p', 10), (2, 'p', 20), (3, 'p', 30), (4, 'p', 40), (0, 'q', 90)", tn(i))],
                                            _ => vec![format!("DELETE FROM {}", tn(i)), format!("INSERT INTO {} VALUES (0, 'p', 0), (2, 'p', 20), (4, 'p', 40)", tn(i))],
                                        };
                                        for q in qs {
                                            if exec_caught(&mut alt, &q).is_err() {
                                                ok = false;
                                            }
                                        }
                                    }
                                    if !ok {
                                        continue;
                                    }
                                    let o = outcome_of(&mut alt, *who, &sql);
                                    if o.res.is_err() {
                                        // a refusal shows nothing about rows reaching the role
                                        continue;
                                    }
                                    if let Some(d) = outcomes_differ(&actual, &o, &skip, ordered) {
                                        leak = Some(format!(
                                            "with {} {} by the admin the same statement under the same role gives a different {}",
                                            skip.join(", "),
                                            ["emptied", "extended", "replaced"][variant],
                                            d
                                        ));
                                        break;
                                    }
                                }
                                // some missing privilege belongs to a reference the engine cannot skip
                                let reads = reads_now.clone();
                                let certain = missing.iter().any(|(o, _)| {
                                    reads.iter().any(|r| {
                                        let via = match (o, r) {
                                            (Obj::T(i), Rel::T(j)) => i == j,
                                            (Obj::T(i), Rel::V(_)) => w.bases(*r).contains(i),
                                            (Obj::V(v), Rel::V(k)) => v == k,
                                            _ => false,
                                        };
                                        via && !stmt.guarded_for(*r)
                                    })
                                }) && stmt.row_sources(w).iter().all(|b| table_rows(&pre, *b) > 0);
                                if let Some(d) = leak {
                                    obs.class("unauthorized_ok:leak_demonstrated");
                                    report!(
                                        format!("c26.unauthorized_ok.{}", trig),
                                        format!("`{}` as {} succeeded without {}. LEAK demonstrated, the outcome depends on the rows of the unprivileged table(s): {}", sql, tag, miss_txt, d)
                                    );
                                } else if certain {
                                    obs.class("unauthorized_ok:evaluated_no_influence_shown");
                                    report!(
                                        format!("c26.unauthorized_ok.{}", trig),
                                        format!(
                                            "`{}` as {} returned Ok without {} (no influence of the unprivileged rows on the outcome could be demonstrated, but the reference had to be evaluated: unguarded position, no empty table involved)",
                                            sql, tag, miss_txt
                                        )
                                    );
                                } else {
                                    obs.class("ok_reference_not_evaluated");
                                }
                            }
                        }
                    } else {
                        let pre_obs = engine::observe(&db);
                        let r = exec_as(&mut db, *who, &sql);
                        if let Some(d) = effect_violation(&pre_obs, &engine::observe(&db), &m, *who, w.rows.len()) {
                            report!(format!("c26.effect_without_priv.{}", trig), format!("`{}` as {}: {}", sql, tag, d));
                        }
                        match r {
                            Ok(_) => obs.class(if all_direct { "allowed_ok" } else { "allowed_via_public_or_view_ok" }),
                            Err(e) => {
                                let kind = e.kind();
                                if kind == "PermissionDenied" && all_direct {
                                    report!(
                                        format!("c26.overdeny.{}", trig),
                                        format!("`{}` as {} holds every needed privilege ({:?}) but was refused: {}", sql, tag, need, e.text())
                                    );
                                } else if kind == "PermissionDenied" {
                                    obs.class("denied_although_held_via_public_or_view");
                                } else {
                                    obs.class(&format!("allowed_other_err:{}", kind));
                                    if std::env::var("VERIF_C26_SHOW_ERR").is_ok() {
                                        eprintln!("allowed_other_err: {} => {}", sql, e.text());
                                    }
                                }
                            }
                        }
                    }
                }
            }
        }
        if mixed_after_revoke {
            obs.class("mixed_after_revoke");
        }
        obs.nontrivial = mixed_after_revoke;
        Verdict::Pass
    }
}
