//! Child-process isolation: cases whose property includes "never aborts / overflows the
//! stack / hangs" are executed in `vcheck --worker <ID>` children. Protocol: parent writes
//! `<len>\n<json case>`; child answers one line of JSON `{verdict, obs}`.

use crate::runner::{run_local, Args, Check, Obs, Verdict};
use std::io::{BufRead, BufReader, Read, Write};
use std::process::{ChildStdin, Command, Stdio};
use std::sync::mpsc::{channel, Receiver, RecvTimeoutError};
use std::time::Duration;

pub struct Child {
    proc: std::process::Child,
    stdin: ChildStdin,
    rx: Receiver<Option<String>>,
}

impl Drop for Child {
    fn drop(&mut self) {
        let _ = self.proc.kill();
        let _ = self.proc.wait();
    }
}

fn spawn(id: &str, args: &Args) -> std::io::Result<Child> {
    let exe = std::env::current_exe()?;
    let mut cmd = Command::new(exe);
    cmd.arg("--worker").arg(id).stdin(Stdio::piped()).stdout(Stdio::piped()).stderr(Stdio::null());
    cmd.env("VERIF_ROOT", &args.root);
    if args.strict {
        cmd.env("VERIF_STRICT", "1");
    }
    let mut proc = cmd.spawn()?;
    let stdin = proc.stdin.take().unwrap();
    let stdout = proc.stdout.take().unwrap();
    let (tx, rx) = channel();
    std::thread::spawn(move || {
        let mut r = BufReader::new(stdout);
        loop {
            let mut line = String::new();
            match r.read_line(&mut line) {
                Ok(0) | Err(_) => {
                    let _ = tx.send(None);
                    break;
                }
                Ok(_) => {
                    if tx.send(Some(line)).is_err() {
                        break;
                    }
                }
            }
        }
    });
    Ok(Child { proc, stdin, rx })
}

enum Once {
    Done(Verdict, Obs),
    Died(String),
    Timeout,
}

fn call_once(child: &mut Option<Child>, id: &str, args: &Args, js: &str, timeout: Duration) -> Once {
    if child.is_none() {
        match spawn(id, args) {
            Ok(c) => *child = Some(c),
            Err(e) => return Once::Done(Verdict::Harness(format!("cannot spawn worker: {}", e)), Obs::default()),
        }
    }
    let c = child.as_mut().unwrap();
    let hdr = format!("{}\n", js.len());
    let wrote = c.stdin.write_all(hdr.as_bytes()).and_then(|_| c.stdin.write_all(js.as_bytes())).and_then(|_| c.stdin.flush());
    if wrote.is_err() {
        // child died earlier (not attributable to this case): restart once
        *child = None;
        return Once::Died("worker pipe closed before the case was sent".into());
    }
    match c.rx.recv_timeout(timeout) {
        Ok(Some(line)) => match serde_json::from_str::<(Verdict, Obs)>(&line) {
            Ok((v, o)) => Once::Done(v, o),
            Err(e) => Once::Done(Verdict::Harness(format!("bad worker answer: {} ({})", e, crate::runner::truncate(&line, 200))), Obs::default()),
        },
        Ok(None) | Err(RecvTimeoutError::Disconnected) => {
            let status = c.proc.wait().map(|s| format!("{:?}", s)).unwrap_or_default();
            *child = None;
            Once::Died(status)
        }
        Err(RecvTimeoutError::Timeout) => {
            *child = None; // Drop kills it
            Once::Timeout
        }
    }
}

pub fn remote_run<CH: Check>(check: &CH, case: &CH::Case, child: &mut Option<Child>, args: &Args) -> (Verdict, Obs) {
    let js = match serde_json::to_string(case) {
        Ok(j) => j,
        Err(e) => return (Verdict::Harness(format!("cannot serialise case: {}", e)), Obs::default()),
    };
    let timeout = Duration::from_secs(check.timeout_s());
    let id = check.id();
    let mut first = call_once(child, id, args, &js, timeout);
    if let Once::Died(ref s) = first {
        if s.starts_with("worker pipe closed") {
            first = call_once(child, id, args, &js, timeout);
        }
    }
    match first {
        Once::Done(v, o) => (v, o),
        Once::Died(status) => {
            // confirm in a fresh child: the death must be attributable to this case
            match call_once(child, id, args, &js, timeout) {
                Once::Died(status2) => (
                    Verdict::fail(
                        format!("abort[{}]", sig_of_status(&status2)),
                        format!("worker process died while executing the case (twice): {} / {}", status, status2),
                    ),
                    Obs::default(),
                ),
                Once::Done(..) => (Verdict::Harness(format!("worker died once ({}), case passed alone afterwards", status)), Obs::default()),
                Once::Timeout => (Verdict::Harness("worker died, then timed out".into()), Obs::default()),
            }
        }
        Once::Timeout => {
            // two confirmations alone, with a doubled budget
            let mut timeouts = 0;
            for _ in 0..2 {
                match call_once(child, id, args, &js, timeout * 2) {
                    Once::Timeout => timeouts += 1,
                    Once::Done(v, o) => {
                        if let Verdict::Fail { .. } = v {
                            return (v, o);
                        }
                    }
                    Once::Died(_) => {}
                }
            }
            if timeouts == 2 {
                (Verdict::fail("hang", format!("case exceeded {}s, then 2x{}s alone", timeout.as_secs(), timeout.as_secs() * 2)), Obs::default())
            } else {
                (Verdict::Harness("unconfirmed timeout".into()), Obs::default())
            }
        }
    }
}

fn sig_of_status(s: &str) -> String {
    // e.g. ExitStatus(unix_wait_status(134)) / signal numbers: keep digits only
    let d: String = s.chars().filter(|c| c.is_ascii_digit()).collect();
    format!("status{}", d)
}

/// Child main loop.
pub fn worker_main<CH: Check>(check: CH) -> i32 {
    crate::runner::install_panic_hook();
    let stdin = std::io::stdin();
    let mut r = BufReader::new(stdin.lock());
    let stdout = std::io::stdout();
    loop {
        let mut hdr = String::new();
        match r.read_line(&mut hdr) {
            Ok(0) | Err(_) => return 0,
            Ok(_) => {}
        }
        let Ok(n) = hdr.trim().parse::<usize>() else { return 3 };
        let mut buf = vec![0u8; n];
        if r.read_exact(&mut buf).is_err() {
            return 0;
        }
        let ans: (Verdict, Obs) = match serde_json::from_slice::<CH::Case>(&buf) {
            Ok(case) => run_local(&check, &case),
            Err(e) => (Verdict::Harness(format!("worker cannot parse case: {}", e)), Obs::default()),
        };
        let mut line = serde_json::to_string(&ans).unwrap_or_else(|_| "null".into());
        line.push('\n');
        let mut out = stdout.lock();
        if out.write_all(line.as_bytes()).is_err() || out.flush().is_err() {
            return 0;
        }
    }
}
