//! Hand-written regression scenarios: a list of SQL steps with expected outcomes, executed
//! against a fresh database. Used as replay inputs for fixed findings (no generator involved).

use crate::engine;
use crate::val::{multiset_eq, seq_eq, show_rows, CRow, CV};
use serde::{Deserialize, Serialize};

#[derive(Clone, Debug, Serialize, Deserialize)]
pub struct Step {
    pub sql: String,
    /// "ok" | "err" | "any"
    #[serde(default = "any")]
    pub expect: String,
    /// expected affected-row count for DML
    #[serde(default)]
    pub count: Option<usize>,
    /// expected rows of a query, each cell rendered like `CV::show` (NULL, 12, 1.5, 'text')
    #[serde(default)]
    pub rows: Option<Vec<Vec<String>>>,
    /// compare `rows` as a sequence instead of a multiset
    #[serde(default)]
    pub ordered: bool,
}
fn any() -> String {
    "any".into()
}

#[derive(Clone, Debug, Serialize, Deserialize)]
pub struct Scenario {
    pub name: String,
    pub steps: Vec<Step>,
}

fn parse_cell(s: &str) -> CV {
    if s == "NULL" {
        CV::Null
    } else if s.starts_with('\'') && s.ends_with('\'') && s.len() >= 2 {
        CV::S(s[1..s.len() - 1].to_string())
    } else if let Ok(i) = s.parse::<i128>() {
        CV::Int(i)
    } else if let Ok(f) = s.parse::<f64>() {
        CV::F(f)
    } else {
        CV::O(s.to_string())
    }
}

/// Ok(()) or Err(description of the first unexpected outcome)
pub fn run(sc: &Scenario) -> Result<(), String> {
    let mut db = vibesql_storage::Database::new();
    for (i, st) in sc.steps.iter().enumerate() {
        let r = match crate::runner::catch(|| engine::exec(&mut db, &st.sql)) {
            Ok(r) => r,
            Err(p) => Err(engine::ExecErr::Exec(format!("Panic {}", p))),
        };
        let ctx = |m: String| format!("scenario '{}', step {} `{}`: {}", sc.name, i + 1, st.sql, m);
        match (&r, st.expect.as_str()) {
            (Ok(_), "err") => return Err(ctx("expected an error, statement succeeded".into())),
            (Err(e), "ok") => return Err(ctx(format!("expected success, got {}", e.text()))),
            _ => {}
        }
        if let (Some(n), Ok(engine::Out::Count(m))) = (st.count, &r) {
            if n != *m {
                return Err(ctx(format!("expected {} affected rows, got {}", n, m)));
            }
        }
        if let Some(exp) = &st.rows {
            let want: Vec<CRow> = exp.iter().map(|r| r.iter().map(|c| parse_cell(c)).collect()).collect();
            match &r {
                Ok(engine::Out::Rows(rows)) => {
                    let got = engine::canon_rows(rows);
                    let ok = if st.ordered { seq_eq(&want, &got, 1e-9) } else { multiset_eq(&want, &got, 1e-9) };
                    if !ok {
                        return Err(ctx(format!("expected rows:\n{}got:\n{}", show_rows(&want, 30), show_rows(&got, 30))));
                    }
                }
                Ok(_) => return Err(ctx("expected rows, statement returned none".into())),
                Err(e) => return Err(ctx(format!("expected rows, got {}", e.text()))),
            }
        }
    }
    Ok(())
}
