pub mod gen;
pub mod ir;
