//! Shared "SQL world" generator: schemas, data, typed expressions, queries. All randomness
//! comes from the choice tape; choice 0 is always the simplest alternative.

use super::ir::*;
use crate::tape::Tape;
use crate::val::V;
use serde::{Deserialize, Serialize};

#[derive(Clone, Debug, Serialize, Deserialize)]
pub struct World {
    pub tables: Vec<TableDef>,
    pub rows: Vec<Vec<Vec<V>>>,
}

#[derive(Clone, Copy, Debug, PartialEq, Eq)]
pub enum Profile {
    IntStr,
    IntStrFloat,
}

#[derive(Clone, Debug)]
pub struct WorldCfg {
    pub profile: Profile,
    pub min_tables: usize,
    pub max_tables: usize,
    pub min_cols: usize,
    pub max_cols: usize,
    pub max_rows: usize,
    pub pk_chance: (u32, u32),
    pub not_null_chance: (u32, u32),
}

impl Default for WorldCfg {
    fn default() -> Self {
        WorldCfg { profile: Profile::IntStr, min_tables: 1, max_tables: 3, min_cols: 2, max_cols: 4, max_rows: 12, pk_chance: (0, 1), not_null_chance: (0, 1) }
    }
}

pub const WORDS: &[&str] = &["a", "", "A", " a", "a ", "ab", "abc", "abd", "b", "B"];
const COL_LETTERS: &[&str] = &["a", "b", "c", "d", "e", "f"];

pub fn gen_int_val(t: &mut Tape) -> i64 {
    match t.weighted(&[8, 1, 1]) {
        0 => *t.pick(&[0i64, 1, 2, 3, 4, 5, 6, 7, 8, -1, -2, -3]),
        1 => 100,
        _ => *t.pick(&[0i64, 1, -1, 7, 50, -50]),
    }
}

pub fn gen_word(t: &mut Tape) -> String {
    t.pick(WORDS).to_string()
}

pub fn gen_float_val(t: &mut Tape) -> f64 {
    match t.weighted(&[6, 2, 1]) {
        0 => (t.range(0, 22) - 6) as f64 / 2.0,
        1 => *t.pick(&[0.0, -0.0, 1.0, 0.5, 100.0, -100.0, 1e10, 1e-10, 0.1]),
        _ => t.range(-1000, 1000) as f64 / 8.0,
    }
}

pub fn gen_cell(t: &mut Tape, ty: &ColTy, null_den: u32) -> V {
    // null_den: NULL probability in tenths
    if null_den > 0 && t.chance(null_den, 10) {
        return V::Null;
    }
    match ty {
        ColTy::Int | ColTy::Bigint | ColTy::Smallint => V::Int(gen_int_val(t)),
        ColTy::Varchar(_) | ColTy::Char(_) => V::Varchar(gen_word(t)),
        ColTy::Double | ColTy::Real | ColTy::Numeric(..) => V::dbl(gen_float_val(t)),
        ColTy::Boolean => V::Bool(t.chance(1, 2)),
        ColTy::Date => {
            let (y, m, d) = crate::val::gen_date(t);
            V::Date(y, m, d)
        }
        ColTy::Time => {
            let (h, m, s, n) = crate::val::gen_time(t);
            V::Time(h, m, s, n)
        }
        ColTy::Timestamp => {
            let (y, mo, d) = crate::val::gen_date(t);
            let (h, mi, s, n) = crate::val::gen_time(t);
            V::Ts(y, mo, d, h, mi, s, n)
        }
    }
}

pub fn gen_world(t: &mut Tape, cfg: &WorldCfg) -> World {
    let nt = t.range(cfg.min_tables as i64, cfg.max_tables as i64) as usize;
    let mut tables = Vec::new();
    let mut rows = Vec::new();
    for ti in 0..nt {
        let nc = t.range(cfg.min_cols as i64, cfg.max_cols as i64) as usize;
        let mut cols = Vec::new();
        for ci in 0..nc {
            let ty = if ci == 0 {
                ColTy::Int
            } else {
                match cfg.profile {
                    Profile::IntStr => *t.pick(&[0usize, 1, 0]),
                    Profile::IntStrFloat => *t.pick(&[0usize, 1, 2, 0, 2]),
                }
                .pipe(|k| match k {
                    0 => ColTy::Int,
                    1 => ColTy::Varchar(12),
                    _ => ColTy::Double,
                })
            };
            cols.push(ColDef { name: format!("t{}_{}", ti, COL_LETTERS[ci]), ty, not_null: false });
        }
        let mut def = TableDef { name: format!("t{}", ti), cols, ..Default::default() };
        let with_pk = t.chance(cfg.pk_chance.0, cfg.pk_chance.1.max(1));
        if with_pk {
            def.pk = vec![0];
            def.cols[0].not_null = true;
        }
        // per-column NULL density in tenths
        let dens: Vec<u32> = def
            .cols
            .iter()
            .enumerate()
            .map(|(i, _)| if with_pk && i == 0 { 0 } else { *t.pick(&[2u32, 0, 6, 10, 2, 0]) })
            .collect();
        for (i, c) in def.cols.iter_mut().enumerate() {
            if dens[i] == 0 && t.chance(cfg.not_null_chance.0, cfg.not_null_chance.1.max(1)) {
                c.not_null = true;
            }
        }
        let nr = match t.weighted(&[8, 1, 1]) {
            0 => t.range(2, cfg.max_rows.max(2) as i64) as usize,
            1 => 0,
            _ => 1,
        };
        let mut trows: Vec<Vec<V>> = Vec::new();
        for ri in 0..nr {
            let mut r: Vec<V> = def.cols.iter().enumerate().map(|(i, c)| gen_cell(t, &c.ty, dens[i])).collect();
            if with_pk {
                r[0] = V::Int(ri as i64 + 1);
            }
            // duplicate an earlier row sometimes (bag semantics)
            if !with_pk && ri > 0 && t.chance(1, 6) {
                let k = t.below(ri);
                r = trows[k].clone();
            }
            trows.push(r);
        }
        tables.push(def);
        rows.push(trows);
    }
    World { tables, rows }
}

trait Pipe: Sized {
    fn pipe<R>(self, f: impl FnOnce(Self) -> R) -> R {
        f(self)
    }
}
impl<T> Pipe for T {}

impl World {
    /// DDL + DML statements that build this world.
    pub fn setup_sql(&self, d: Dialect) -> Vec<String> {
        let mut v = Vec::new();
        for (t, rows) in self.tables.iter().zip(self.rows.iter()) {
            v.push(t.create_sql(d));
            for chunk in rows.chunks(8) {
                v.push(insert_sql(&t.name, None, chunk, d));
            }
        }
        v
    }
    pub fn total_rows(&self) -> usize {
        self.rows.iter().map(|r| r.len()).sum()
    }
    pub fn has_null(&self) -> bool {
        self.rows.iter().flatten().flatten().any(|v| matches!(v, V::Null))
    }
}

// -------------------------------------------------------------------------------------------------
// Expressions

#[derive(Clone, Debug)]
pub struct ScopeCol {
    pub qual: Option<String>,
    pub name: String,
    pub ty: Ty,
    /// base table name when the FROM item is an unaliased table
    pub table: Option<String>,
}
impl ScopeCol {
    pub fn expr(&self) -> Expr {
        Expr::Col { qual: self.qual.clone(), name: self.name.clone() }
    }
    /// reference from inside a subquery: always qualified, so that an inner table with the
    /// same column names cannot capture it
    pub fn outer_expr(&self) -> Expr {
        Expr::Col { qual: self.qual.clone().or_else(|| self.table.clone()), name: self.name.clone() }
    }
}

#[derive(Clone, Debug)]
pub struct ExprOpts {
    pub like: bool,
    pub subqueries: bool,
    pub float: bool,
    pub case: bool,
    /// allow arithmetic (+ - *)
    pub arith: bool,
    /// predicates restricted to comparisons of columns/literals combined with AND/OR
    pub simple_preds: bool,
    /// IN (subquery) / [NOT] EXISTS inside predicates
    pub pred_subqueries: bool,
}
impl Default for ExprOpts {
    fn default() -> Self {
        ExprOpts { like: false, subqueries: false, float: false, case: true, arith: true, simple_preds: false, pred_subqueries: false }
    }
}

pub struct Gen<'w> {
    pub world: &'w World,
    pub opts: ExprOpts,
    /// counter for fresh aliases
    pub alias_n: usize,
}

impl<'w> Gen<'w> {
    pub fn new(world: &'w World, opts: ExprOpts) -> Self {
        Gen { world, opts, alias_n: 0 }
    }

    pub fn table_scope(&self, ti: usize, qual: Option<&str>) -> Vec<ScopeCol> {
        let tname = self.world.tables[ti].name.clone();
        self.world.tables[ti]
            .cols
            .iter()
            .map(|c| ScopeCol { qual: qual.map(|s| s.to_string()), name: c.name.clone(), ty: c.ty.ty(), table: if qual.is_none() { Some(tname.clone()) } else { None } })
            .collect()
    }

    fn cols_of<'a>(&self, scope: &'a [ScopeCol], ty: Ty) -> Vec<&'a ScopeCol> {
        scope.iter().filter(|c| c.ty == ty).collect()
    }

    pub fn lit(&self, t: &mut Tape, ty: Ty) -> Expr {
        match ty {
            Ty::Int => Expr::Lit(if t.chance(1, 12) { V::Null } else { V::Int(gen_int_val(t)) }),
            Ty::Str => Expr::Lit(if t.chance(1, 12) { V::Null } else { V::Varchar(gen_word(t)) }),
            Ty::Flt => Expr::Lit(if t.chance(1, 12) { V::Null } else { V::dbl(gen_float_val(t)) }),
            Ty::Bool => Expr::Lit(match t.below(3) {
                0 => V::Bool(true),
                1 => V::Bool(false),
                _ => V::Null,
            }),
        }
    }

    /// A column of the type if one exists, else a literal.
    pub fn leaf(&self, t: &mut Tape, scope: &[ScopeCol], ty: Ty) -> Expr {
        let cs = self.cols_of(scope, ty);
        if !cs.is_empty() && t.chance(3, 4) {
            cs[t.below(cs.len())].expr()
        } else if ty == Ty::Bool {
            // boolean literals are rare in real SQL; prefer a comparison
            self.cmp(t, scope, 0)
        } else {
            self.lit(t, ty)
        }
    }

    fn cmp(&self, t: &mut Tape, scope: &[ScopeCol], depth: u32) -> Expr {
        let ty = self.operand_ty(t, scope);
        let a = self.expr(t, scope, ty, depth.saturating_sub(1));
        let b = self.expr(t, scope, ty, depth.saturating_sub(1));
        let op = *t.pick(&[BinOp::Eq, BinOp::Lt, BinOp::Gt, BinOp::Le, BinOp::Ge, BinOp::Ne]);
        bin(a, op, b)
    }

    fn operand_ty(&self, t: &mut Tape, scope: &[ScopeCol]) -> Ty {
        let has_str = scope.iter().any(|c| c.ty == Ty::Str);
        let has_flt = self.opts.float && scope.iter().any(|c| c.ty == Ty::Flt);
        match t.weighted(&[6, if has_str { 3 } else { 0 }, if has_flt { 3 } else { 0 }]) {
            0 => Ty::Int,
            1 => Ty::Str,
            _ => Ty::Flt,
        }
    }

    pub fn expr(&self, t: &mut Tape, scope: &[ScopeCol], ty: Ty, depth: u32) -> Expr {
        if depth == 0 {
            return self.leaf(t, scope, ty);
        }
        let d = depth - 1;
        match ty {
            Ty::Int => match t.weighted(&[5, if self.opts.arith { 4 } else { 0 }, if self.opts.case { 1 } else { 0 }, 1, if self.opts.arith { 1 } else { 0 }, if self.opts.subqueries { 1 } else { 0 }]) {
                0 => self.leaf(t, scope, ty),
                1 => {
                    let op = *t.pick(&[BinOp::Add, BinOp::Sub, BinOp::Mul]);
                    bin(self.expr(t, scope, Ty::Int, d), op, self.expr(t, scope, Ty::Int, d.min(1)))
                }
                2 => self.case(t, scope, ty, d),
                3 => Expr::Coalesce(vec![self.expr(t, scope, ty, d), self.expr(t, scope, ty, d)]),
                4 => Expr::Neg(Box::new(self.leaf(t, scope, ty))),
                _ => self.scalar_sub(t, scope),
            },
            Ty::Str => match t.weighted(&[6, if self.opts.case { 1 } else { 0 }, 1]) {
                0 => self.leaf(t, scope, ty),
                1 => self.case(t, scope, ty, d),
                _ => Expr::Coalesce(vec![self.expr(t, scope, ty, d), self.expr(t, scope, ty, d)]),
            },
            Ty::Flt => match t.weighted(&[5, if self.opts.arith { 3 } else { 0 }, 1]) {
                0 => self.leaf(t, scope, ty),
                1 => {
                    let op = *t.pick(&[BinOp::Add, BinOp::Sub, BinOp::Mul]);
                    bin(self.expr(t, scope, Ty::Flt, d), op, self.expr(t, scope, Ty::Flt, d.min(1)))
                }
                _ => Expr::Coalesce(vec![self.expr(t, scope, ty, d), self.expr(t, scope, ty, d)]),
            },
            Ty::Bool => self.pred(t, scope, depth),
        }
    }

    fn case(&self, t: &mut Tape, scope: &[ScopeCol], ty: Ty, d: u32) -> Expr {
        let n = t.range(1, 2) as usize;
        let whens = (0..n).map(|_| (self.pred(t, scope, d), self.expr(t, scope, ty, d))).collect();
        let els = if t.chance(2, 3) { Some(Box::new(self.expr(t, scope, ty, d))) } else { None };
        Expr::Case { whens, els }
    }

    /// Boolean predicate (three-valued).
    pub fn pred(&self, t: &mut Tape, scope: &[ScopeCol], depth: u32) -> Expr {
        let d = depth.saturating_sub(1);
        let deep = depth > 0;
        if self.opts.simple_preds {
            let lvl: u32 = std::env::var("VERIF_SIMPLE_LEVEL").ok().and_then(|s| s.parse().ok()).unwrap_or(0);
            let has = |b: u32| lvl & b != 0;
            return match t.weighted(&[6, if deep { 3 } else { 0 }, if deep { 2 } else { 0 }, if has(1) && deep { 3 } else { 0 }, if has(2) { 3 } else { 0 }, if has(4) { 3 } else { 0 }, if has(8) { 3 } else { 0 }, if has(16) { 3 } else { 0 }]) {
                3 => Expr::Not(Box::new(self.pred(t, scope, d))),
                4 => {
                    let ty = self.operand_ty(t, scope);
                    Expr::IsNull(Box::new(self.leaf(t, scope, ty)), t.chance(1, 2))
                }
                5 => {
                    let ty = self.operand_ty(t, scope);
                    Expr::Between { e: Box::new(self.leaf(t, scope, ty)), lo: Box::new(self.leaf(t, scope, ty)), hi: Box::new(self.leaf(t, scope, ty)), neg: t.chance(1, 4) }
                }
                6 => {
                    let ty = self.operand_ty(t, scope);
                    let n = t.range(1, 3) as usize;
                    Expr::InList { e: Box::new(self.leaf(t, scope, ty)), list: (0..n).map(|_| self.lit(t, ty)).collect(), neg: t.chance(1, 3) }
                }
                7 => {
                    // arithmetic / CASE / COALESCE operands
                    let a = Gen { world: self.world, opts: ExprOpts { simple_preds: false, subqueries: false, pred_subqueries: false, ..self.opts.clone() }, alias_n: 0 }.expr(t, scope, Ty::Int, 2);
                    bin(a, *t.pick(&[BinOp::Eq, BinOp::Lt, BinOp::Ge]), self.leaf(t, scope, Ty::Int))
                }
                0 => {
                    let ty = self.operand_ty(t, scope);
                    let a = self.leaf(t, scope, ty);
                    let b = self.leaf(t, scope, ty);
                    bin(a, *t.pick(&[BinOp::Eq, BinOp::Lt, BinOp::Gt, BinOp::Le, BinOp::Ge, BinOp::Ne]), b)
                }
                1 => bin(self.pred(t, scope, d), BinOp::And, self.pred(t, scope, d)),
                _ => bin(self.pred(t, scope, d), BinOp::Or, self.pred(t, scope, d)),
            };
        }
        let w = [
            8,                                               // comparison
            if deep { 4 } else { 0 },                        // AND
            if deep { 4 } else { 0 },                        // OR
            if deep { 3 } else { 0 },                        // NOT
            3,                                               // IS [NOT] NULL
            2,                                               // BETWEEN
            2,                                               // IN list
            if self.opts.like { 2 } else { 0 },              // LIKE
            if self.opts.pred_subqueries && deep { 2 } else { 0 }, // IN subquery
            if self.opts.pred_subqueries && deep { 2 } else { 0 }, // EXISTS
            if self.opts.case && deep { 1 } else { 0 },      // CASE yielding bool
        ];
        match t.weighted(&w) {
            0 => self.cmp(t, scope, depth),
            1 => bin(self.pred(t, scope, d), BinOp::And, self.pred(t, scope, d)),
            2 => bin(self.pred(t, scope, d), BinOp::Or, self.pred(t, scope, d)),
            3 => Expr::Not(Box::new(self.pred(t, scope, d))),
            4 => {
                let ty = self.operand_ty(t, scope);
                Expr::IsNull(Box::new(self.expr(t, scope, ty, d.min(1))), t.chance(1, 2))
            }
            5 => {
                let ty = self.operand_ty(t, scope);
                Expr::Between {
                    e: Box::new(self.expr(t, scope, ty, d.min(1))),
                    lo: Box::new(self.expr(t, scope, ty, 0)),
                    hi: Box::new(self.expr(t, scope, ty, 0)),
                    neg: t.chance(1, 4),
                }
            }
            6 => {
                let ty = self.operand_ty(t, scope);
                let n = t.range(1, 4) as usize;
                Expr::InList { e: Box::new(self.expr(t, scope, ty, d.min(1))), list: (0..n).map(|_| self.lit(t, ty)).collect(), neg: t.chance(1, 3) }
            }
            7 => {
                let cs = self.cols_of(scope, Ty::Str);
                let e = if cs.is_empty() { self.lit(t, Ty::Str) } else { cs[t.below(cs.len())].expr() };
                let pat = t.pick(&["a%", "%", "_", "%b%", "a_", "", "A%", "%a", "ab%", "_b_"]).to_string();
                Expr::Like { e: Box::new(e), pat, neg: t.chance(1, 4) }
            }
            8 => self.in_sub(t, scope),
            9 => self.exists(t, scope),
            _ => Expr::Case {
                whens: vec![(self.pred(t, scope, d), self.pred(t, scope, d))],
                els: if t.chance(1, 2) { Some(Box::new(self.pred(t, scope, d))) } else { None },
            },
        }
    }

    fn fresh_alias(&self, t: &mut Tape) -> String {
        // aliases need only be unique per nesting level; derive from tape position
        format!("s{}", t.used() % 1000)
    }

    /// `(SELECT agg(col) FROM tk [WHERE ...])` — always exactly one row.
    pub fn scalar_sub(&self, t: &mut Tape, outer: &[ScopeCol]) -> Expr {
        let ti = t.below(self.world.tables.len());
        let alias = self.fresh_alias(t);
        let inner = self.table_scope(ti, Some(&alias));
        let ints = self.cols_of(&inner, Ty::Int);
        let arg = if ints.is_empty() || t.chance(1, 4) {
            None
        } else {
            Some(Box::new(ints[t.below(ints.len())].expr()))
        };
        let f = if arg.is_none() { AggFn::Count } else { *t.pick(&[AggFn::Max, AggFn::Min, AggFn::Count, AggFn::Sum]) };
        let mut sel = Select {
            items: vec![(Expr::Agg { f, distinct: false, arg }, None)],
            from: vec![FromItem::Table { name: self.world.tables[ti].name.clone(), alias: Some(alias.clone()) }],
            ..Default::default()
        };
        if t.chance(1, 2) {
            sel.where_ = Some(self.corr_pred(t, &inner, outer));
        }
        Expr::ScalarSub(Box::new(Query::of(sel)))
    }

    /// predicate over inner scope, optionally correlated with the outer scope by equality
    fn corr_pred(&self, t: &mut Tape, inner: &[ScopeCol], outer: &[ScopeCol]) -> Expr {
        let sub = Gen { world: self.world, opts: ExprOpts { subqueries: false, pred_subqueries: false, ..self.opts.clone() }, alias_n: 0 };
        if !outer.is_empty() && t.chance(1, 2) {
            // correlated equality on a same-typed pair
            let ic = &inner[t.below(inner.len())];
            let oc: Vec<&ScopeCol> = outer.iter().filter(|c| c.ty == ic.ty).collect();
            if !oc.is_empty() {
                let o = oc[t.below(oc.len())];
                let eq = bin(ic.expr(), BinOp::Eq, o.outer_expr());
                if t.chance(1, 3) {
                    return bin(eq, BinOp::And, sub.pred(t, inner, 1));
                }
                return eq;
            }
        }
        sub.pred(t, inner, 1)
    }

    pub fn in_sub(&self, t: &mut Tape, outer: &[ScopeCol]) -> Expr {
        let ti = t.below(self.world.tables.len());
        let alias = self.fresh_alias(t);
        let inner = self.table_scope(ti, Some(&alias));
        let ic = inner[t.below(inner.len())].clone();
        let e = self.expr(t, outer, ic.ty, 1);
        let mut sel = Select {
            items: vec![(ic.expr(), None)],
            from: vec![FromItem::Table { name: self.world.tables[ti].name.clone(), alias: Some(alias) }],
            ..Default::default()
        };
        if t.chance(1, 2) {
            sel.where_ = Some(self.corr_pred(t, &inner, &[]));
        }
        Expr::InSub { e: Box::new(e), q: Box::new(Query::of(sel)), neg: t.chance(1, 3) }
    }

    pub fn exists(&self, t: &mut Tape, outer: &[ScopeCol]) -> Expr {
        let ti = t.below(self.world.tables.len());
        let alias = self.fresh_alias(t);
        let inner = self.table_scope(ti, Some(&alias));
        let sel = Select {
            items: vec![(int(1), None)],
            from: vec![FromItem::Table { name: self.world.tables[ti].name.clone(), alias: Some(alias) }],
            where_: Some(self.corr_pred(t, &inner, outer)),
            ..Default::default()
        };
        Expr::Exists { q: Box::new(Query::of(sel)), neg: t.chance(1, 3) }
    }
}

// -------------------------------------------------------------------------------------------------
// Queries

#[derive(Clone, Debug)]
pub struct QueryOpts {
    pub joins: bool,
    pub outer_joins: bool,
    pub right_full: bool,
    pub aggregates: bool,
    pub group_by: bool,
    pub distinct: bool,
    pub set_ops: bool,
    pub set_all_variants: bool,
    pub order_limit: bool,
    pub derived: bool,
    pub cte: bool,
    pub expr_depth: u32,
    pub agg_distinct: bool,
    /// ORDER BY / LIMIT allowed on aggregate (GROUP BY) queries
    pub order_on_agg: bool,
    /// ORDER BY / LIMIT allowed on set operations
    pub order_on_setop: bool,
    /// the same table may appear twice in one FROM clause
    pub self_join: bool,
}
impl Default for QueryOpts {
    fn default() -> Self {
        QueryOpts {
            joins: true,
            outer_joins: true,
            right_full: true,
            aggregates: true,
            group_by: true,
            distinct: true,
            set_ops: true,
            set_all_variants: true,
            order_limit: true,
            derived: true,
            cte: true,
            expr_depth: 3,
            agg_distinct: true,
            order_on_agg: true,
            order_on_setop: true,
            self_join: true,
        }
    }
}

/// Output column types of a generated select (needed for set operations and ORDER BY).
pub struct GenSelect {
    pub sel: Select,
    pub out_tys: Vec<Ty>,
    pub features: Vec<&'static str>,
}

impl<'w> Gen<'w> {
    /// FROM clause over 1..=3 tables; returns the items and the visible scope.
    pub fn gen_from(&self, t: &mut Tape, q: &QueryOpts, feats: &mut Vec<&'static str>) -> (Vec<FromItem>, Vec<ScopeCol>) {
        let nt = self.world.tables.len();
        let n = if q.joins { (t.weighted(&[5, 4, 1]) + 1).min(3) } else { 1 };
        // choose tables; a table may repeat (self join) => aliases + qualified refs everywhere
        let mut picks: Vec<usize> = (0..n).map(|_| t.below(nt)).collect();
        if !q.self_join {
            let mut seen = Vec::new();
            picks.retain(|p| {
                if seen.contains(p) {
                    false
                } else {
                    seen.push(*p);
                    true
                }
            });
        }
        let dup = (0..picks.len()).any(|i| picks[..i].contains(&picks[i]));
        let mut items: Vec<(FromItem, Vec<ScopeCol>)> = Vec::new();
        for (k, &ti) in picks.iter().enumerate() {
            let tname = &self.world.tables[ti].name;
            if q.derived && t.chance(1, 8) {
                // wrap as derived table exposing the same column names
                let alias = format!("d{}", k);
                feats.push("derived");
                let inner = Query::of(Select { items: vec![], from: vec![FromItem::table(tname)], ..Default::default() });
                let scope = self.table_scope(ti, Some(&alias));
                items.push((FromItem::Derived { q: Box::new(inner), alias }, scope));
            } else if dup {
                let alias = format!("r{}", k);
                let scope = self.table_scope(ti, Some(&alias));
                items.push((FromItem::Table { name: tname.clone(), alias: Some(alias) }, scope));
            } else {
                items.push((FromItem::table(tname), self.table_scope(ti, None)));
            }
        }
        if items.len() == 1 {
            let (f, s) = items.pop().unwrap();
            return (vec![f], s);
        }
        feats.push("join");
        // comma list or explicit join chain
        if t.chance(1, 3) {
            let scope = items.iter().flat_map(|(_, s)| s.clone()).collect();
            return (items.into_iter().map(|(f, _)| f).collect(), scope);
        }
        let mut it = items.into_iter();
        let (mut acc, mut scope) = it.next().unwrap();
        for (f, s) in it {
            let kind = if q.outer_joins {
                match t.weighted(&[6, 4, 1, if q.right_full { 1 } else { 0 }, if q.right_full { 1 } else { 0 }]) {
                    0 => JoinKind::Inner,
                    1 => JoinKind::Left,
                    2 => JoinKind::Cross,
                    3 => JoinKind::Right,
                    _ => JoinKind::Full,
                }
            } else {
                JoinKind::Inner
            };
            let mut both = scope.clone();
            both.extend(s.clone());
            let on = if kind == JoinKind::Cross {
                None
            } else {
                // mostly an equality between same-typed columns of both sides
                let l = &scope[t.below(scope.len())];
                let rs: Vec<&ScopeCol> = s.iter().filter(|c| c.ty == l.ty).collect();
                if !rs.is_empty() && t.chance(3, 4) {
                    let r = rs[t.below(rs.len())];
                    let eq = bin(l.expr(), BinOp::Eq, r.expr());
                    if t.chance(1, 4) {
                        Some(bin(eq, BinOp::And, self.pred(t, &both, 1)))
                    } else {
                        Some(eq)
                    }
                } else {
                    Some(self.pred(t, &both, 1))
                }
            };
            if kind != JoinKind::Inner && kind != JoinKind::Cross {
                feats.push("outer_join");
            }
            acc = FromItem::Join { l: Box::new(acc), kind, r: Box::new(f), on };
            scope = both;
        }
        (vec![acc], scope)
    }

    fn agg_expr(&self, t: &mut Tape, scope: &[ScopeCol], q: &QueryOpts) -> (Expr, Ty) {
        let f = *t.pick(&[AggFn::Count, AggFn::Sum, AggFn::Min, AggFn::Max, AggFn::Avg, AggFn::Count]);
        if f == AggFn::Count && t.chance(1, 2) {
            return (Expr::Agg { f, distinct: false, arg: None }, Ty::Int);
        }
        let distinct = q.agg_distinct && t.chance(1, 5);
        match f {
            AggFn::Count => {
                let ty = self.operand_ty(t, scope);
                (Expr::Agg { f, distinct, arg: Some(Box::new(self.expr(t, scope, ty, 1))) }, Ty::Int)
            }
            AggFn::Sum => (Expr::Agg { f, distinct, arg: Some(Box::new(self.expr(t, scope, Ty::Int, 1))) }, Ty::Int),
            AggFn::Avg => (Expr::Agg { f, distinct, arg: Some(Box::new(self.expr(t, scope, Ty::Int, 1))) }, Ty::Flt),
            AggFn::Min | AggFn::Max => {
                let ty = self.operand_ty(t, scope);
                (Expr::Agg { f, distinct: false, arg: Some(Box::new(self.expr(t, scope, ty, 1))) }, ty)
            }
        }
    }

    /// One SELECT block. `want` forces the output column types (for set-operation arms).
    pub fn gen_select(&self, t: &mut Tape, q: &QueryOpts, want: Option<&[Ty]>) -> GenSelect {
        let mut feats: Vec<&'static str> = Vec::new();
        let (from, scope) = self.gen_from(t, q, &mut feats);
        let mut sel = Select { from, ..Default::default() };
        if t.chance(2, 3) {
            sel.where_ = Some(self.pred(t, &scope, q.expr_depth));
        }
        let mode = if want.is_some() {
            // arms of set operations: plain or grouped with forced types
            t.weighted(&[4, if q.aggregates { 1 } else { 0 }, 0])
        } else {
            t.weighted(&[5, if q.aggregates { 2 } else { 0 }, if q.group_by { 3 } else { 0 }])
        };
        let mut out_tys = Vec::new();
        match mode {
            0 => {
                // plain projection
                let tys: Vec<Ty> = match want {
                    Some(w) => w.to_vec(),
                    None => {
                        let n = t.range(1, 3) as usize;
                        (0..n).map(|_| *t.pick(&[Ty::Int, Ty::Str, Ty::Int, Ty::Bool])).collect()
                    }
                };
                for (i, ty) in tys.iter().enumerate() {
                    let e = self.expr(t, &scope, *ty, q.expr_depth.min(2));
                    sel.items.push((e, Some(format!("c{}", i))));
                    out_tys.push(*ty);
                }
                if q.distinct && t.chance(1, 5) {
                    sel.distinct = true;
                    feats.push("distinct");
                }
            }
            1 => {
                // aggregates without GROUP BY
                feats.push("aggregate");
                let tys: Vec<Ty> = match want {
                    Some(w) => w.to_vec(),
                    None => vec![],
                };
                if tys.is_empty() {
                    let n = t.range(1, 3) as usize;
                    for i in 0..n {
                        let (e, ty) = self.agg_expr(t, &scope, q);
                        sel.items.push((e, Some(format!("c{}", i))));
                        out_tys.push(ty);
                    }
                } else {
                    for (i, ty) in tys.iter().enumerate() {
                        let e = match ty {
                            Ty::Int => Expr::Agg { f: *t.pick(&[AggFn::Count, AggFn::Sum, AggFn::Max]), distinct: false, arg: Some(Box::new(self.expr(t, &scope, Ty::Int, 1))) },
                            Ty::Flt => Expr::Agg { f: AggFn::Avg, distinct: false, arg: Some(Box::new(self.expr(t, &scope, Ty::Int, 1))) },
                            other => Expr::Agg { f: *t.pick(&[AggFn::Min, AggFn::Max]), distinct: false, arg: Some(Box::new(self.expr(t, &scope, *other, 1))) },
                        };
                        sel.items.push((e, Some(format!("c{}", i))));
                        out_tys.push(*ty);
                    }
                }
                if t.chance(1, 5) {
                    let (h, hty) = self.agg_expr(t, &scope, q);
                    if hty == Ty::Int {
                        sel.having = Some(bin(h, *t.pick(&[BinOp::Gt, BinOp::Le, BinOp::Eq]), int(t.range(0, 3))));
                        feats.push("having");
                    }
                }
            }
            _ => {
                // GROUP BY
                feats.push("aggregate");
                feats.push("group_by");
                let nk = t.range(1, 2) as usize;
                for i in 0..nk {
                    let c = &scope[t.below(scope.len())];
                    let key = if t.chance(1, 5) && c.ty == Ty::Int { bin(c.expr(), BinOp::Add, int(1)) } else { c.expr() };
                    sel.group_by.push(key.clone());
                    sel.items.push((key, Some(format!("c{}", i))));
                    out_tys.push(c.ty);
                }
                let na = t.range(0, 2) as usize;
                for i in 0..na {
                    let (e, ty) = self.agg_expr(t, &scope, q);
                    sel.items.push((e, Some(format!("c{}", nk + i))));
                    out_tys.push(ty);
                }
                if t.chance(1, 4) {
                    let (h, hty) = self.agg_expr(t, &scope, q);
                    if hty == Ty::Int {
                        sel.having = Some(bin(h, *t.pick(&[BinOp::Gt, BinOp::Le, BinOp::Eq]), int(t.range(0, 3))));
                        feats.push("having");
                    }
                }
            }
        }
        let mut null_feat = false;
        let mut sub_feat = false;
        let mut visit = |e: &Expr| {
            e.walk(&mut |x| match x {
                Expr::Case { .. } | Expr::Coalesce(_) | Expr::Lit(V::Null) | Expr::IsNull(..) => null_feat = true,
                Expr::ScalarSub(_) | Expr::InSub { .. } | Expr::Exists { .. } => sub_feat = true,
                _ => {}
            })
        };
        for (e, _) in &sel.items {
            visit(e);
        }
        if let Some(w) = &sel.where_ {
            visit(w);
        }
        if null_feat {
            feats.push("null_expr");
        }
        if sub_feat {
            feats.push("subquery");
        }
        GenSelect { sel, out_tys, features: feats }
    }

    pub fn gen_query(&self, t: &mut Tape, q: &QueryOpts) -> (Query, Vec<&'static str>, Vec<Ty>) {
        let first = self.gen_select(t, q, None);
        let mut feats = first.features.clone();
        let out_tys = first.out_tys.clone();
        let mut body = SetExpr::Select(first.sel);
        if q.set_ops && t.chance(1, 5) {
            let arms = t.range(1, 2);
            for _ in 0..arms {
                let arm = self.gen_select(t, q, Some(&out_tys));
                let op = *t.pick(&[SetOp::Union, SetOp::Intersect, SetOp::Except]);
                let all = if q.set_all_variants || op == SetOp::Union { t.chance(1, 2) } else { false };
                body = SetExpr::Op { l: Box::new(body), op, all, r: Box::new(SetExpr::Select(arm.sel)) };
                for f in arm.features {
                    if !feats.contains(&f) {
                        feats.push(f);
                    }
                }
            }
            feats.push("set_op");
        }
        let mut query = Query { with: vec![], body, order_by: vec![], limit: None, offset: None };
        let order_ok = q.order_limit
            && (q.order_on_setop || !query.body.is_setop())
            && (q.order_on_agg || query.body.is_setop() || !query.body.first_select().is_agg());
        if order_ok && t.chance(1, 3) {
            // total order over every output column (positions), random directions
            let n = out_tys.len();
            let mut pos: Vec<usize> = (1..=n).collect();
            // random permutation
            for i in (1..n).rev() {
                let j = t.below(i + 1);
                pos.swap(i, j);
            }
            query.order_by = pos.into_iter().map(|p| (OrderKey::Pos(p), t.chance(1, 2))).collect();
            feats.push("order_by");
            if t.chance(1, 2) {
                query.limit = Some(t.range(0, 6) as u64);
                if t.chance(1, 2) {
                    query.offset = Some(t.range(0, 4) as u64);
                }
                feats.push("limit");
            }
        }
        (query, feats, out_tys)
    }
}
