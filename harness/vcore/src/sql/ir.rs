//! Typed SQL IR shared by all SQL-level checks, with renderers for the vibesql dialect and
//! for the SQLite reference. Rendering is fully parenthesised.

use crate::val::V;
use serde::{Deserialize, Serialize};

#[derive(Clone, Copy, Debug, PartialEq, Eq, Hash, Serialize, Deserialize)]
pub enum Ty {
    Int,
    Str,
    Flt,
    Bool,
}

#[derive(Clone, Debug, PartialEq, Eq, Hash, Serialize, Deserialize)]
pub enum ColTy {
    Int,
    Smallint,
    Bigint,
    Varchar(u32),
    Char(u32),
    Double,
    Real,
    Numeric(u8, u8),
    Boolean,
    Date,
    Time,
    Timestamp,
}
impl ColTy {
    pub fn ty(&self) -> Ty {
        match self {
            ColTy::Int | ColTy::Smallint | ColTy::Bigint => Ty::Int,
            ColTy::Varchar(_) | ColTy::Char(_) | ColTy::Date | ColTy::Time | ColTy::Timestamp => Ty::Str,
            ColTy::Double | ColTy::Real | ColTy::Numeric(..) => Ty::Flt,
            ColTy::Boolean => Ty::Bool,
        }
    }
    pub fn sql(&self) -> String {
        match self {
            ColTy::Int => "INTEGER".into(),
            ColTy::Smallint => "SMALLINT".into(),
            ColTy::Bigint => "BIGINT".into(),
            ColTy::Varchar(n) => format!("VARCHAR({})", n),
            ColTy::Char(n) => format!("CHAR({})", n),
            ColTy::Double => "DOUBLE PRECISION".into(),
            ColTy::Real => "REAL".into(),
            ColTy::Numeric(p, s) => format!("NUMERIC({}, {})", p, s),
            ColTy::Boolean => "BOOLEAN".into(),
            ColTy::Date => "DATE".into(),
            ColTy::Time => "TIME".into(),
            ColTy::Timestamp => "TIMESTAMP".into(),
        }
    }
}

#[derive(Clone, Debug, Serialize, Deserialize)]
pub struct ColDef {
    pub name: String,
    pub ty: ColTy,
    pub not_null: bool,
}

#[derive(Clone, Copy, Debug, PartialEq, Eq, Serialize, Deserialize)]
pub enum FkAction {
    NoAction,
    Restrict,
    Cascade,
    SetNull,
}
impl FkAction {
    pub fn sql(&self) -> &'static str {
        match self {
            FkAction::NoAction => "NO ACTION",
            FkAction::Restrict => "RESTRICT",
            FkAction::Cascade => "CASCADE",
            FkAction::SetNull => "SET NULL",
        }
    }
}

#[derive(Clone, Debug, Serialize, Deserialize)]
pub struct FkDef {
    pub cols: Vec<usize>,
    pub parent: String,
    pub parent_cols: Vec<String>,
    pub on_delete: FkAction,
    pub on_update: FkAction,
}

#[derive(Clone, Debug, Default, Serialize, Deserialize)]
pub struct TableDef {
    pub name: String,
    pub cols: Vec<ColDef>,
    pub pk: Vec<usize>,
    pub uniques: Vec<Vec<usize>>,
    pub checks: Vec<Expr>,
    pub fks: Vec<FkDef>,
}

impl TableDef {
    pub fn create_sql(&self, d: Dialect) -> String {
        let mut parts: Vec<String> = self
            .cols
            .iter()
            .map(|c| format!("{} {}{}", c.name, c.ty.sql(), if c.not_null { " NOT NULL" } else { "" }))
            .collect();
        if !self.pk.is_empty() {
            parts.push(format!("PRIMARY KEY ({})", self.pk.iter().map(|&i| self.cols[i].name.clone()).collect::<Vec<_>>().join(", ")));
        }
        for u in &self.uniques {
            parts.push(format!("UNIQUE ({})", u.iter().map(|&i| self.cols[i].name.clone()).collect::<Vec<_>>().join(", ")));
        }
        for c in &self.checks {
            parts.push(format!("CHECK ({})", c.render(d)));
        }
        for f in &self.fks {
            parts.push(format!(
                "FOREIGN KEY ({}) REFERENCES {} ({}) ON DELETE {} ON UPDATE {}",
                f.cols.iter().map(|&i| self.cols[i].name.clone()).collect::<Vec<_>>().join(", "),
                f.parent,
                f.parent_cols.join(", "),
                f.on_delete.sql(),
                f.on_update.sql()
            ));
        }
        format!("CREATE TABLE {} ({})", self.name, parts.join(", "))
    }
}

#[derive(Clone, Copy, Debug, PartialEq, Eq, Serialize, Deserialize)]
pub enum Dialect {
    Vibe,
    Sqlite,
}

#[derive(Clone, Copy, Debug, PartialEq, Eq, Hash, Serialize, Deserialize)]
pub enum BinOp {
    Add,
    Sub,
    Mul,
    Eq,
    Ne,
    Lt,
    Le,
    Gt,
    Ge,
    And,
    Or,
    Concat,
}
impl BinOp {
    pub fn sql(&self) -> &'static str {
        match self {
            BinOp::Add => "+",
            BinOp::Sub => "-",
            BinOp::Mul => "*",
            BinOp::Eq => "=",
            BinOp::Ne => "<>",
            BinOp::Lt => "<",
            BinOp::Le => "<=",
            BinOp::Gt => ">",
            BinOp::Ge => ">=",
            BinOp::And => "AND",
            BinOp::Or => "OR",
            BinOp::Concat => "||",
        }
    }
    pub fn is_cmp(&self) -> bool {
        matches!(self, BinOp::Eq | BinOp::Ne | BinOp::Lt | BinOp::Le | BinOp::Gt | BinOp::Ge)
    }
}

#[derive(Clone, Copy, Debug, PartialEq, Eq, Hash, Serialize, Deserialize)]
pub enum AggFn {
    Count,
    Sum,
    Avg,
    Min,
    Max,
}
impl AggFn {
    pub fn sql(&self) -> &'static str {
        match self {
            AggFn::Count => "COUNT",
            AggFn::Sum => "SUM",
            AggFn::Avg => "AVG",
            AggFn::Min => "MIN",
            AggFn::Max => "MAX",
        }
    }
}

#[derive(Clone, Debug, Serialize, Deserialize)]
pub enum Expr {
    Lit(V),
    Col { qual: Option<String>, name: String },
    Bin(Box<Expr>, BinOp, Box<Expr>),
    Not(Box<Expr>),
    Neg(Box<Expr>),
    IsNull(Box<Expr>, bool),
    Between { e: Box<Expr>, lo: Box<Expr>, hi: Box<Expr>, neg: bool },
    InList { e: Box<Expr>, list: Vec<Expr>, neg: bool },
    Like { e: Box<Expr>, pat: String, neg: bool },
    Case { whens: Vec<(Expr, Expr)>, els: Option<Box<Expr>> },
    Coalesce(Vec<Expr>),
    Agg { f: AggFn, distinct: bool, arg: Option<Box<Expr>> },
    ScalarSub(Box<Query>),
    InSub { e: Box<Expr>, q: Box<Query>, neg: bool },
    Exists { q: Box<Query>, neg: bool },
    Func { name: String, args: Vec<Expr> },
    /// `(e) IS TRUE`-style truth tests are rendered as CASE for portability
    IsTrue(Box<Expr>),
    Raw(String),
}

pub fn col(name: &str) -> Expr {
    Expr::Col { qual: None, name: name.to_string() }
}
pub fn int(i: i64) -> Expr {
    Expr::Lit(V::Int(i))
}
pub fn bin(a: Expr, op: BinOp, b: Expr) -> Expr {
    Expr::Bin(Box::new(a), op, Box::new(b))
}

pub fn lit_sql(v: &V, d: Dialect) -> String {
    match v {
        V::Null => "NULL".into(),
        V::Int(i) | V::Big(i) => {
            if *i < 0 {
                format!("({})", i)
            } else {
                i.to_string()
            }
        }
        V::Small(i) => {
            if *i < 0 {
                format!("({})", i)
            } else {
                i.to_string()
            }
        }
        V::Uns(u) => u.to_string(),
        V::Double(b) | V::Num(b) => {
            let f = f64::from_bits(*b);
            let s = crate::engine::fmt_f64(f);
            if f < 0.0 || (f == 0.0 && f.is_sign_negative()) {
                format!("({})", s)
            } else {
                s
            }
        }
        V::Float(b) | V::Real(b) => {
            let f = f32::from_bits(*b) as f64;
            let s = crate::engine::fmt_f64(f);
            if f < 0.0 {
                format!("({})", s)
            } else {
                s
            }
        }
        V::Char(s) | V::Varchar(s) => format!("'{}'", s.replace('\'', "''")),
        V::Bool(b) => match d {
            Dialect::Vibe => if *b { "TRUE" } else { "FALSE" }.into(),
            Dialect::Sqlite => if *b { "1" } else { "0" }.into(),
        },
        V::Date(y, m, dd) => match d {
            Dialect::Vibe => format!("DATE '{:04}-{:02}-{:02}'", y, m, dd),
            Dialect::Sqlite => format!("'{:04}-{:02}-{:02}'", y, m, dd),
        },
        V::Time(..) | V::Ts(..) | V::Interval(_) => {
            let sv = v.to_sql();
            match d {
                Dialect::Vibe => crate::engine::lit(&sv),
                Dialect::Sqlite => format!("'{}'", sv),
            }
        }
    }
}

impl Expr {
    pub fn render(&self, d: Dialect) -> String {
        match self {
            Expr::Lit(v) => lit_sql(v, d),
            Expr::Col { qual, name } => match qual {
                Some(q) => format!("{}.{}", q, name),
                None => name.clone(),
            },
            Expr::Bin(a, op, b) => format!("({} {} {})", a.render(d), op.sql(), b.render(d)),
            Expr::Not(e) => format!("(NOT {})", e.render(d)),
            Expr::Neg(e) => format!("(- {})", e.render(d)),
            Expr::IsNull(e, neg) => format!("({} IS {}NULL)", e.render(d), if *neg { "NOT " } else { "" }),
            Expr::Between { e, lo, hi, neg } => {
                format!("({} {}BETWEEN {} AND {})", e.render(d), if *neg { "NOT " } else { "" }, lo.render(d), hi.render(d))
            }
            Expr::InList { e, list, neg } => format!(
                "({} {}IN ({}))",
                e.render(d),
                if *neg { "NOT " } else { "" },
                list.iter().map(|x| x.render(d)).collect::<Vec<_>>().join(", ")
            ),
            Expr::Like { e, pat, neg } => format!("({} {}LIKE '{}')", e.render(d), if *neg { "NOT " } else { "" }, pat.replace('\'', "''")),
            Expr::Case { whens, els } => {
                let mut s = String::from("(CASE");
                for (c, r) in whens {
                    s.push_str(&format!(" WHEN {} THEN {}", c.render(d), r.render(d)));
                }
                if let Some(e) = els {
                    s.push_str(&format!(" ELSE {}", e.render(d)));
                }
                s.push_str(" END)");
                s
            }
            Expr::Coalesce(xs) => format!("COALESCE({})", xs.iter().map(|x| x.render(d)).collect::<Vec<_>>().join(", ")),
            Expr::Agg { f, distinct, arg } => match arg {
                None => "COUNT(*)".into(),
                Some(a) => format!("{}({}{})", f.sql(), if *distinct { "DISTINCT " } else { "" }, a.render(d)),
            },
            Expr::ScalarSub(q) => format!("({})", q.render(d)),
            Expr::InSub { e, q, neg } => format!("({} {}IN ({}))", e.render(d), if *neg { "NOT " } else { "" }, q.render(d)),
            Expr::Exists { q, neg } => format!("({}EXISTS ({}))", if *neg { "NOT " } else { "" }, q.render(d)),
            Expr::Func { name, args } => format!("{}({})", name, args.iter().map(|x| x.render(d)).collect::<Vec<_>>().join(", ")),
            Expr::IsTrue(e) => format!("(CASE WHEN {} THEN 1 ELSE 0 END)", e.render(d)),
            Expr::Raw(s) => s.clone(),
        }
    }

    pub fn has_agg(&self) -> bool {
        let mut found = false;
        self.walk(&mut |e| {
            if matches!(e, Expr::Agg { .. }) {
                found = true;
            }
        });
        found
    }

    /// Visit this expression and its sub-expressions (not descending into subqueries).
    pub fn walk(&self, f: &mut dyn FnMut(&Expr)) {
        f(self);
        match self {
            Expr::Bin(a, _, b) => {
                a.walk(f);
                b.walk(f);
            }
            Expr::Not(e) | Expr::Neg(e) | Expr::IsNull(e, _) | Expr::IsTrue(e) => e.walk(f),
            Expr::Between { e, lo, hi, .. } => {
                e.walk(f);
                lo.walk(f);
                hi.walk(f);
            }
            Expr::InList { e, list, .. } => {
                e.walk(f);
                for x in list {
                    x.walk(f);
                }
            }
            Expr::Like { e, .. } => e.walk(f),
            Expr::Case { whens, els } => {
                for (c, r) in whens {
                    c.walk(f);
                    r.walk(f);
                }
                if let Some(e) = els {
                    e.walk(f);
                }
            }
            Expr::Coalesce(xs) | Expr::Func { args: xs, .. } => {
                for x in xs {
                    x.walk(f);
                }
            }
            Expr::Agg { arg: Some(a), .. } => a.walk(f),
            Expr::InSub { e, .. } => e.walk(f),
            _ => {}
        }
    }

    pub fn has_subquery(&self) -> bool {
        let mut found = false;
        self.walk(&mut |e| {
            if matches!(e, Expr::ScalarSub(_) | Expr::InSub { .. } | Expr::Exists { .. }) {
                found = true;
            }
        });
        found
    }
}

#[derive(Clone, Copy, Debug, PartialEq, Eq, Serialize, Deserialize)]
pub enum JoinKind {
    Inner,
    Left,
    Right,
    Full,
    Cross,
}

#[derive(Clone, Debug, Serialize, Deserialize)]
pub enum FromItem {
    Table { name: String, alias: Option<String> },
    Derived { q: Box<Query>, alias: String },
    Join { l: Box<FromItem>, kind: JoinKind, r: Box<FromItem>, on: Option<Expr> },
}

impl FromItem {
    pub fn table(name: &str) -> FromItem {
        FromItem::Table { name: name.to_string(), alias: None }
    }
    pub fn render(&self, d: Dialect) -> String {
        match self {
            FromItem::Table { name, alias } => match alias {
                Some(a) => format!("{} AS {}", name, a),
                None => name.clone(),
            },
            FromItem::Derived { q, alias } => format!("({}) AS {}", q.render(d), alias),
            FromItem::Join { l, kind, r, on } => {
                let k = match kind {
                    JoinKind::Inner => "INNER JOIN",
                    JoinKind::Left => "LEFT JOIN",
                    JoinKind::Right => "RIGHT JOIN",
                    JoinKind::Full => "FULL OUTER JOIN",
                    JoinKind::Cross => "CROSS JOIN",
                };
                let rs = match &**r {
                    FromItem::Join { .. } => format!("({})", r.render(d)),
                    _ => r.render(d),
                };
                match on {
                    Some(c) => format!("{} {} {} ON {}", l.render(d), k, rs, c.render(d)),
                    None => format!("{} {} {}", l.render(d), k, rs),
                }
            }
        }
    }
    pub fn has_join(&self) -> bool {
        matches!(self, FromItem::Join { .. })
    }
}

#[derive(Clone, Debug, Default, Serialize, Deserialize)]
pub struct Select {
    pub distinct: bool,
    /// empty => `*`
    pub items: Vec<(Expr, Option<String>)>,
    pub from: Vec<FromItem>,
    pub where_: Option<Expr>,
    pub group_by: Vec<Expr>,
    pub having: Option<Expr>,
}

impl Select {
    pub fn render(&self, d: Dialect) -> String {
        let mut s = String::from("SELECT ");
        if self.distinct {
            s.push_str("DISTINCT ");
        }
        if self.items.is_empty() {
            s.push('*');
        } else {
            s.push_str(
                &self
                    .items
                    .iter()
                    .map(|(e, a)| match a {
                        Some(a) => format!("{} AS {}", e.render(d), a),
                        None => e.render(d),
                    })
                    .collect::<Vec<_>>()
                    .join(", "),
            );
        }
        if !self.from.is_empty() {
            s.push_str(" FROM ");
            s.push_str(&self.from.iter().map(|f| f.render(d)).collect::<Vec<_>>().join(", "));
        }
        if let Some(w) = &self.where_ {
            s.push_str(" WHERE ");
            s.push_str(&w.render(d));
        }
        if !self.group_by.is_empty() {
            s.push_str(" GROUP BY ");
            s.push_str(&self.group_by.iter().map(|e| e.render(d)).collect::<Vec<_>>().join(", "));
        }
        if let Some(h) = &self.having {
            s.push_str(" HAVING ");
            s.push_str(&h.render(d));
        }
        s
    }
    pub fn is_agg(&self) -> bool {
        !self.group_by.is_empty() || self.having.is_some() || self.items.iter().any(|(e, _)| e.has_agg())
    }
}

#[derive(Clone, Copy, Debug, PartialEq, Eq, Serialize, Deserialize)]
pub enum SetOp {
    Union,
    Intersect,
    Except,
}

#[derive(Clone, Debug, Serialize, Deserialize)]
pub enum SetExpr {
    Select(Select),
    Op { l: Box<SetExpr>, op: SetOp, all: bool, r: Box<SetExpr> },
}

impl SetExpr {
    pub fn render(&self, d: Dialect) -> String {
        match self {
            SetExpr::Select(s) => s.render(d),
            SetExpr::Op { l, op, all, r } => {
                let o = match op {
                    SetOp::Union => "UNION",
                    SetOp::Intersect => "INTERSECT",
                    SetOp::Except => "EXCEPT",
                };
                format!("{} {}{} {}", l.render(d), o, if *all { " ALL" } else { "" }, r.render(d))
            }
        }
    }
    pub fn first_select(&self) -> &Select {
        match self {
            SetExpr::Select(s) => s,
            SetExpr::Op { l, .. } => l.first_select(),
        }
    }
    pub fn is_setop(&self) -> bool {
        matches!(self, SetExpr::Op { .. })
    }
}

#[derive(Clone, Debug, Serialize, Deserialize)]
pub enum OrderKey {
    Pos(usize),
    Expr(Expr),
}

#[derive(Clone, Debug, Serialize, Deserialize)]
pub struct Query {
    pub with: Vec<(String, Query)>,
    pub body: SetExpr,
    pub order_by: Vec<(OrderKey, bool)>,
    pub limit: Option<u64>,
    pub offset: Option<u64>,
}

impl Query {
    pub fn of(s: Select) -> Query {
        Query { with: vec![], body: SetExpr::Select(s), order_by: vec![], limit: None, offset: None }
    }
    pub fn render(&self, d: Dialect) -> String {
        let mut s = String::new();
        if !self.with.is_empty() {
            s.push_str("WITH ");
            s.push_str(&self.with.iter().map(|(n, q)| format!("{} AS ({})", n, q.render(d))).collect::<Vec<_>>().join(", "));
            s.push(' ');
        }
        s.push_str(&self.body.render(d));
        if !self.order_by.is_empty() {
            s.push_str(" ORDER BY ");
            s.push_str(
                &self
                    .order_by
                    .iter()
                    .map(|(k, desc)| {
                        let ks = match k {
                            OrderKey::Pos(p) => p.to_string(),
                            OrderKey::Expr(e) => e.render(d),
                        };
                        let dir = if *desc { " DESC" } else { " ASC" };
                        match d {
                            // vibesql documents NULLs last for both directions
                            Dialect::Sqlite => format!("{}{} NULLS LAST", ks, dir),
                            Dialect::Vibe => format!("{}{}", ks, dir),
                        }
                    })
                    .collect::<Vec<_>>()
                    .join(", "),
            );
        }
        if let Some(l) = self.limit {
            s.push_str(&format!(" LIMIT {}", l));
        } else if self.offset.is_some() && d == Dialect::Sqlite {
            s.push_str(" LIMIT -1");
        }
        if let Some(o) = self.offset {
            s.push_str(&format!(" OFFSET {}", o));
        }
        s
    }
}

/// INSERT statement text for one or more rows (bare literals only, as the engine requires).
pub fn insert_sql(table: &str, cols: Option<&[String]>, rows: &[Vec<V>], d: Dialect) -> String {
    let cl = match cols {
        Some(c) => format!(" ({})", c.join(", ")),
        None => String::new(),
    };
    let vals = rows
        .iter()
        .map(|r| format!("({})", r.iter().map(|v| bare_lit(v, d)).collect::<Vec<_>>().join(", ")))
        .collect::<Vec<_>>()
        .join(", ");
    format!("INSERT INTO {}{} VALUES {}", table, cl, vals)
}

/// literal without protective parentheses (INSERT VALUES position)
pub fn bare_lit(v: &V, d: Dialect) -> String {
    let s = lit_sql(v, d);
    if s.starts_with('(') && s.ends_with(')') {
        s[1..s.len() - 1].to_string()
    } else {
        s
    }
}
