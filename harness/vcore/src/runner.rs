//! Generic check runner: proptest-driven generation (choice tape), known-finding
//! classification, shrinking, replay files, evidence.

use crate::isolate;
use crate::kf::{self, KnownFindings};
use crate::tape::Tape;
use proptest::strategy::Strategy;
use proptest::test_runner::{Config, RngAlgorithm, TestCaseError, TestError, TestRng, TestRunner};
use serde::{de::DeserializeOwned, Deserialize, Serialize};
use std::cell::RefCell;
use std::collections::{BTreeMap, HashSet};
use std::hash::{Hash, Hasher};
use std::path::{Path, PathBuf};
use std::sync::Arc;
use std::time::Instant;

#[derive(Clone, Copy, Debug, PartialEq, Eq)]
pub enum Tier {
    Quick,
    Thorough,
}
impl Tier {
    pub fn name(self) -> &'static str {
        match self {
            Tier::Quick => "quick",
            Tier::Thorough => "thorough",
        }
    }
}

#[derive(Clone, Debug)]
pub struct GenCfg {
    pub tier: Tier,
    /// true in 80% of the workers: generators stop producing the triggers of
    /// known open findings so that the search continues behind them.
    pub avoid_known: bool,
    pub worker: usize,
    /// open known-finding signatures of this property
    pub known_open: Vec<String>,
}
impl GenCfg {
    pub fn avoiding(&self, sig: &str) -> bool {
        self.avoid_known && self.known_open.iter().any(|s| s == sig)
    }
}

#[derive(Clone, Debug, Serialize, Deserialize)]
pub enum Verdict {
    Pass,
    Fail { sig: String, detail: String },
    /// the harness itself is inconsistent (self-check failed): exit 2, never a violation
    Harness(String),
}
impl Verdict {
    pub fn fail(sig: impl Into<String>, detail: impl Into<String>) -> Verdict {
        Verdict::Fail { sig: sig.into(), detail: detail.into() }
    }
}

/// Side channel of a case execution: labels, non-triviality, sample rendering.
#[derive(Clone, Debug, Default, Serialize, Deserialize)]
pub struct Obs {
    pub classes: Vec<String>,
    pub nontrivial: bool,
    pub excluded: u64,
    /// additional oracle evaluations performed inside this case (e.g. queries of a history)
    pub sub_evals: u64,
    /// failures that matched an open known finding inside this case (case goes on)
    pub known_hits: Vec<String>,
}
impl Obs {
    pub fn class(&mut self, c: &str) {
        if !self.classes.iter().any(|x| x == c) {
            self.classes.push(c.to_string());
        }
    }
}

pub trait Check: Send + Sync + 'static {
    type Case: Serialize + DeserializeOwned + Clone + Send + 'static;
    fn id(&self) -> &'static str;
    fn level(&self) -> &'static str {
        "exploration"
    }
    fn rule(&self) -> String;
    fn assumptions(&self) -> Vec<String> {
        vec![]
    }
    fn cases(&self, tier: Tier) -> u64;
    fn tape_len(&self, _tier: Tier) -> usize {
        400
    }
    fn build(&self, t: &mut Tape, cfg: &GenCfg) -> Self::Case;
    /// Deterministic taught cases run before generation (ladders, grids).
    fn fixed_cases(&self, _tier: Tier) -> Vec<Self::Case> {
        vec![]
    }
    fn run(&self, case: &Self::Case, obs: &mut Obs) -> Verdict;
    fn render(&self, case: &Self::Case) -> String {
        serde_json::to_string(case).unwrap_or_default()
    }
    /// (class, minimum fraction of evaluations): below => exit 2 (generator degenerate)
    fn floors(&self) -> Vec<(&'static str, f64)> {
        vec![]
    }
    /// run each case in a child process (`vcheck --worker <id>`)
    /// how often a committed replay file is executed in stage 1 (engine code that iterates
    /// HashMaps with a per-instance random state can take a different path on every execution)
    fn replay_repeats(&self) -> usize {
        1
    }
    fn isolated(&self) -> bool {
        false
    }
    fn timeout_s(&self) -> u64 {
        30
    }
    fn workers(&self, _tier: Tier) -> usize {
        14
    }
    /// Called once before anything else in the parent (build side artefacts, etc.).
    fn prepare(&self, _args: &Args) -> Result<(), String> {
        Ok(())
    }
    /// extra keys merged into evidence.coverage
    fn extra_coverage(&self) -> serde_json::Map<String, serde_json::Value> {
        serde_json::Map::new()
    }
    /// In known-finding handling a *case-level* failure with an open signature is tolerated.
    /// Checks whose cases are histories report known hits through `Obs::known_hits` instead.
    fn max_shrink_iters(&self) -> u32 {
        3000
    }
}

#[derive(Clone, Debug)]
pub struct Args {
    pub id: String,
    pub tier: Tier,
    pub seed: u64,
    pub replay: Option<PathBuf>,
    pub root: PathBuf,
    pub cases_override: Option<u64>,
    /// strict: known findings are not tolerated (used to confirm a finding's replay still fails)
    pub strict: bool,
    /// survey: tolerate every failure, tabulate signatures with one example each (dev aid)
    pub survey: bool,
    /// dev aid: only failures whose signature contains this text count; all others are tolerated
    pub focus: Option<String>,
}

pub fn stable_hash<T: Hash>(t: &T) -> u64 {
    // SipHash with fixed zero keys: stable across runs and processes
    #[allow(deprecated)]
    let mut h = std::hash::SipHasher::new();
    t.hash(&mut h);
    h.finish()
}

fn derive_seed(seed: u64, id: &str, worker: usize) -> [u8; 32] {
    let mut out = [0u8; 32];
    let mut x = stable_hash(&(seed, id, worker as u64, 0x5eedu64));
    for chunk in out.chunks_mut(8) {
        // splitmix64
        x = x.wrapping_add(0x9E3779B97F4A7C15);
        let mut z = x;
        z = (z ^ (z >> 30)).wrapping_mul(0xBF58476D1CE4E5B9);
        z = (z ^ (z >> 27)).wrapping_mul(0x94D049BB133111EB);
        z ^= z >> 31;
        chunk.copy_from_slice(&z.to_le_bytes());
    }
    out
}

#[derive(Serialize, Deserialize)]
pub struct ReplayFile<C> {
    pub property: String,
    pub signature: String,
    pub detail: String,
    pub rendered: String,
    pub case: C,
}

static STOP: std::sync::atomic::AtomicBool = std::sync::atomic::AtomicBool::new(false);

#[derive(Default)]
struct Stats {
    evaluations: u64,
    sub_evals: u64,
    nontrivial: HashSet<u64>,
    classes: BTreeMap<String, u64>,
    known_hits: BTreeMap<String, u64>,
    excluded: u64,
    samples_first: Option<String>,
    samples_largest: Option<(usize, String)>,
    samples_hash: Vec<(u64, String)>,
    harness_errors: Vec<String>,
    survey: BTreeMap<String, (u64, String)>,
}

impl Stats {
    fn merge(&mut self, o: Stats) {
        self.evaluations += o.evaluations;
        self.sub_evals += o.sub_evals;
        self.nontrivial.extend(o.nontrivial);
        for (k, v) in o.classes {
            *self.classes.entry(k).or_default() += v;
        }
        for (k, v) in o.known_hits {
            *self.known_hits.entry(k).or_default() += v;
        }
        self.excluded += o.excluded;
        if self.samples_first.is_none() {
            self.samples_first = o.samples_first;
        }
        if let Some((n, s)) = o.samples_largest {
            if self.samples_largest.as_ref().map(|(m, _)| n > *m).unwrap_or(true) {
                self.samples_largest = Some((n, s));
            }
        }
        self.samples_hash.extend(o.samples_hash);
        self.samples_hash.sort();
        self.samples_hash.dedup();
        self.samples_hash.truncate(3);
        self.harness_errors.extend(o.harness_errors);
        for (k, (n, ex)) in o.survey {
            let e = self.survey.entry(k).or_insert((0, ex));
            e.0 += n;
        }
    }

    fn record<CH: Check>(&mut self, check: &CH, case: &CH::Case, obs: &Obs) {
        self.evaluations += 1;
        self.sub_evals += obs.sub_evals;
        self.excluded += obs.excluded;
        for c in &obs.classes {
            *self.classes.entry(c.clone()).or_default() += 1;
        }
        for k in &obs.known_hits {
            *self.known_hits.entry(k.clone()).or_default() += 1;
        }
        if obs.nontrivial {
            let js = serde_json::to_string(case).unwrap_or_default();
            let h = stable_hash(&js);
            let fresh = self.nontrivial.insert(h);
            if fresh {
                let need_first = self.samples_first.is_none();
                let larger = self.samples_largest.as_ref().map(|(m, _)| js.len() > *m).unwrap_or(true);
                let small_hash = self.samples_hash.len() < 3 || h < self.samples_hash.last().unwrap().0;
                if need_first || larger || small_hash {
                    let r = truncate(&check.render(case), 3000);
                    if need_first {
                        self.samples_first = Some(r.clone());
                    }
                    if larger {
                        self.samples_largest = Some((js.len(), r.clone()));
                    }
                    if small_hash {
                        self.samples_hash.push((h, r));
                        self.samples_hash.sort();
                        self.samples_hash.truncate(3);
                    }
                }
            }
        }
    }
}

pub fn truncate(s: &str, n: usize) -> String {
    if s.len() <= n {
        return s.to_string();
    }
    let mut b = n;
    while !s.is_char_boundary(b) {
        b -= 1;
    }
    format!("{}…[{} bytes]", &s[..b], s.len())
}

thread_local! {
    static PANIC_LOC: RefCell<Option<String>> = const { RefCell::new(None) };
}

pub fn install_panic_hook() {
    std::panic::set_hook(Box::new(|info| {
        let loc = info
            .location()
            .map(|l| {
                let f = l.file();
                let f = f.rsplit("/crates/").next().unwrap_or(f);
                format!("{}:{}", f, l.line())
            })
            .unwrap_or_else(|| "?".into());
        let msg = if let Some(s) = info.payload().downcast_ref::<&str>() {
            s.to_string()
        } else if let Some(s) = info.payload().downcast_ref::<String>() {
            s.clone()
        } else {
            "<non-string panic>".into()
        };
        let _ = PANIC_LOC.try_with(|p| *p.borrow_mut() = Some(format!("{} :: {}", loc, truncate(&msg, 300))));
    }));
}

/// Signature fragment for a panic: file (no line) + message with digits removed.
pub fn panic_sig(desc: &str) -> String {
    let (loc, msg) = desc.split_once(" :: ").unwrap_or((desc, ""));
    let file = loc.rsplit_once(':').map(|x| x.0).unwrap_or(loc);
    let mut m: String = msg.chars().filter(|c| !c.is_ascii_digit()).collect();
    m.truncate(60);
    format!("panic[{}|{}]", file, m.trim())
}

/// Run a closure, converting a panic into a description `file:line :: message`.
pub fn catch<T>(f: impl FnOnce() -> T) -> Result<T, String> {
    let _ = PANIC_LOC.try_with(|p| *p.borrow_mut() = None);
    match std::panic::catch_unwind(std::panic::AssertUnwindSafe(f)) {
        Ok(v) => Ok(v),
        Err(_) => Err(PANIC_LOC
            .try_with(|p| p.borrow_mut().take())
            .ok()
            .flatten()
            .unwrap_or_else(|| "panic (location unknown)".into())),
    }
}

/// Execute one case locally with panic capture.
pub fn run_local<CH: Check>(check: &CH, case: &CH::Case) -> (Verdict, Obs) {
    let mut obs = Obs::default();
    let v = match catch(|| check.run(case, &mut obs)) {
        Ok(v) => v,
        Err(desc) => Verdict::Fail { sig: format!("harness_or_engine_{}", panic_sig(&desc)), detail: desc },
    };
    (v, obs)
}

fn run_one<CH: Check>(check: &CH, case: &CH::Case, child: &mut Option<isolate::Child>, args: &Args) -> (Verdict, Obs) {
    if check.isolated() {
        isolate::remote_run(check, case, child, args)
    } else {
        run_local(check, case)
    }
}

struct Failure<C> {
    case: C,
    sig: String,
    detail: String,
}

fn write_replay<CH: Check>(check: &CH, args: &Args, f: &Failure<CH::Case>) -> PathBuf {
    let dir = args.root.join("replays").join(check.id());
    let _ = std::fs::create_dir_all(&dir);
    let js = serde_json::to_string(&f.case).unwrap_or_default();
    let path = dir.join(format!("viol-{:016x}.json", stable_hash(&js)));
    let rf = ReplayFile {
        property: check.id().to_string(),
        signature: f.sig.clone(),
        detail: truncate(&f.detail, 20000),
        rendered: truncate(&check.render(&f.case), 20000),
        case: f.case.clone(),
    };
    let _ = std::fs::write(&path, serde_json::to_string_pretty(&rf).unwrap_or_default());
    path
}

fn list_json(dir: &Path) -> Vec<PathBuf> {
    let mut v: Vec<PathBuf> = std::fs::read_dir(dir)
        .map(|rd| rd.filter_map(|e| e.ok()).map(|e| e.path()).filter(|p| p.extension().map(|x| x == "json").unwrap_or(false)).collect())
        .unwrap_or_default();
    v.sort();
    v
}

/// Top-level entry: returns the process exit code.
pub fn run_check<CH: Check>(check: CH, args: Args) -> i32 {
    install_panic_hook();
    let start = Instant::now();
    let check = Arc::new(check);
    let id = check.id();
    let kfs = KnownFindings::load(&args.root.join("known_findings.json"), id);
    kf::set_open_sigs(if args.strict { vec![] } else { kfs.open_signatures() });
    if let Err(e) = check.prepare(&args) {
        eprintln!("[{}] inconclusive: prepare failed: {}", id, e);
        return 2;
    }

    // ---- watchdog: a run that does not come back is "inconclusive" (exit 2), never a verdict.
    // (seen once: a change in the page layer made PageManager::new loop for 2^60 iterations and
    // the C17 run sat at 100 % CPU for 50 minutes.) Quick tiers take 10-150 s on an idle machine.
    {
        let limit = std::env::var("VERIF_WATCHDOG_SECS").ok().and_then(|s| s.parse::<u64>().ok()).unwrap_or(match args.tier {
            Tier::Quick => 3600,
            Tier::Thorough => 24 * 3600,
        });
        let wid = id.to_string();
        std::thread::spawn(move || {
            std::thread::sleep(std::time::Duration::from_secs(limit));
            eprintln!("[{}] inconclusive: watchdog: the run did not finish within {} s (a case may be looping); no verdict", wid, limit);
            std::process::exit(2);
        });
    }

    // ---- replay mode -------------------------------------------------------------------
    if let Some(path) = &args.replay {
        let txt = match std::fs::read_to_string(path) {
            Ok(t) => t,
            Err(e) => {
                eprintln!("cannot read replay {}: {}", path.display(), e);
                return 2;
            }
        };
        let case: CH::Case = match serde_json::from_str::<ReplayFile<CH::Case>>(&txt) {
            Ok(r) => r.case,
            Err(_) => match serde_json::from_str::<CH::Case>(&txt) {
                Ok(c) => c,
                Err(e) => {
                    eprintln!("cannot parse replay {}: {}", path.display(), e);
                    return 2;
                }
            },
        };
        let mut child = None;
        let (v, obs) = run_one(&*check, &case, &mut child, &args);
        println!("{}", truncate(&check.render(&case), 8000));
        for k in &obs.known_hits {
            println!("(known finding hit inside case: {})", k);
        }
        return match v {
            Verdict::Pass => {
                println!("[{}] replay {} : PASS", id, path.display());
                0
            }
            Verdict::Harness(m) => {
                println!("[{}] replay {} : INCONCLUSIVE {}", id, path.display(), m);
                2
            }
            Verdict::Fail { sig, detail } => {
                println!("[{}] replay {} : FAIL signature={}\n{}", id, path.display(), sig, truncate(&detail, 8000));
                if !args.strict && kfs.is_open(&sig) {
                    println!("KNOWN-FINDING: property={} {}", id, kfs.what(&sig));
                    0
                } else {
                    println!("VIOLATION property={} replay={}", id, path.display());
                    1
                }
            }
        };
    }

    let mut total = Stats::default();
    let mut failure: Option<Failure<CH::Case>> = None;
    let mut known_printed: HashSet<String> = HashSet::new();
    let mut child: Option<isolate::Child> = None;

    // ---- stage 1: committed replays and corpus -------------------------------------------
    let mut replay_files = list_json(&args.root.join("replays").join(id));
    replay_files.extend(list_json(&args.root.join("corpus").join(id)));
    let mut replayed = 0u64;
    for p in replay_files {
        let Ok(txt) = std::fs::read_to_string(&p) else { continue };
        let case: CH::Case = match serde_json::from_str::<ReplayFile<CH::Case>>(&txt) {
            Ok(r) => r.case,
            Err(_) => match serde_json::from_str::<CH::Case>(&txt) {
                Ok(c) => c,
                Err(e) => {
                    eprintln!("[{}] skipping unparsable replay {}: {}", id, p.display(), e);
                    continue;
                }
            },
        };
        replayed += 1;
        let (mut v, mut obs) = run_one(&*check, &case, &mut child, &args);
        for _ in 1..check.replay_repeats().max(1) {
            if !matches!(v, Verdict::Pass) {
                break;
            }
            (v, obs) = run_one(&*check, &case, &mut child, &args);
        }
        total.record(&*check, &case, &obs);
        for k in &obs.known_hits {
            known_printed.insert(k.clone());
        }
        match v {
            Verdict::Pass => {}
            Verdict::Harness(m) => total.harness_errors.push(format!("{}: {}", p.display(), m)),
            Verdict::Fail { sig, detail } => {
                if args.survey {
                    total.survey.entry(sig).or_insert((0, detail)).0 += 1;
                } else if kfs.is_open(&sig) {
                    *total.known_hits.entry(sig.clone()).or_default() += 1;
                    known_printed.insert(sig);
                } else if failure.is_none() {
                    failure = Some(Failure { case, sig, detail });
                }
            }
        }
    }

    // ---- stage 2: fixed taught cases --------------------------------------------------------
    if failure.is_none() {
        for case in check.fixed_cases(args.tier) {
            let (v, obs) = run_one(&*check, &case, &mut child, &args);
            total.record(&*check, &case, &obs);
            for k in &obs.known_hits {
                known_printed.insert(k.clone());
            }
            match v {
                Verdict::Pass => {}
                Verdict::Harness(m) => total.harness_errors.push(m),
                Verdict::Fail { sig, detail } => {
                    if args.survey {
                        total.survey.entry(sig).or_insert((0, detail)).0 += 1;
                    } else if kfs.is_open(&sig) {
                        *total.known_hits.entry(sig.clone()).or_default() += 1;
                        known_printed.insert(sig);
                    } else {
                        failure = Some(Failure { case, sig, detail });
                        break;
                    }
                }
            }
        }
    }
    drop(child);

    // ---- stage 3: generated cases --------------------------------------------------------------
    let n_workers = check.workers(args.tier).max(1);
    let total_cases = args.cases_override.unwrap_or_else(|| check.cases(args.tier));
    if failure.is_none() && total_cases > 0 {
        let per = total_cases.div_ceil(n_workers as u64);
        let mut handles = Vec::new();
        for w in 0..n_workers {
            let check = check.clone();
            let args = args.clone();
            let known_open = kfs.open_signatures();
            let kfs = kfs.clone();
            handles.push(
                std::thread::Builder::new()
                    .name(format!("w{}", w))
                    .stack_size(64 << 20)
                    .spawn(move || worker::<CH>(check, args, w, per, known_open, kfs))
                    .expect("spawn worker"),
            );
        }
        for h in handles {
            match h.join() {
                Ok((st, f)) => {
                    total.merge(st);
                    if failure.is_none() {
                        failure = f;
                    }
                }
                Err(_) => total.harness_errors.push("worker thread panicked".into()),
            }
        }
    }
    for k in total.known_hits.keys() {
        known_printed.insert(k.clone());
    }

    // ---- report ------------------------------------------------------------------------------------
    let wall = start.elapsed().as_secs_f64();
    let mut exit = 0;
    let mut violations = 0;
    let mut viol_line = None;
    if let Some(f) = &failure {
        let path = write_replay(&*check, &args, f);
        violations = 1;
        exit = 1;
        viol_line = Some(format!("VIOLATION property={} replay={}", id, path.display()));
        println!("[{}] FAIL signature={}\n{}", id, f.sig, truncate(&f.detail, 6000));
        println!("--- minimal case ---\n{}", truncate(&check.render(&f.case), 6000));
    }
    let mut floor_msgs = Vec::new();
    if failure.is_none() {
        for (cls, frac) in check.floors() {
            let have = *total.classes.get(cls).unwrap_or(&0) as f64;
            if total.evaluations > 0 && have < frac * total.evaluations as f64 {
                floor_msgs.push(format!("class '{}' has {} of {} evaluations, floor {:.0}%", cls, have, total.evaluations, frac * 100.0));
            }
        }
    }
    let mut samples: Vec<String> = Vec::new();
    if let Some(s) = &total.samples_first {
        samples.push(s.clone());
    }
    if let Some((_, s)) = &total.samples_largest {
        if !samples.contains(s) {
            samples.push(s.clone());
        }
    }
    for (_, s) in &total.samples_hash {
        if !samples.contains(s) {
            samples.push(s.clone());
        }
    }
    let mut coverage = serde_json::Map::new();
    coverage.insert("evaluations".into(), (total.evaluations).into());
    coverage.insert("distinct_nontrivial".into(), (total.nontrivial.len() as u64).into());
    coverage.insert("rule".into(), check.rule().into());
    coverage.insert("samples".into(), serde_json::to_value(&samples).unwrap());
    coverage.insert("sub_evaluations".into(), total.sub_evals.into());
    coverage.insert("replayed_files".into(), replayed.into());
    coverage.insert("classes".into(), serde_json::to_value(&total.classes).unwrap());
    coverage.insert("known_finding_hits".into(), serde_json::to_value(&total.known_hits).unwrap());
    coverage.insert("excluded_by_construction".into(), total.excluded.into());
    coverage.insert("workers".into(), (n_workers as u64).into());
    for (k, v) in check.extra_coverage() {
        coverage.insert(k, v);
    }
    let mut assumptions = check.assumptions();
    assumptions.push("held on everything explored; absence of violations is not shown".into());
    let ev = serde_json::json!({
        "property_id": id,
        "tier": args.tier.name(),
        "seed": args.seed,
        "level": check.level(),
        "coverage": coverage,
        "assumptions": assumptions,
        "wall_s": wall,
        "violations": violations,
    });
    let evdir = args.root.join("evidence");
    let _ = std::fs::create_dir_all(&evdir);
    let _ = std::fs::write(evdir.join(format!("{}.json", id)), serde_json::to_string_pretty(&ev).unwrap());

    let mut kp: Vec<_> = known_printed.into_iter().collect();
    kp.sort();
    for sig in kp {
        if kfs.is_open(&sig) {
            println!("KNOWN-FINDING: property={} {} [{}]", id, kfs.what(&sig), sig);
        }
    }
    println!(
        "[{}] tier={} seed={} evaluations={} sub_evaluations={} distinct_nontrivial={} known_hits={} wall={:.1}s",
        id,
        args.tier.name(),
        args.seed,
        total.evaluations,
        total.sub_evals,
        total.nontrivial.len(),
        total.known_hits.values().sum::<u64>(),
        wall
    );
    if args.survey {
        println!("--- survey: {} distinct failure signatures ---", total.survey.len());
        for (sig, (n, ex)) in &total.survey {
            println!("=== {} x{}\n{}\n", sig, n, ex);
        }
    }
    if let Some(l) = viol_line {
        println!("{}", l);
        return exit;
    }
    if !total.harness_errors.is_empty() {
        for m in total.harness_errors.iter().take(5) {
            eprintln!("[{}] inconclusive: {}", id, truncate(m, 2000));
        }
        return 2;
    }
    if !floor_msgs.is_empty() {
        for m in floor_msgs {
            eprintln!("[{}] inconclusive (generator degenerate): {}", id, m);
        }
        return 2;
    }
    if total.nontrivial.len() < 2 {
        eprintln!("[{}] inconclusive: fewer than 2 distinct non-trivial cases", id);
        return 2;
    }
    exit
}

fn worker<CH: Check>(
    check: Arc<CH>,
    args: Args,
    w: usize,
    cases: u64,
    known_open: Vec<String>,
    kfs: KnownFindings,
) -> (Stats, Option<Failure<CH::Case>>) {
    let cfg = GenCfg { tier: args.tier, avoid_known: w % 5 != 0, worker: w, known_open };
    let stats = RefCell::new(Stats::default());
    let failed = std::cell::Cell::new(false);
    let child: RefCell<Option<isolate::Child>> = RefCell::new(None);
    let tape_len = check.tape_len(args.tier);
    let strat = proptest::collection::vec(proptest::num::u32::ANY, 0..=tape_len);
    let mut config = Config::default();
    config.cases = cases.min(u32::MAX as u64) as u32;
    config.failure_persistence = None;
    config.max_shrink_iters = check.max_shrink_iters();
    config.max_shrink_time = 0;
    config.verbose = 0;
    let rng = TestRng::from_seed(RngAlgorithm::ChaCha, &derive_seed(args.seed, check.id(), w));
    let mut runner = TestRunner::new_with_rng(config, rng);
    let result = runner.run(&strat, |tape| {
        // another worker already has a violation: stop generating (a worker that is
        // shrinking its own failure keeps going)
        if !failed.get() && STOP.load(std::sync::atomic::Ordering::Relaxed) {
            return Ok(());
        }
        let mut t = Tape::new(&tape);
        let case = match catch(|| check.build(&mut t, &cfg)) {
            Ok(c) => c,
            Err(p) => {
                // a panicking generator is a harness bug, never a violation
                let mut st = stats.borrow_mut();
                if st.harness_errors.len() < 3 {
                    st.harness_errors.push(format!("generator panicked: {}", p));
                }
                return Ok(());
            }
        };
        let (v, obs) = run_one(&*check, &case, &mut child.borrow_mut(), &args);
        if !failed.get() {
            stats.borrow_mut().record(&*check, &case, &obs);
        }
        match v {
            Verdict::Pass => Ok(()),
            Verdict::Harness(m) => {
                if !failed.get() {
                    stats.borrow_mut().harness_errors.push(m);
                }
                Ok(())
            }
            Verdict::Fail { sig, detail } => {
                if args.survey {
                    let mut st = stats.borrow_mut();
                    let e = st.survey.entry(sig).or_insert_with(|| (0, format!("{}\n--- case ---\n{}", truncate(&detail, 1500), truncate(&check.render(&case), 1500))));
                    e.0 += 1;
                    Ok(())
                } else if kfs.is_open(&sig) || args.focus.as_ref().map(|f| !sig.contains(f.as_str())).unwrap_or(false) {
                    if !failed.get() {
                        *stats.borrow_mut().known_hits.entry(sig).or_default() += 1;
                    }
                    Ok(())
                } else {
                    failed.set(true);
                    STOP.store(true, std::sync::atomic::Ordering::Relaxed);
                    Err(TestCaseError::fail(sig))
                }
            }
        }
    });
    let failure = match result {
        Ok(()) => None,
        Err(TestError::Fail(_, tape)) => {
            let mut t = Tape::new(&tape);
            let case = check.build(&mut t, &cfg);
            let (v, _) = run_one(&*check, &case, &mut child.borrow_mut(), &args);
            match v {
                Verdict::Fail { sig, detail } => Some(Failure { case, sig, detail }),
                other => Some(Failure {
                    case,
                    sig: "flaky.not_reproduced_after_shrink".into(),
                    detail: format!("minimal case did not fail again: {:?}", other),
                }),
            }
        }
        Err(TestError::Abort(r)) => {
            stats.borrow_mut().harness_errors.push(format!("proptest aborted: {}", r));
            None
        }
    };
    // a non-reproducing failure is a harness problem, not a violation
    let failure = match failure {
        Some(f) if f.sig == "flaky.not_reproduced_after_shrink" => {
            stats.borrow_mut().harness_errors.push(f.detail);
            None
        }
        f => f,
    };
    (stats.into_inner(), failure)
}

/// Parse `vcheck <ID> quick|thorough|--replay <file> [--cases N] [--strict]`
pub fn parse_args(argv: &[String]) -> Result<Args, String> {
    if argv.is_empty() {
        return Err("usage: vcheck <ID> quick|thorough|--replay <file> [--cases N] [--strict]".into());
    }
    let id = argv[0].clone();
    let mut tier = match std::env::var("VERIF_TIER").ok().as_deref() {
        Some("thorough") => Tier::Thorough,
        _ => Tier::Quick,
    };
    let mut replay = None;
    let mut cases_override = None;
    let mut strict = false;
    let mut survey = false;
    let mut focus = None;
    let mut i = 1;
    while i < argv.len() {
        match argv[i].as_str() {
            "quick" => tier = Tier::Quick,
            "thorough" => tier = Tier::Thorough,
            "--replay" => {
                i += 1;
                replay = Some(PathBuf::from(argv.get(i).ok_or("--replay needs a path")?));
            }
            "--cases" => {
                i += 1;
                cases_override = Some(argv.get(i).ok_or("--cases needs N")?.parse::<u64>().map_err(|e| e.to_string())?);
            }
            "--strict" => strict = true,
            "--survey" => survey = true,
            "--focus" => {
                i += 1;
                focus = Some(argv.get(i).ok_or("--focus needs text")?.clone());
            }
            other => return Err(format!("unknown argument {}", other)),
        }
        i += 1;
    }
    let seed = std::env::var("VERIF_SEED").ok().and_then(|s| s.trim().parse::<i64>().ok()).map(|v| v as u64).unwrap_or(1);
    let root = std::env::var("VERIF_ROOT").map(PathBuf::from).unwrap_or_else(|_| PathBuf::from("/verif"));
    Ok(Args { id, tier, seed, replay, root, cases_override, strict, survey, focus })
}

pub use kf::KnownFindings as Kf;
