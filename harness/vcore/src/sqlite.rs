//! Reference engine: bundled SQLite through rusqlite.

use crate::val::{CRow, CV};
use rusqlite::types::ValueRef;
use rusqlite::Connection;

pub struct Lite {
    pub conn: Connection,
}

impl Lite {
    pub fn new() -> Result<Lite, String> {
        let conn = Connection::open_in_memory().map_err(|e| e.to_string())?;
        Ok(Lite { conn })
    }
    pub fn exec(&self, sql: &str) -> Result<usize, String> {
        self.conn.execute(sql, []).map_err(|e| e.to_string())
    }
    pub fn query(&self, sql: &str) -> Result<Vec<CRow>, String> {
        let mut st = self.conn.prepare(sql).map_err(|e| e.to_string())?;
        let n = st.column_count();
        let mut rows = st.query([]).map_err(|e| e.to_string())?;
        let mut out = Vec::new();
        loop {
            match rows.next() {
                Ok(Some(r)) => {
                    let mut row = Vec::with_capacity(n);
                    for i in 0..n {
                        let v = r.get_ref(i).map_err(|e| e.to_string())?;
                        row.push(match v {
                            ValueRef::Null => CV::Null,
                            ValueRef::Integer(i) => CV::Int(i as i128),
                            ValueRef::Real(f) => CV::F(f),
                            ValueRef::Text(t) => CV::S(String::from_utf8_lossy(t).into_owned()),
                            ValueRef::Blob(b) => CV::O(format!("{:?}", b)),
                        });
                    }
                    out.push(row);
                }
                Ok(None) => break,
                Err(e) => return Err(e.to_string()),
            }
        }
        Ok(out)
    }
}
