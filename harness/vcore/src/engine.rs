//! The single statement dispatcher every check uses (mirrors the repo's own dispatchers in
//! tests/sqllogictest/db_adapter.rs, crates/vibesql-cli/src/executor/mod.rs and the server
//! session), plus result canonicalisation and the database observer.

use crate::val::{CRow, CV};
use vibesql_ast::Statement;
use vibesql_parser::Parser;
use vibesql_storage::{Database, Row};
use vibesql_types::SqlValue;

#[derive(Debug, Clone)]
pub enum Out {
    Rows(Vec<Row>),
    Count(usize),
    Done,
}

#[derive(Debug, Clone)]
pub enum ExecErr {
    Parse(String),
    Exec(String),
    Unsupported(String),
}
impl ExecErr {
    pub fn text(&self) -> String {
        match self {
            ExecErr::Parse(s) => format!("parse error: {}", s),
            ExecErr::Exec(s) => format!("execution error: {}", s),
            ExecErr::Unsupported(s) => format!("unsupported by dispatcher: {}", s),
        }
    }
    /// coarse kind used in signatures: the ExecutorError variant name
    pub fn kind(&self) -> String {
        match self {
            ExecErr::Parse(_) => "Parse".into(),
            ExecErr::Unsupported(_) => "Unsupported".into(),
            ExecErr::Exec(s) => s.split(|c: char| !c.is_alphanumeric()).next().unwrap_or("").to_string(),
        }
    }
}

pub fn parse(sql: &str) -> Result<Statement, ExecErr> {
    Parser::parse_sql(sql).map_err(|e| ExecErr::Parse(format!("{:?}", e)))
}

pub fn exec_stmt(db: &mut Database, stmt: &Statement) -> Result<Out, ExecErr> {
    use vibesql_executor as x;
    let e = |r: x::ExecutorError| ExecErr::Exec(format!("{:?}", r));
    match stmt {
        Statement::Select(s) => x::SelectExecutor::new(db).execute(s).map(Out::Rows).map_err(e),
        Statement::Insert(s) => x::InsertExecutor::execute(db, s).map(Out::Count).map_err(e),
        Statement::Update(s) => x::UpdateExecutor::execute(s, db).map(Out::Count).map_err(e),
        Statement::Delete(s) => x::DeleteExecutor::execute(s, db).map(Out::Count).map_err(e),
        Statement::CreateTable(s) => x::CreateTableExecutor::execute(s, db).map(|_| Out::Done).map_err(e),
        Statement::DropTable(s) => x::DropTableExecutor::execute(s, db).map(|_| Out::Done).map_err(e),
        Statement::TruncateTable(s) => x::TruncateTableExecutor::execute(s, db).map(Out::Count).map_err(e),
        Statement::AlterTable(s) => x::AlterTableExecutor::execute(s, db).map(|_| Out::Done).map_err(e),
        Statement::CreateIndex(s) => x::IndexExecutor::execute(s, db).map(|_| Out::Done).map_err(e),
        Statement::DropIndex(s) => x::IndexExecutor::execute_drop(s, db).map(|_| Out::Done).map_err(e),
        Statement::Reindex(s) => x::IndexExecutor::execute_reindex(s, db).map(|_| Out::Done).map_err(e),
        Statement::Analyze(s) => x::AnalyzeExecutor::execute(s, db).map(|_| Out::Done).map_err(e),
        Statement::CreateView(s) => x::advanced_objects::execute_create_view(s, db).map(|_| Out::Done).map_err(e),
        Statement::DropView(s) => x::advanced_objects::execute_drop_view(s, db).map(|_| Out::Done).map_err(e),
        Statement::CreateTrigger(s) => x::TriggerExecutor::create_trigger(db, s).map(|_| Out::Done).map_err(e),
        Statement::DropTrigger(s) => x::TriggerExecutor::drop_trigger(db, s).map(|_| Out::Done).map_err(e),
        Statement::BeginTransaction(s) => x::BeginTransactionExecutor::execute(s, db).map(|_| Out::Done).map_err(e),
        Statement::Commit(s) => x::CommitExecutor::execute(s, db).map(|_| Out::Done).map_err(e),
        Statement::Rollback(s) => x::RollbackExecutor::execute(s, db).map(|_| Out::Done).map_err(e),
        Statement::Savepoint(s) => x::SavepointExecutor::execute(s, db).map(|_| Out::Done).map_err(e),
        Statement::RollbackToSavepoint(s) => x::RollbackToSavepointExecutor::execute(s, db).map(|_| Out::Done).map_err(e),
        Statement::ReleaseSavepoint(s) => x::ReleaseSavepointExecutor::execute(s, db).map(|_| Out::Done).map_err(e),
        Statement::CreateRole(s) => x::RoleExecutor::execute_create_role(s, db).map(|_| Out::Done).map_err(e),
        Statement::DropRole(s) => x::RoleExecutor::execute_drop_role(s, db).map(|_| Out::Done).map_err(e),
        Statement::Grant(s) => x::GrantExecutor::execute_grant(s, db).map(|_| Out::Done).map_err(e),
        Statement::Revoke(s) => x::RevokeExecutor::execute_revoke(s, db).map(|_| Out::Done).map_err(e),
        Statement::CreateSchema(s) => x::SchemaExecutor::execute_create_schema(s, db).map(|_| Out::Done).map_err(e),
        Statement::DropSchema(s) => x::SchemaExecutor::execute_drop_schema(s, db).map(|_| Out::Done).map_err(e),
        Statement::SetSchema(s) => x::SchemaExecutor::execute_set_schema(s, db).map(|_| Out::Done).map_err(e),
        Statement::SetVariable(s) => x::SchemaExecutor::execute_set_variable(s, db).map(|_| Out::Done).map_err(e),
        other => Err(ExecErr::Unsupported(format!("{:?}", std::mem::discriminant(other)))),
    }
}

pub fn exec(db: &mut Database, sql: &str) -> Result<Out, ExecErr> {
    let stmt = parse(sql)?;
    exec_stmt(db, &stmt)
}

/// Run a query and canonicalise the rows.
pub fn query(db: &Database, sql: &str) -> Result<Vec<CRow>, ExecErr> {
    let stmt = parse(sql)?;
    match stmt {
        Statement::Select(s) => match crate::runner::catch(|| vibesql_executor::SelectExecutor::new(db).execute(&s)) {
            Ok(r) => r.map(|rows| rows.iter().map(canon_row).collect()).map_err(|r| ExecErr::Exec(format!("{:?}", r))),
            Err(p) => Err(ExecErr::Exec(format!("Panic {}", p))),
        },
        _ => Err(ExecErr::Unsupported("query() needs a SELECT".into())),
    }
}

pub fn query_raw(db: &Database, sql: &str) -> Result<Vec<Row>, ExecErr> {
    let stmt = parse(sql)?;
    match stmt {
        Statement::Select(s) => vibesql_executor::SelectExecutor::new(db).execute(&s).map_err(|r| ExecErr::Exec(format!("{:?}", r))),
        _ => Err(ExecErr::Unsupported("query_raw() needs a SELECT".into())),
    }
}

pub fn canon_row(r: &Row) -> CRow {
    r.values.iter().map(CV::from_sql).collect()
}

pub fn canon_rows(rows: &[Row]) -> Vec<CRow> {
    rows.iter().map(canon_row).collect()
}

/// SQL literal for a value, in the form `INSERT ... VALUES` accepts (bare literals only).
pub fn lit(v: &SqlValue) -> String {
    match v {
        SqlValue::Null => "NULL".into(),
        SqlValue::Integer(i) | SqlValue::Bigint(i) => i.to_string(),
        SqlValue::Smallint(i) => i.to_string(),
        SqlValue::Unsigned(u) => u.to_string(),
        SqlValue::Numeric(f) | SqlValue::Double(f) => fmt_f64(*f),
        SqlValue::Float(f) | SqlValue::Real(f) => fmt_f64(*f as f64),
        SqlValue::Character(s) | SqlValue::Varchar(s) => format!("'{}'", s.replace('\'', "''")),
        SqlValue::Boolean(b) => if *b { "TRUE" } else { "FALSE" }.into(),
        SqlValue::Date(d) => format!("DATE '{}'", d),
        SqlValue::Time(t) => format!("TIME '{}'", t),
        SqlValue::Timestamp(t) => format!("TIMESTAMP '{}'", t),
        SqlValue::Interval(i) => format!("INTERVAL '{}'", i),
    }
}

pub fn fmt_f64(f: f64) -> String {
    if f.fract() == 0.0 && f.abs() < 1e15 {
        format!("{:.1}", f)
    } else {
        format!("{:?}", f)
    }
}

// ---------------------------------------------------------------------------------------------
// Observer: canonical, order-free dump of everything observable

#[derive(Clone, Debug, PartialEq)]
pub struct TableObs {
    pub name: String,
    pub columns: Vec<(String, String, bool)>,
    /// rows rendered with Debug of SqlValue, sorted
    pub rows: Vec<String>,
}

#[derive(Clone, Debug, PartialEq)]
pub struct DbObs {
    pub tables: Vec<TableObs>,
    pub indexes: Vec<String>,
    pub views: Vec<String>,
    pub triggers: Vec<String>,
}

pub fn row_text(r: &Row) -> String {
    r.values.iter().map(val_text).collect::<Vec<_>>().join("|")
}

/// Exact textual identity of a value (type tag + bits for floats).
pub fn val_text(v: &SqlValue) -> String {
    match v {
        SqlValue::Double(f) => format!("D{:016x}", f.to_bits()),
        SqlValue::Numeric(f) => format!("N{:016x}", f.to_bits()),
        SqlValue::Float(f) => format!("F{:08x}", f.to_bits()),
        SqlValue::Real(f) => format!("R{:08x}", f.to_bits()),
        other => format!("{:?}", other),
    }
}

pub fn observe(db: &Database) -> DbObs {
    let mut names = db.list_tables();
    names.sort();
    let mut tables = Vec::new();
    for n in names {
        if let Some(t) = db.get_table(&n) {
            let columns = t.schema.columns.iter().map(|c| (c.name.clone(), format!("{:?}", c.data_type), c.nullable)).collect();
            let mut rows: Vec<String> = t.scan().iter().map(row_text).collect();
            rows.sort();
            tables.push(TableObs { name: n, columns, rows });
        }
    }
    let mut indexes = db.list_indexes();
    indexes.sort();
    let mut views: Vec<String> = db.catalog.list_views();
    views.sort();
    let mut triggers: Vec<String> = db.catalog.list_triggers();
    triggers.sort();
    DbObs { tables, indexes, views, triggers }
}

pub fn diff_obs(a: &DbObs, b: &DbObs) -> Option<String> {
    if a == b {
        return None;
    }
    let mut s = String::new();
    let an: Vec<_> = a.tables.iter().map(|t| &t.name).collect();
    let bn: Vec<_> = b.tables.iter().map(|t| &t.name).collect();
    if an != bn {
        s.push_str(&format!("tables {:?} vs {:?}\n", an, bn));
    }
    for ta in &a.tables {
        if let Some(tb) = b.tables.iter().find(|t| t.name == ta.name) {
            if ta.columns != tb.columns {
                s.push_str(&format!("table {} columns {:?} vs {:?}\n", ta.name, ta.columns, tb.columns));
            }
            if ta.rows != tb.rows {
                let only_a: Vec<_> = ta.rows.iter().filter(|r| !tb.rows.contains(r)).take(5).collect();
                let only_b: Vec<_> = tb.rows.iter().filter(|r| !ta.rows.contains(r)).take(5).collect();
                s.push_str(&format!(
                    "table {} rows differ ({} vs {}): only-before {:?} only-after {:?}\n",
                    ta.name,
                    ta.rows.len(),
                    tb.rows.len(),
                    only_a,
                    only_b
                ));
            }
        }
    }
    if a.indexes != b.indexes {
        s.push_str(&format!("indexes {:?} vs {:?}\n", a.indexes, b.indexes));
    }
    if a.views != b.views {
        s.push_str(&format!("views {:?} vs {:?}\n", a.views, b.views));
    }
    if a.triggers != b.triggers {
        s.push_str(&format!("triggers {:?} vs {:?}\n", a.triggers, b.triggers));
    }
    Some(s)
}
