//! Serializable mirror of `SqlValue` (floats kept as bit patterns so NaN payloads and
//! -0.0 survive JSON), generators with taught specials, and canonical comparison values.

use crate::tape::Tape;
use serde::{Deserialize, Serialize};
use vibesql_types::{Date, Interval, SqlValue, Time, Timestamp};

#[derive(Clone, Debug, PartialEq, Eq, Hash, Serialize, Deserialize)]
pub enum V {
    Null,
    Int(i64),
    Small(i16),
    Big(i64),
    Uns(u64),
    Num(u64),
    Float(u32),
    Real(u32),
    Double(u64),
    Char(String),
    Varchar(String),
    Bool(bool),
    Date(i32, u8, u8),
    Time(u8, u8, u8, u32),
    Ts(i32, u8, u8, u8, u8, u8, u32),
    Interval(String),
}

impl V {
    pub fn dbl(f: f64) -> V {
        V::Double(f.to_bits())
    }
    pub fn to_sql(&self) -> SqlValue {
        match self {
            V::Null => SqlValue::Null,
            V::Int(i) => SqlValue::Integer(*i),
            V::Small(i) => SqlValue::Smallint(*i),
            V::Big(i) => SqlValue::Bigint(*i),
            V::Uns(u) => SqlValue::Unsigned(*u),
            V::Num(b) => SqlValue::Numeric(f64::from_bits(*b)),
            V::Float(b) => SqlValue::Float(f32::from_bits(*b)),
            V::Real(b) => SqlValue::Real(f32::from_bits(*b)),
            V::Double(b) => SqlValue::Double(f64::from_bits(*b)),
            V::Char(s) => SqlValue::Character(s.clone()),
            V::Varchar(s) => SqlValue::Varchar(s.clone()),
            V::Bool(b) => SqlValue::Boolean(*b),
            V::Date(y, m, d) => SqlValue::Date(Date { year: *y, month: *m, day: *d }),
            V::Time(h, m, s, n) => SqlValue::Time(Time { hour: *h, minute: *m, second: *s, nanosecond: *n }),
            V::Ts(y, mo, d, h, mi, s, n) => SqlValue::Timestamp(Timestamp {
                date: Date { year: *y, month: *mo, day: *d },
                time: Time { hour: *h, minute: *mi, second: *s, nanosecond: *n },
            }),
            V::Interval(s) => SqlValue::Interval(Interval::new(s.clone())),
        }
    }
    pub fn from_sql(v: &SqlValue) -> V {
        match v {
            SqlValue::Null => V::Null,
            SqlValue::Integer(i) => V::Int(*i),
            SqlValue::Smallint(i) => V::Small(*i),
            SqlValue::Bigint(i) => V::Big(*i),
            SqlValue::Unsigned(u) => V::Uns(*u),
            SqlValue::Numeric(f) => V::Num(f.to_bits()),
            SqlValue::Float(f) => V::Float(f.to_bits()),
            SqlValue::Real(f) => V::Real(f.to_bits()),
            SqlValue::Double(f) => V::Double(f.to_bits()),
            SqlValue::Character(s) => V::Char(s.clone()),
            SqlValue::Varchar(s) => V::Varchar(s.clone()),
            SqlValue::Boolean(b) => V::Bool(*b),
            SqlValue::Date(d) => V::Date(d.year, d.month, d.day),
            SqlValue::Time(t) => V::Time(t.hour, t.minute, t.second, t.nanosecond),
            SqlValue::Timestamp(ts) => {
                V::Ts(ts.date.year, ts.date.month, ts.date.day, ts.time.hour, ts.time.minute, ts.time.second, ts.time.nanosecond)
            }
            SqlValue::Interval(i) => V::Interval(i.value.clone()),
        }
    }
    pub fn kind(&self) -> u8 {
        match self {
            V::Null => 0,
            V::Int(_) => 1,
            V::Small(_) => 2,
            V::Big(_) => 3,
            V::Uns(_) => 4,
            V::Num(_) => 5,
            V::Float(_) => 6,
            V::Real(_) => 7,
            V::Double(_) => 8,
            V::Char(_) => 9,
            V::Varchar(_) => 10,
            V::Bool(_) => 11,
            V::Date(..) => 12,
            V::Time(..) => 13,
            V::Ts(..) => 14,
            V::Interval(_) => 15,
        }
    }
    /// short human rendering
    pub fn show(&self) -> String {
        match self {
            V::Num(b) | V::Double(b) => format!("{}({:?}/0x{:x})", if matches!(self, V::Num(_)) { "Num" } else { "Double" }, f64::from_bits(*b), b),
            V::Float(b) | V::Real(b) => format!("{}({:?}/0x{:x})", if matches!(self, V::Float(_)) { "Float" } else { "Real" }, f32::from_bits(*b), b),
            other => format!("{:?}", other),
        }
    }
}

pub const F64_SPECIALS: &[u64] = &[
    0x0000000000000000, // +0.0
    0x8000000000000000, // -0.0
    0x7ff8000000000000, // NaN
    0xfff8000000000000, // -NaN
    0x7ff8000000000001, // NaN payload
    0x7ff0000000000000, // +inf
    0xfff0000000000000, // -inf
    0x0000000000000001, // min subnormal
    0x8000000000000001,
    0x3ff0000000000000, // 1.0
    0xbff0000000000000, // -1.0
    0x7fefffffffffffff, // MAX
    0xffefffffffffffff, // MIN
    0x43e0000000000000, // 2^63
    0x3fb999999999999a, // 0.1
    0x4000000000000000, // 2.0
];
pub const F32_SPECIALS: &[u32] = &[
    0x00000000, 0x80000000, 0x7fc00000, 0xffc00000, 0x7fc00001, 0x7f800000, 0xff800000, 0x00000001, 0x3f800000, 0xbf800000, 0x7f7fffff, 0x3dcccccd,
    0x40000000,
];
pub const I64_SPECIALS: &[i64] = &[0, 1, -1, 2, i64::MAX, i64::MIN, i64::MAX - 1, i64::MIN + 1, 1 << 53, (1 << 53) + 1, 100, -100, 42];
pub const STR_POOL: &[&str] = &["", "a", "A", " a", "a ", "ab", "abc", "abd", "b", "B", "é", "日本", "a'b", "NULL", "0"];
pub const INTERVALS: &[&str] = &[
    "1 YEAR",
    "12 MONTH",
    "360 DAY",
    "1 MONTH",
    "30 DAY",
    "720 HOUR",
    "1 DAY",
    "24 HOUR",
    "1440 MINUTE",
    "86400 SECOND",
    "0 DAY",
    "0 YEAR",
    "1-0 YEAR TO MONTH",
    "0-12 YEAR TO MONTH",
    "1-6 YEAR TO MONTH",
    "18 MONTH",
    "1.5 SECOND",
    "1.500000 SECOND",
    "2 SECOND",
    "-1 DAY",
    "-24 HOUR",
    "1 HOUR",
    "60 MINUTE",
    "01:00:00 HOUR TO SECOND",
];

/// Independent decomposition (months, days, microseconds) of each pool interval, written from
/// the documented semantics (1 YEAR = 12 MONTH; H:M:S; fractional seconds).
pub fn interval_model(s: &str) -> Option<(i64, i64, i64)> {
    const H: i64 = 3_600_000_000;
    Some(match s {
        "1 YEAR" | "12 MONTH" | "1-0 YEAR TO MONTH" | "0-12 YEAR TO MONTH" => (12, 0, 0),
        "360 DAY" => (0, 360, 0),
        "1 MONTH" => (1, 0, 0),
        "30 DAY" => (0, 30, 0),
        "720 HOUR" => (0, 0, 720 * H),
        "1 DAY" => (0, 1, 0),
        "24 HOUR" | "1440 MINUTE" | "86400 SECOND" => (0, 0, 24 * H),
        "0 DAY" | "0 YEAR" => (0, 0, 0),
        "1-6 YEAR TO MONTH" | "18 MONTH" => (18, 0, 0),
        "1.5 SECOND" | "1.500000 SECOND" => (0, 0, 1_500_000),
        "2 SECOND" => (0, 0, 2_000_000),
        "-1 DAY" => (0, -1, 0),
        "-24 HOUR" => (0, 0, -24 * H),
        "1 HOUR" | "60 MINUTE" | "01:00:00 HOUR TO SECOND" => (0, 0, H),
        _ => return None,
    })
}
pub fn interval_linear(m: (i64, i64, i64)) -> i128 {
    ((m.0 * 30 + m.1) as i128) * 86_400_000_000i128 + m.2 as i128
}

fn gen_f64(t: &mut Tape) -> u64 {
    match t.weighted(&[5, 3, 2]) {
        0 => *t.pick(F64_SPECIALS),
        1 => ((t.range(-20, 20) as f64) / 4.0).to_bits(),
        _ => ((t.raw() as u64) << 32) | t.raw() as u64,
    }
}
fn gen_f32(t: &mut Tape) -> u32 {
    match t.weighted(&[5, 3, 2]) {
        0 => *t.pick(F32_SPECIALS),
        1 => ((t.range(-20, 20) as f32) / 4.0).to_bits(),
        _ => t.raw(),
    }
}
fn gen_i64(t: &mut Tape) -> i64 {
    match t.weighted(&[4, 4, 1]) {
        0 => t.range(-3, 8),
        1 => *t.pick(I64_SPECIALS),
        _ => (((t.raw() as u64) << 32) | t.raw() as u64) as i64,
    }
}
pub fn gen_date(t: &mut Tape) -> (i32, u8, u8) {
    let y = match t.weighted(&[4, 1, 1]) {
        0 => t.range(1999, 2002) as i32,
        1 => *t.pick(&[1, 9999, 1000, 999, 2000]),
        _ => t.range(1, 9999) as i32,
    };
    (y, t.range(1, 12) as u8, t.range(1, 28) as u8)
}
pub fn gen_time(t: &mut Tape) -> (u8, u8, u8, u32) {
    let n = match t.weighted(&[3, 2, 1]) {
        0 => 0,
        1 => *t.pick(&[1u32, 999_999_999, 500_000_000, 1000, 123_456_789, 100_000_000, 120_000_000]),
        _ => t.range(0, 999_999_999) as u32,
    };
    (t.range(0, 23) as u8, t.range(0, 59) as u8, t.range(0, 59) as u8, n)
}

/// Any SqlValue of the given kind (1..=15); 0 gives NULL.
pub fn gen_of_kind(t: &mut Tape, kind: u8) -> V {
    match kind {
        0 => V::Null,
        1 => V::Int(gen_i64(t)),
        2 => V::Small(*t.pick(&[0i16, 1, -1, i16::MAX, i16::MIN, 7])),
        3 => V::Big(gen_i64(t)),
        4 => V::Uns(*t.pick(&[0u64, 1, u64::MAX, i64::MAX as u64, i64::MAX as u64 + 1, 7])),
        5 => V::Num(gen_f64(t)),
        6 => V::Float(gen_f32(t)),
        7 => V::Real(gen_f32(t)),
        8 => V::Double(gen_f64(t)),
        9 => V::Char(t.pick(STR_POOL).to_string()),
        10 => V::Varchar(t.pick(STR_POOL).to_string()),
        11 => V::Bool(t.chance(1, 2)),
        12 => {
            let (y, m, d) = gen_date(t);
            V::Date(y, m, d)
        }
        13 => {
            let (h, m, s, n) = gen_time(t);
            V::Time(h, m, s, n)
        }
        14 => {
            let (y, mo, d) = gen_date(t);
            let (h, mi, s, n) = gen_time(t);
            V::Ts(y, mo, d, h, mi, s, n)
        }
        _ => V::Interval(t.pick(INTERVALS).to_string()),
    }
}

pub fn gen_any(t: &mut Tape) -> V {
    let k = t.below(16) as u8;
    gen_of_kind(t, k)
}

// ---------------------------------------------------------------------------------------------
// Canonical comparison values for query results ("numeric results compared by value")

#[derive(Clone, Debug, Serialize, Deserialize)]
pub enum CV {
    Null,
    Int(i128),
    F(f64),
    S(String),
    /// anything else, by its Debug text
    O(String),
}

impl CV {
    pub fn from_sql(v: &SqlValue) -> CV {
        match v {
            SqlValue::Null => CV::Null,
            SqlValue::Integer(i) | SqlValue::Bigint(i) => CV::Int(*i as i128),
            SqlValue::Smallint(i) => CV::Int(*i as i128),
            SqlValue::Unsigned(u) => CV::Int(*u as i128),
            SqlValue::Numeric(f) | SqlValue::Double(f) => CV::F(*f),
            SqlValue::Float(f) | SqlValue::Real(f) => CV::F(*f as f64),
            SqlValue::Character(s) | SqlValue::Varchar(s) => CV::S(s.clone()),
            SqlValue::Boolean(b) => CV::Int(*b as i128),
            other => CV::O(format!("{}", other)),
        }
    }
    fn rank(&self) -> u8 {
        match self {
            CV::Null => 0,
            CV::Int(_) | CV::F(_) => 1,
            CV::S(_) => 2,
            CV::O(_) => 3,
        }
    }
    pub fn as_f64(&self) -> Option<f64> {
        match self {
            CV::Int(i) => Some(*i as f64),
            CV::F(f) => Some(*f),
            _ => None,
        }
    }
    /// value equality with relative tolerance for floats; NULL equals NULL (result comparison)
    pub fn same(&self, o: &CV, tol: f64) -> bool {
        match (self, o) {
            (CV::Null, CV::Null) => true,
            (CV::Int(a), CV::Int(b)) => a == b,
            (CV::S(a), CV::S(b)) => a == b,
            (CV::O(a), CV::O(b)) => a == b,
            (a, b) => match (a.as_f64(), b.as_f64()) {
                (Some(x), Some(y)) => {
                    if x.is_nan() || y.is_nan() {
                        return x.is_nan() && y.is_nan();
                    }
                    if x == y {
                        return true;
                    }
                    let scale = x.abs().max(y.abs()).max(1e-300);
                    ((x - y).abs() / scale) <= tol
                }
                _ => false,
            },
        }
    }
    /// total order used only to sort rows before pairwise comparison
    pub fn sort_cmp(&self, o: &CV) -> std::cmp::Ordering {
        use std::cmp::Ordering::*;
        match self.rank().cmp(&o.rank()) {
            Equal => {}
            x => return x,
        }
        match (self, o) {
            (CV::S(a), CV::S(b)) => a.cmp(b),
            (CV::O(a), CV::O(b)) => a.cmp(b),
            (CV::Int(a), CV::Int(b)) => a.cmp(b),
            (a, b) => match (a.as_f64(), b.as_f64()) {
                (Some(x), Some(y)) => x.total_cmp(&y),
                _ => Equal,
            },
        }
    }
    pub fn show(&self) -> String {
        match self {
            CV::Null => "NULL".into(),
            CV::Int(i) => format!("{}", i),
            CV::F(f) => format!("{:?}", f),
            CV::S(s) => format!("'{}'", s),
            CV::O(s) => format!("<{}>", s),
        }
    }
}

pub type CRow = Vec<CV>;

pub fn show_rows(rows: &[CRow], max: usize) -> String {
    let mut s = String::new();
    for r in rows.iter().take(max) {
        s.push_str("  (");
        s.push_str(&r.iter().map(|c| c.show()).collect::<Vec<_>>().join(", "));
        s.push_str(")\n");
    }
    if rows.len() > max {
        s.push_str(&format!("  … {} rows total\n", rows.len()));
    }
    s
}

fn row_cmp(a: &CRow, b: &CRow) -> std::cmp::Ordering {
    for (x, y) in a.iter().zip(b.iter()) {
        let c = x.sort_cmp(y);
        if c != std::cmp::Ordering::Equal {
            return c;
        }
    }
    a.len().cmp(&b.len())
}

pub fn rows_same(a: &CRow, b: &CRow, tol: f64) -> bool {
    a.len() == b.len() && a.iter().zip(b.iter()).all(|(x, y)| x.same(y, tol))
}

/// Multiset equality of two results (tolerant float comparison).
pub fn multiset_eq(a: &[CRow], b: &[CRow], tol: f64) -> bool {
    if a.len() != b.len() {
        return false;
    }
    let mut x = a.to_vec();
    let mut y = b.to_vec();
    x.sort_by(row_cmp);
    y.sort_by(row_cmp);
    if x.iter().zip(y.iter()).all(|(r, s)| rows_same(r, s, tol)) {
        return true;
    }
    // tolerance can reorder near-equal floats: fall back to greedy matching
    let mut used = vec![false; y.len()];
    'outer: for r in &x {
        for (j, s) in y.iter().enumerate() {
            if !used[j] && rows_same(r, s, tol) {
                used[j] = true;
                continue 'outer;
            }
        }
        return false;
    }
    true
}

pub fn seq_eq(a: &[CRow], b: &[CRow], tol: f64) -> bool {
    a.len() == b.len() && a.iter().zip(b.iter()).all(|(r, s)| rows_same(r, s, tol))
}
