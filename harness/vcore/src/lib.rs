pub mod isolate;
pub mod kf;
pub mod runner;
pub mod scenario;
pub mod engine;
pub mod sql;
pub mod sqlite;
pub mod tape;
pub mod val;

pub use runner::{Args, Check, GenCfg, Obs, Tier, Verdict};
pub use tape::Tape;
