//! Choice tape: every random decision of every generator is read from a
//! `Vec<u32>` produced by proptest. Shrinking the vector (shorter, smaller
//! numbers) shrinks the case; an exhausted tape answers 0, which every
//! generator maps to its simplest alternative.

pub struct Tape<'a> {
    data: &'a [u32],
    pos: usize,
}

impl<'a> Tape<'a> {
    pub fn new(data: &'a [u32]) -> Self {
        Tape { data, pos: 0 }
    }

    pub fn raw(&mut self) -> u32 {
        let v = self.data.get(self.pos).copied().unwrap_or(0);
        self.pos += 1;
        v
    }

    pub fn exhausted(&self) -> bool {
        self.pos >= self.data.len()
    }

    pub fn used(&self) -> usize {
        self.pos
    }

    /// Uniform in 0..n, monotone in the raw value (0 stays 0).
    pub fn below(&mut self, n: usize) -> usize {
        if n <= 1 {
            // still consume, so tape layout does not depend on n
            self.raw();
            return 0;
        }
        ((self.raw() as u64 * n as u64) >> 32) as usize
    }

    /// Inclusive range, 0 maps to lo.
    pub fn range(&mut self, lo: i64, hi: i64) -> i64 {
        debug_assert!(lo <= hi);
        let n = (hi - lo + 1) as usize;
        lo + self.below(n) as i64
    }

    /// true with probability num/den; raw 0 => false.
    pub fn chance(&mut self, num: u32, den: u32) -> bool {
        let r = self.below(den as usize) as u32;
        // place the "true" band at the top so that 0 => false
        r >= den - num.min(den)
    }

    pub fn pick<'b, T>(&mut self, xs: &'b [T]) -> &'b T {
        &xs[self.below(xs.len())]
    }

    /// Weighted choice; index 0 should be the simplest alternative.
    pub fn weighted(&mut self, ws: &[u32]) -> usize {
        let total: u64 = ws.iter().map(|&w| w as u64).sum();
        if total == 0 {
            self.raw();
            return 0;
        }
        let mut r = (self.raw() as u64 * total) >> 32;
        for (i, &w) in ws.iter().enumerate() {
            if r < w as u64 {
                return i;
            }
            r -= w as u64;
        }
        ws.len() - 1
    }
}
