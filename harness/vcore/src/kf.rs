//! Known findings: committed file, read-only at run time.

use serde::Deserialize;
use std::path::Path;
use std::sync::OnceLock;

#[derive(Clone, Debug, Deserialize)]
pub struct Entry {
    pub id: String,
    pub property: String,
    /// "open" | "fixed"
    pub status: String,
    pub signature: String,
    pub what: String,
    #[serde(default)]
    pub replay: Option<String>,
    #[serde(default)]
    pub commit: Option<String>,
}

#[derive(Clone, Debug, Default)]
pub struct KnownFindings {
    pub entries: Vec<Entry>,
}

static OPEN: OnceLock<Vec<String>> = OnceLock::new();

/// Open signatures of the running property (empty in strict mode). Used by
/// history-style checks that must continue past a known finding inside a case.
pub fn open_sigs() -> &'static [String] {
    OPEN.get().map(|v| v.as_slice()).unwrap_or(&[])
}
pub fn set_open_sigs(v: Vec<String>) {
    let _ = OPEN.set(v);
}
pub fn is_open_global(sig: &str) -> bool {
    open_sigs().iter().any(|s| s == sig)
}

impl KnownFindings {
    pub fn load(path: &Path, property: &str) -> Self {
        let entries: Vec<Entry> = std::fs::read_to_string(path)
            .ok()
            .and_then(|t| serde_json::from_str::<Vec<Entry>>(&t).map_err(|e| eprintln!("known_findings.json: {}", e)).ok())
            .unwrap_or_default();
        KnownFindings { entries: entries.into_iter().filter(|e| e.property == property).collect() }
    }
    pub fn is_open(&self, sig: &str) -> bool {
        self.entries.iter().any(|e| e.status == "open" && e.signature == sig)
    }
    pub fn what(&self, sig: &str) -> String {
        self.entries.iter().find(|e| e.signature == sig).map(|e| format!("{}: {}", e.id, e.what)).unwrap_or_default()
    }
    pub fn open_signatures(&self) -> Vec<String> {
        self.entries.iter().filter(|e| e.status == "open").map(|e| e.signature.clone()).collect()
    }
}
