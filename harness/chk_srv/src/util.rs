//! Small shared helpers: text generators (never produce NUL, C-strings cannot carry it),
//! hex rendering, panic signatures.

use vcore::Tape;

pub const WORDS: &[&str] = &["a", "postgres", "SELECT 1", "user", "database", "secret", "x y", "ERROR", "42", "INSERT 0 1", "client_encoding", "UTF8"];

/// Characters of interest: multi-byte UTF-8 of every length, combining mark, BOM, controls.
pub const UNI: &[char] = &[
    'é', 'ß', 'Ω', 'я', '中', '😀', '\u{0301}', '\u{FEFF}', '\u{7f}', '\u{1}', '\t', '\n', ' ', '\u{80}', '\u{7ff}', '\u{800}', '\u{ffff}', '\u{10000}',
    '\u{10ffff}', 'A', 'z', '0', '\'', '"', '\\', '%',
];

/// Text without NUL. Choice 0 is a short plain word.
pub fn gen_text(t: &mut Tape, extra: &[&str]) -> String {
    match t.weighted(&[8, 4, 6, 6, if extra.is_empty() { 0 } else { 4 }, 1]) {
        0 => t.pick(WORDS).to_string(),
        1 => String::new(),
        2 => {
            let n = t.below(13);
            (0..n).map(|_| (0x20u8 + t.below(0x5f) as u8) as char).collect()
        }
        3 => {
            let n = 1 + t.below(8);
            (0..n).map(|_| *t.pick(UNI)).collect()
        }
        4 => {
            // check-specific tokens glued to a word
            let tok = t.pick(extra).to_string();
            match t.below(3) {
                0 => tok,
                1 => format!("{}{}", tok, t.pick(WORDS)),
                _ => format!("{}{}", t.pick(WORDS), tok),
            }
        }
        _ => {
            // long
            let base = if t.chance(1, 2) { t.pick(WORDS).to_string() } else { t.pick(UNI).to_string() };
            let target = *t.pick(&[200usize, 255, 256, 1000, 4096, 32767, 32768, 65535, 65536, 70000]);
            let rep = (target / base.len().max(1)).max(1);
            base.repeat(rep)
        }
    }
}

/// Short text without NUL (no long alternative).
pub fn gen_short(t: &mut Tape, extra: &[&str]) -> String {
    loop {
        let s = gen_text(t, extra);
        if s.len() <= 64 {
            return s;
        }
        if t.exhausted() {
            return "a".into();
        }
    }
}

pub fn hex(b: &[u8]) -> String {
    const H: &[u8; 16] = b"0123456789abcdef";
    let mut s = String::with_capacity(b.len() * 2);
    for &x in b {
        s.push(H[(x >> 4) as usize] as char);
        s.push(H[(x & 15) as usize] as char);
    }
    s
}

/// hex with printable ASCII shown as-is: `Q\00\00\00\0dSELECT 1\00`
pub fn show_bytes(b: &[u8], max: usize) -> String {
    let mut s = String::new();
    for &x in b.iter().take(max) {
        if (0x20..0x7f).contains(&x) && x != b'\\' {
            s.push(x as char);
        } else {
            s.push_str(&format!("\\{:02x}", x));
        }
    }
    if b.len() > max {
        s.push_str(&format!("…[{} bytes]", b.len()));
    }
    s
}

/// Line-number-, path- and value-free fragment for a caught panic (`file:line :: message`):
/// the message up to its first ':' with digits removed, e.g. `attempt_to_add_with_overflow`.
pub fn pfrag(desc: &str) -> String {
    let msg = desc.split_once(" :: ").map(|x| x.1).unwrap_or(desc);
    let msg = msg.split(':').next().unwrap_or(msg);
    let m: String = msg.chars().filter(|c| !c.is_ascii_digit()).collect();
    let mut m = m.split_whitespace().collect::<Vec<_>>().join("_");
    m.truncate(40);
    m
}

pub fn psig(desc: &str) -> String {
    format!("panic[{}]", pfrag(desc))
}
