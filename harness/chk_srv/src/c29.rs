//! C29 — password authentication accepts exactly the right credentials.
//!
//! A case is a password store (typed: users and how each secret was created, built through
//! `add_user` / `add_user_hashed` or written to a password file and read with `load_from_file`)
//! plus literal probes (cleartext passwords, MD5 challenge responses). The reference model decides
//! each probe from the statement: cleartext accepted <=> the user exists with an Argon2 secret and the
//! presented password is the one it was created from; MD5 accepted <=> the user exists with a
//! `{MD5}` secret and the response equals "md5" + md5hex(md5hex(password || user) || salt).
//!
//! Argon2 at the server's default cost (19 MiB, t=2) takes tens of milliseconds, so secrets hashed
//! *by the server* appear in 1 of 1000 cases only; all other Argon2 secrets are PHC strings the
//! harness makes itself with tiny cost parameters (the verifier takes the parameters from the PHC
//! string), stored verbatim.

use crate::password::PasswordStore;
use crate::util::{gen_short, hex, psig};
use argon2::password_hash::{PasswordHasher, SaltString};
use argon2::{Algorithm, Argon2, Params, Version};
use md5::{Digest, Md5};
use serde::{Deserialize, Serialize};
use std::collections::BTreeMap;
use std::sync::atomic::{AtomicU64, Ordering};
use vcore::runner::catch;
use vcore::{Check, GenCfg, Obs, Tape, Tier, Verdict};

pub struct C29;

pub const SIG_NO_PREFIX: &str = "md5.accepted_wrong.no_md5_prefix";

#[derive(Clone, Debug, PartialEq, Serialize, Deserialize)]
pub enum Secret {
    /// `add_user(user, password)` / a cleartext file line: the server hashes at its default cost (slow)
    ServerHashed(String),
    /// Argon2 PHC string made by the harness, stored verbatim (`add_user_hashed` / file line)
    Phc { password: String, alg: u8, salt: Vec<u8>, m: u32, t: u32, p: u32, out: u8 },
    /// `{MD5}` + password, stored verbatim
    Md5(String),
    /// stored verbatim and in no valid secret format: nobody can log in as this user
    Verbatim(String),
}

#[derive(Clone, Debug, PartialEq, Serialize, Deserialize)]
pub struct Entry {
    pub user: String,
    pub secret: Secret,
}

#[derive(Clone, Debug, PartialEq, Serialize, Deserialize)]
pub enum Probe {
    Clear { user: String, password: String, note: String },
    Md5 { user: String, salt: [u8; 4], response: String, note: String },
    /// present the stored secret string itself as the cleartext password
    ClearStored { user: String },
    /// present the stored secret string itself as the MD5 response
    Md5Stored { user: String, salt: [u8; 4] },
}

#[derive(Clone, Debug, Serialize, Deserialize)]
pub struct Case {
    /// true: entries are written to a password file and loaded with `load_from_file`
    pub via_file: bool,
    /// extra comment / blank lines in the file
    pub file_noise: bool,
    pub entries: Vec<Entry>,
    pub probes: Vec<Probe>,
    #[serde(default)]
    pub excluded: u32,
}

// ---------------------------------------------------------------------------------------------
// reference: PostgreSQL MD5 response, Argon2 PHC strings
// ---------------------------------------------------------------------------------------------

fn md5hex(parts: &[&[u8]]) -> String {
    let mut h = Md5::new();
    for p in parts {
        h.update(p);
    }
    hex(&h.finalize())
}

/// "md5" + md5hex(md5hex(password || user) || salt)
pub fn pg_md5_response(password: &str, user: &str, salt: &[u8; 4]) -> String {
    let inner = md5hex(&[password.as_bytes(), user.as_bytes()]);
    format!("md5{}", md5hex(&[inner.as_bytes(), salt]))
}

fn md5_selfcheck() -> Result<(), String> {
    // RFC 1321 test vectors
    for (i, o) in [("", "d41d8cd98f00b204e9800998ecf8427e"), ("abc", "900150983cd24fb0d6963f7d28e17f72"), ("message digest", "f96b697d7cb7938d525a2f31aaf161d0")] {
        if md5hex(&[i.as_bytes()]) != o {
            return Err(format!("md5 self-check failed for {:?}", i));
        }
    }
    Ok(())
}

fn phc_string(password: &str, alg: u8, salt: &[u8], m: u32, t: u32, p: u32, out: u8) -> Result<String, String> {
    let alg = match alg % 3 {
        0 => Algorithm::Argon2id,
        1 => Algorithm::Argon2i,
        _ => Algorithm::Argon2d,
    };
    let params = Params::new(m, t, p, if out == 0 { None } else { Some(out as usize) }).map_err(|e| format!("argon2 params: {}", e))?;
    let salt = SaltString::encode_b64(salt).map_err(|e| format!("salt: {}", e))?;
    let a = Argon2::new(alg, Version::V0x13, params);
    a.hash_password(password.as_bytes(), &salt).map(|h| h.to_string()).map_err(|e| format!("argon2 hash: {}", e))
}

fn secret_phc(s: &Secret) -> Option<Result<String, String>> {
    match s {
        Secret::Phc { password, alg, salt, m, t, p, out } => Some(phc_string(password, *alg, salt, *m, *t, *p, *out)),
        _ => None,
    }
}

// ---------------------------------------------------------------------------------------------
// password-file representability (documented format: `username:password`, one per line, `#` comments)
// ---------------------------------------------------------------------------------------------

fn line_safe(s: &str) -> bool {
    !s.contains('\n') && !s.contains('\r') && s.trim() == s
}

fn file_ok(e: &Entry) -> bool {
    let u = &e.user;
    if u.is_empty() || u.contains(':') || u.starts_with('#') || !line_safe(u) {
        return false;
    }
    match &e.secret {
        Secret::ServerHashed(p) => line_safe(p) && !p.starts_with("$argon2") && !p.starts_with("{MD5}"),
        Secret::Phc { .. } => true,
        Secret::Md5(p) => line_safe(p),
        Secret::Verbatim(v) => line_safe(v) && v.starts_with("$argon2"),
    }
}

static FILE_NO: AtomicU64 = AtomicU64::new(0);

// ---------------------------------------------------------------------------------------------
// generators
// ---------------------------------------------------------------------------------------------

const TOKENS: &[&str] = &[":", "{MD5}", "md5", "$argon2", "$argon2id$v=19$", "#", " ", "MD5"];
const USERS: &[&str] = &["postgres", "alice", "bob", "admin", "Ω", "user:1", "md5", "a b"];

/// verbatim stored strings that are in no valid secret format
const VERBATIM: &[&str] = &[
    "$argon2",
    "$argon2id$",
    "$argon2id$v=19$m=8,t=1,p=1$c2FsdHNhbHQ",
    "$argon2id$v=19$m=8,t=1,p=1$$",
    "$argon2x$v=19$m=8,t=1,p=1$c2FsdHNhbHQ$AAAAAAAAAAAAAAAAAAAAAA",
    "$argon2 not a hash",
    "secret",
    "",
    "{md5}secret",
    " {MD5}secret",
    "md5secret",
    "$ARGON2id$v=19$m=8,t=1,p=1$c2FsdHNhbHQ$AAAAAAAAAAAAAAAAAAAAAA",
    "$2b$12$abcdefghijklmnopqrstuv",
];

fn gen_user(t: &mut Tape) -> String {
    if t.chance(2, 3) {
        t.pick(USERS).to_string()
    } else {
        gen_short(t, TOKENS)
    }
}

fn gen_password(t: &mut Tape) -> String {
    if t.chance(1, 3) {
        t.pick(&["secret", "pw", "", "p@ss:word", "пароль", "{MD5}x", "md5", "$argon2id$"]).to_string()
    } else {
        gen_short(t, TOKENS)
    }
}

fn gen_salt4(t: &mut Tape) -> [u8; 4] {
    match t.below(4) {
        0 => [1, 2, 3, 4],
        1 => [0, 0, 0, 0],
        2 => [0xff, 0, 0x80, b'\n'],
        _ => [t.below(256) as u8, t.below(256) as u8, t.below(256) as u8, t.below(256) as u8],
    }
}

fn gen_secret(t: &mut Tape, slow: bool) -> Secret {
    if slow {
        return Secret::ServerHashed(gen_password(t));
    }
    match t.weighted(&[5, 4, 1]) {
        0 => Secret::Md5(gen_password(t)),
        1 => {
            let p = *t.pick(&[1u32, 1, 2]);
            Secret::Phc {
                password: gen_password(t),
                alg: t.weighted(&[4, 1, 1]) as u8,
                salt: (0..*t.pick(&[8usize, 16, 9])).map(|_| t.below(256) as u8).collect(),
                m: 8 * p * *t.pick(&[1u32, 1, 2, 4]),
                t: *t.pick(&[1u32, 1, 2, 3]),
                p,
                out: *t.pick(&[0u8, 0, 16, 32, 64, 10]),
            }
        }
        _ => Secret::Verbatim(t.pick(VERBATIM).to_string()),
    }
}

/// small edits of a text: the near-miss family
fn near(t: &mut Tape, s: &str) -> (String, &'static str) {
    let cs: Vec<char> = s.chars().collect();
    match t.below(8) {
        0 => (format!("{}x", s), "extended"),
        1 => (cs[..cs.len().saturating_sub(1)].iter().collect(), "last_char_dropped"),
        2 => (s.to_uppercase(), "uppercased"),
        3 => (format!(" {}", s), "leading_space"),
        4 => (format!("{} ", s), "trailing_space"),
        5 => {
            let mut c = cs.clone();
            if !c.is_empty() {
                let i = t.below(c.len());
                c[i] = if c[i] == 'a' { 'b' } else { 'a' };
            }
            (c.into_iter().collect(), "one_char_changed")
        }
        6 => (cs.iter().skip(1).collect(), "first_char_dropped"),
        _ => (s.to_lowercase(), "lowercased"),
    }
}

fn gen_md5_response(t: &mut Tape, e: &Entry, others: &[Entry], salt: &[u8; 4], avoid_no_prefix: bool, excluded: &mut u32) -> (String, String) {
    // the password a client of this user would hold
    let pw = match &e.secret {
        Secret::Md5(p) | Secret::ServerHashed(p) => p.clone(),
        Secret::Phc { password, .. } => password.clone(),
        Secret::Verbatim(v) => v.clone(),
    };
    let correct = pg_md5_response(&pw, &e.user, salt);
    let bare = correct[3..].to_string();
    let mut k = t.weighted(&[6, 3, 2, 2, 2, 2, 2, 1, 1, 1, 1, 1, 1, 1, 1, 2]);
    if k == 1 && avoid_no_prefix {
        *excluded += 1;
        k = 0;
    }
    let (r, note): (String, &str) = match k {
        0 => (correct.clone(), "correct"),
        1 => (bare, "no_md5_prefix"),
        2 => (format!("md5{}", bare.to_uppercase()), "hex_uppercased"),
        3 => (format!("MD5{}", bare), "prefix_uppercased"),
        4 => {
            let n = *t.pick(&[34usize, 19, 3, 32, 16, 4]);
            (correct.chars().take(n).collect(), "prefix_of_correct")
        }
        5 => near(t, &correct),
        6 => {
            let o = others.first().map(|o| o.user.clone()).unwrap_or_else(|| format!("{}x", e.user));
            (pg_md5_response(&pw, &o, salt), "other_users_digest")
        }
        7 => {
            let mut s2 = *salt;
            s2[t.below(4)] ^= 1;
            (pg_md5_response(&pw, &e.user, &s2), "other_salts_digest")
        }
        8 => (String::new(), "empty"),
        9 => (gen_short(t, TOKENS), "random"),
        10 => ("md5".to_string(), "prefix_only"),
        11 => (format!("md5{}", correct), "double_prefix"),
        12 => (format!("md5{}", md5hex(&[pw.as_bytes(), e.user.as_bytes()])), "inner_hash"),
        13 => {
            let inner = md5hex(&[e.user.as_bytes(), pw.as_bytes()]);
            (format!("md5{}", md5hex(&[inner.as_bytes(), salt])), "user_password_swapped")
        }
        14 => (pw.clone(), "cleartext_password"),
        _ => near(t, &bare),
    };
    (r, note.to_string())
}

fn gen_clear_password(t: &mut Tape, e: &Entry, others: &[Entry]) -> (String, String) {
    let pw = match &e.secret {
        Secret::Md5(p) | Secret::ServerHashed(p) => p.clone(),
        Secret::Phc { password, .. } => password.clone(),
        Secret::Verbatim(v) => v.clone(),
    };
    match t.weighted(&[5, 5, 1, 1, 1, 1]) {
        0 => (pw, "correct".into()),
        1 => {
            let (s, n) = near(t, &pw);
            (s, n.to_string())
        }
        2 => (String::new(), "empty".into()),
        3 => {
            let o = others
                .first()
                .map(|o| match &o.secret {
                    Secret::Md5(p) | Secret::ServerHashed(p) => p.clone(),
                    Secret::Phc { password, .. } => password.clone(),
                    Secret::Verbatim(v) => v.clone(),
                })
                .unwrap_or_else(|| "other".into());
            (o, "other_users_password".into())
        }
        4 => (pg_md5_response(&pw, &e.user, &[1, 2, 3, 4]), "md5_response_as_cleartext".into()),
        _ => (gen_short(t, TOKENS), "random".into()),
    }
}

fn gen_probe_user(t: &mut Tape, e: &Entry) -> (String, &'static str) {
    match t.weighted(&[12, 1, 1, 1, 1]) {
        0 => (e.user.clone(), "known_user"),
        1 => (format!("{}x", e.user), "user_extended"),
        2 => (e.user.to_uppercase(), "user_uppercased"),
        3 => (String::new(), "user_empty"),
        _ => (format!(" {}", e.user), "user_leading_space"),
    }
}

// bounded Levenshtein distance on chars (only for labelling near misses)
fn lev(a: &str, b: &str) -> usize {
    let a: Vec<char> = a.chars().collect();
    let b: Vec<char> = b.chars().collect();
    if a.len() > 200 || b.len() > 200 {
        return usize::MAX;
    }
    let mut prev: Vec<usize> = (0..=b.len()).collect();
    for i in 1..=a.len() {
        let mut cur = vec![i; b.len() + 1];
        for j in 1..=b.len() {
            cur[j] = (prev[j] + 1).min(cur[j - 1] + 1).min(prev[j - 1] + (a[i - 1] != b[j - 1]) as usize);
        }
        prev = cur;
    }
    prev[b.len()]
}

fn secret_kind(s: &Secret) -> &'static str {
    match s {
        Secret::ServerHashed(_) => "server_hashed",
        Secret::Phc { .. } => "phc",
        Secret::Md5(_) => "md5",
        Secret::Verbatim(_) => "verbatim",
    }
}

/// How a wrongly accepted MD5 response relates to the correct one.
fn md5_wrong_class(resp: &str, correct: &str) -> &'static str {
    if format!("md5{}", resp) == correct {
        "no_md5_prefix"
    } else if resp.to_lowercase() == correct {
        "case_insensitive"
    } else if correct.starts_with(resp) {
        "prefix_of_correct"
    } else if resp.starts_with(correct) {
        "extends_correct"
    } else if resp.trim() == correct {
        "whitespace"
    } else {
        "unrelated"
    }
}

fn clear_wrong_class(p: &str, correct: &str) -> &'static str {
    if p.to_lowercase() == correct.to_lowercase() {
        "case_insensitive"
    } else if correct.starts_with(p) {
        "prefix_of_correct"
    } else if p.starts_with(correct) {
        "extends_correct"
    } else if p.trim() == correct.trim() {
        "whitespace"
    } else {
        "unrelated"
    }
}

impl Check for C29 {
    type Case = Case;
    fn id(&self) -> &'static str {
        "C29"
    }
    fn rule(&self) -> String {
        "store of 1-3 users (names from a pool or generated: empty, Unicode, containing ':' '{MD5}' 'md5' '$argon2' '#' spaces), secrets: {MD5}password, \
         harness-made Argon2id/i/d PHC strings with tiny cost (m=8-64 KiB, t=1-3, p=1-2, 10-64 byte tags), 13 invalid verbatim strings, and in 1 of 1000 \
         cases a password hashed by the server at default cost (add_user / cleartext file line); built through add_user/add_user_hashed (later call \
         wins) or, when every entry is representable as a `user:secret` line, through load_from_file (35%, with comment/blank lines). 1-4 probes per \
         case against known users (80%) or near-miss user names: cleartext = correct / 8 small edits / empty / other user's / md5 response / random / \
         the stored secret itself; MD5 = correct / without md5 prefix / upper-cased hex or prefix / proper prefixes (34,32,19,16,4,3 chars) / small edits of \
         the full and the bare digest / other user's / other salt's / empty / random / 'md5' alone / double prefix / inner hash / swapped operands / \
         the cleartext password / the stored secret itself. Non-trivial = the case holds a probe that is wrong but within edit distance 4 of the \
         correct credential, or a probe for an unknown user. Distinct = hash of the serialised case."
            .into()
    }
    fn assumptions(&self) -> Vec<String> {
        vec![
            "MD5 digests come from the md-5 crate (checked against the RFC 1321 vectors at start), composed by the harness from the documented formula".into(),
            "harness-made PHC strings use the argon2 crate with explicit algorithm/cost/salt; the store must take cost parameters from the PHC string".into(),
            "password files contain only entries the documented line format can express (no ':' / '#'-prefix / surrounding white space / line breaks in names, cleartext passwords not starting with $argon2 or {MD5})".into(),
            "user names and presented passwords never contain NUL (they arrive as C-strings)".into(),
        ]
    }
    fn cases(&self, tier: Tier) -> u64 {
        match tier {
            Tier::Quick => 400_000,
            Tier::Thorough => 10_000_000,
        }
    }
    fn tape_len(&self, _t: Tier) -> usize {
        100
    }
    fn max_shrink_iters(&self) -> u32 {
        800
    }
    fn floors(&self) -> Vec<(&'static str, f64)> {
        vec![("secret:md5", 0.3), ("secret:phc", 0.2), ("via:file", 0.1), ("probe:md5", 0.3), ("probe:clear", 0.2), ("near_miss", 0.1)]
    }

    fn build(&self, t: &mut Tape, cfg: &GenCfg) -> Case {
        let avoid_np = cfg.avoiding(SIG_NO_PREFIX);
        let mut excluded = 0u32;
        let slow = t.chance(1, 1000);
        let n = if slow { 1 } else { 1 + t.weighted(&[5, 3, 1]) };
        let mut entries: Vec<Entry> = vec![];
        for i in 0..n {
            // now and then re-add an existing user: the later call wins
            let user = if i > 0 && t.chance(1, 8) { entries[0].user.clone() } else { gen_user(t) };
            entries.push(Entry { user, secret: gen_secret(t, slow) });
        }
        let mut via_file = t.chance(7, 20);
        let distinct = entries.iter().map(|e| &e.user).collect::<std::collections::BTreeSet<_>>().len() == entries.len();
        if via_file && !(distinct && entries.iter().all(file_ok)) {
            via_file = false;
        }
        let file_noise = via_file && t.chance(1, 2);
        let np = if slow { 1 + t.below(2) } else { 1 + t.below(4) };
        let mut probes = vec![];
        for _ in 0..np {
            let ei = t.below(entries.len());
            let e = entries[ei].clone();
            let others: Vec<Entry> = entries.iter().enumerate().filter(|(i, _)| *i != ei).map(|(_, x)| x.clone()).collect();
            let (user, unote) = gen_probe_user(t, &e);
            // prefer the method that fits the secret, but cross over regularly
            let want_md5 = match e.secret {
                Secret::Md5(_) => !t.chance(1, 6),
                Secret::ServerHashed(_) => t.chance(1, 6),
                _ => t.chance(1, 4),
            };
            if t.chance(1, 25) {
                probes.push(if want_md5 { Probe::Md5Stored { user, salt: gen_salt4(t) } } else { Probe::ClearStored { user } });
            } else if want_md5 {
                let salt = gen_salt4(t);
                // the digest is computed for the *probed* user name: that is what a client would do
                let pe = Entry { user: user.clone(), secret: e.secret.clone() };
                let (response, note) = gen_md5_response(t, &pe, &others, &salt, avoid_np, &mut excluded);
                probes.push(Probe::Md5 { user, salt, response, note: format!("{}/{}", unote, note) });
            } else {
                let (password, note) = gen_clear_password(t, &e, &others);
                probes.push(Probe::Clear { user, password, note: format!("{}/{}", unote, note) });
            }
        }
        Case { via_file, file_noise, entries, probes, excluded }
    }

    fn fixed_cases(&self, _tier: Tier) -> Vec<Case> {
        // one deterministic default-cost case per construction path, so every run exercises them
        let e = |s: Secret| Entry { user: "postgres".into(), secret: s };
        let salt = [1u8, 2, 3, 4];
        let good = pg_md5_response("secret", "postgres", &salt);
        let clear = |p: &str| Probe::Clear { user: "postgres".into(), password: p.into(), note: "fixed".into() };
        let md5p = |r: &str| Probe::Md5 { user: "postgres".into(), salt, response: r.into(), note: "fixed".into() };
        let mut v = vec![];
        for via_file in [false, true] {
            v.push(Case { via_file, file_noise: via_file, entries: vec![e(Secret::ServerHashed("secret123".into()))], probes: vec![clear("secret123"), clear("secret12"), clear("Secret123"), md5p(&good)], excluded: 0 });
            v.push(Case { via_file, file_noise: false, entries: vec![e(Secret::Md5("secret".into()))], probes: vec![md5p(&good), md5p(&good.to_uppercase()), md5p(&good[..19]), clear("secret"), md5p("")], excluded: 0 });
            v.push(Case {
                via_file,
                file_noise: false,
                entries: vec![e(Secret::Phc { password: "пароль".into(), alg: 0, salt: vec![7; 16], m: 8, t: 1, p: 1, out: 0 })],
                probes: vec![clear("пароль"), clear("пароль "), clear(""), md5p(&pg_md5_response("пароль", "postgres", &salt))],
                excluded: 0,
            });
        }
        v
    }

    fn render(&self, c: &Case) -> String {
        vcore::runner::truncate(&serde_json::to_string_pretty(c).unwrap_or_default(), 6000)
    }

    fn run(&self, c: &Case, obs: &mut Obs) -> Verdict {
        obs.excluded = c.excluded as u64;
        if let Err(e) = md5_selfcheck() {
            return Verdict::Harness(e);
        }
        if c.entries.is_empty() {
            return Verdict::Harness("case without entries".into());
        }
        // ---- build the store through the real API ------------------------------------------------
        let mut phcs: Vec<Option<String>> = vec![];
        for e in &c.entries {
            match secret_phc(&e.secret) {
                None => phcs.push(None),
                Some(Ok(s)) => phcs.push(Some(s)),
                Some(Err(m)) => return Verdict::Harness(format!("cannot make PHC string: {}", m)),
            }
            obs.class(&format!("secret:{}", secret_kind(&e.secret)));
        }
        let stored_text = |i: usize| -> Option<String> {
            match &c.entries[i].secret {
                Secret::ServerHashed(_) => None,
                Secret::Phc { .. } => phcs[i].clone(),
                Secret::Md5(p) => Some(format!("{{MD5}}{}", p)),
                Secret::Verbatim(v) => Some(v.clone()),
            }
        };
        let store: PasswordStore = if c.via_file {
            obs.class("via:file");
            let distinct = c.entries.iter().map(|e| &e.user).collect::<std::collections::BTreeSet<_>>().len() == c.entries.len();
            if !distinct || !c.entries.iter().all(file_ok) {
                return Verdict::Harness("file case with an entry the line format cannot express".into());
            }
            let mut txt = String::new();
            if c.file_noise {
                txt.push_str("# users\n\n");
            }
            for (i, e) in c.entries.iter().enumerate() {
                let val = match &e.secret {
                    Secret::ServerHashed(p) => p.clone(),
                    _ => stored_text(i).unwrap(),
                };
                txt.push_str(&format!("{}:{}\n", e.user, val));
                if c.file_noise {
                    txt.push_str("   \n#c:d\n");
                }
            }
            let path = std::env::temp_dir().join(format!("chk_srv_c29_{}_{}.pw", std::process::id(), FILE_NO.fetch_add(1, Ordering::Relaxed)));
            if let Err(e) = std::fs::write(&path, &txt) {
                return Verdict::Harness(format!("cannot write {}: {}", path.display(), e));
            }
            let r = catch(|| PasswordStore::load_from_file(&path));
            let _ = std::fs::remove_file(&path);
            match r {
                Err(p) => return Verdict::fail(format!("load_from_file.{}", psig(&p)), format!("load_from_file panicked: {}\nfile:\n{}", p, txt)),
                Ok(Err(e)) => return Verdict::fail("load_from_file.rejects_valid_file", format!("load_from_file failed on a file in the documented format: {:#}\nfile:\n{}", e, txt)),
                Ok(Ok(s)) => s,
            }
        } else {
            obs.class("via:api");
            let mut s = PasswordStore::new();
            for (i, e) in c.entries.iter().enumerate() {
                match &e.secret {
                    Secret::ServerHashed(p) => match catch(|| s.add_user(e.user.clone(), p)) {
                        Err(pn) => return Verdict::fail(format!("add_user.{}", psig(&pn)), format!("add_user panicked: {}", pn)),
                        Ok(Err(er)) => return Verdict::fail("add_user.error", format!("add_user({:?}, {:?}) failed: {:#}", e.user, p, er)),
                        Ok(Ok(())) => {}
                    },
                    _ => s.add_user_hashed(e.user.clone(), stored_text(i).unwrap()),
                }
            }
            s
        };
        // ---- reference model: user -> index of the entry that counts (the last one) -------------------------
        let mut model: BTreeMap<&str, usize> = BTreeMap::new();
        for (i, e) in c.entries.iter().enumerate() {
            model.insert(e.user.as_str(), i);
        }
        let mut nontrivial = false;
        for (pi, pr) in c.probes.iter().enumerate() {
            obs.sub_evals += 1;
            let (user, is_md5) = match pr {
                Probe::Clear { user, .. } | Probe::ClearStored { user } => (user, false),
                Probe::Md5 { user, .. } | Probe::Md5Stored { user, .. } => (user, true),
            };
            let ent = model.get(user.as_str()).map(|&i| (i, &c.entries[i]));
            if ent.is_none() {
                obs.class("unknown_user");
                nontrivial = true;
            }
            // what is presented
            let presented: String = match pr {
                Probe::Clear { password, .. } => password.clone(),
                Probe::Md5 { response, .. } => response.clone(),
                Probe::ClearStored { .. } | Probe::Md5Stored { .. } => {
                    obs.class("probe:stored_secret");
                    match store.get_password(user) {
                        Some(s) => s.clone(),
                        None => String::new(),
                    }
                }
            };
            let describe = |got: bool, want: bool, why: &str| {
                format!(
                    "probe #{} {:?}\npresented={:?}\nstore entry that counts: {:?}\nstored secret: {:?}\nserver answered {}, reference says {} ({})",
                    pi,
                    pr,
                    presented,
                    ent.map(|x| x.1),
                    store.get_password(user),
                    if got { "ACCEPT" } else { "REJECT" },
                    if want { "ACCEPT" } else { "REJECT" },
                    why
                )
            };
            if is_md5 {
                obs.class("probe:md5");
                let salt = match pr {
                    Probe::Md5 { salt, .. } | Probe::Md5Stored { salt, .. } => *salt,
                    _ => unreachable!(),
                };
                let correct: Option<String> = match ent {
                    Some((_, Entry { secret: Secret::Md5(p), .. })) => Some(pg_md5_response(p, user, &salt)),
                    _ => None,
                };
                let want = correct.as_deref() == Some(presented.as_str());
                if let Some(cr) = &correct {
                    if !want && lev(cr, &presented) <= 4 {
                        obs.class("near_miss");
                        nontrivial = true;
                    }
                    obs.class(if want { "md5:correct" } else { "md5:wrong" });
                }
                let got = match catch(|| store.verify_md5(user, &presented, &salt)) {
                    Ok(g) => g,
                    Err(p) => return Verdict::fail(format!("md5.{}", psig(&p)), format!("verify_md5 panicked: {}\n{}", p, describe(false, want, "panic"))),
                };
                if got && !want {
                    let (cls, why) = match &correct {
                        Some(cr) => (md5_wrong_class(&presented, cr), format!("correct response is {:?}", cr)),
                        None => (if ent.is_some() { "user_without_md5_secret" } else { "unknown_user" }, "no response can be correct for this user".to_string()),
                    };
                    return Verdict::fail(format!("md5.accepted_wrong.{}", cls), describe(got, want, &why));
                }
                if !got && want {
                    return Verdict::fail("md5.rejected_correct", describe(got, want, "response equals \"md5\" + md5hex(md5hex(password || user) || salt)"));
                }
            } else {
                obs.class("probe:clear");
                let correct: Option<&String> = match ent {
                    Some((_, Entry { secret: Secret::ServerHashed(p), .. })) => Some(p),
                    Some((_, Entry { secret: Secret::Phc { password, .. }, .. })) => Some(password),
                    _ => None,
                };
                let want = correct.map(|p| *p == presented).unwrap_or(false);
                if let Some(cr) = correct {
                    if !want && lev(cr, &presented) <= 4 {
                        obs.class("near_miss");
                        nontrivial = true;
                    }
                    obs.class(if want { "clear:correct" } else { "clear:wrong" });
                    if matches!(ent, Some((_, Entry { secret: Secret::ServerHashed(_), .. }))) {
                        obs.class("argon2_default_cost_verify");
                    }
                }
                let got = match catch(|| store.verify_cleartext(user, &presented)) {
                    Ok(g) => g,
                    Err(p) => return Verdict::fail(format!("cleartext.{}", psig(&p)), format!("verify_cleartext panicked: {}\n{}", p, describe(false, want, "panic"))),
                };
                if got && !want {
                    let cls = match correct {
                        Some(cr) => clear_wrong_class(&presented, cr),
                        None => {
                            if ent.is_some() {
                                "user_without_argon2_secret"
                            } else {
                                "unknown_user"
                            }
                        }
                    };
                    return Verdict::fail(format!("cleartext.accepted_wrong.{}", cls), describe(got, want, "presented password differs from the one the secret was created from"));
                }
                if !got && want {
                    let k = ent.map(|x| secret_kind(&x.1.secret)).unwrap_or("?");
                    return Verdict::fail(format!("cleartext.rejected_correct.{}", k), describe(got, want, "presented password is the one the Argon2 secret was created from"));
                }
            }
        }
        obs.nontrivial = nontrivial;
        Verdict::Pass
    }
}
