//! Checks for the PostgreSQL-wire server crate (`vibesql-server`, a binary crate).
//!
//! The real source files are compiled into this crate with `#[path]`, so every build picks up
//! the current working tree of /repo. With the cargo feature `mutant` (sensitivity experiments
//! only) the copies under /tmp/mut/ are compiled instead.
//!
//! * C27 — wire decoding safety and framing      (`FrontendMessage::decode` / `decode_startup`)
//! * C28 — backend messages are well-formed frames (`BackendMessage::encode`)
//! * C29 — password authentication                (`PasswordStore::verify_cleartext` / `verify_md5`)

#[allow(dead_code, unused_imports, clippy::all)]
#[cfg_attr(not(feature = "mutant"), path = "/repo/crates/vibesql-server/src/protocol/messages.rs")]
#[cfg_attr(feature = "mutant", path = "/tmp/mut/messages.rs")]
pub mod messages;

#[allow(dead_code, unused_imports, clippy::all)]
#[cfg_attr(not(feature = "mutant"), path = "/repo/crates/vibesql-server/src/auth/password.rs")]
#[cfg_attr(feature = "mutant", path = "/tmp/mut/password.rs")]
pub mod password;

pub mod c27;
pub mod c28;
pub mod c29;
pub mod util;

pub use c27::C27;
pub use c28::C28;
pub use c29::C29;
