//! C28 — server (backend) messages are well-formed PostgreSQL v3 frames.
//!
//! The case is a typed model of one `BackendMessage`; the real encoder writes it into a buffer and
//! the independent parser below (written from the protocol description: type byte, Int32 length
//! that counts itself but not the type byte, per-type payload layout) must find exactly one frame
//! and recover the same fields.

use crate::messages::{BackendMessage, FieldDescription, TransactionStatus};
use crate::util::{gen_text, psig, show_bytes};
use bytes::BytesMut;
use serde::{Deserialize, Serialize};
use std::collections::{BTreeMap, HashMap};
use vcore::runner::catch;
use vcore::{Check, GenCfg, Obs, Tape, Tier, Verdict};

pub struct C28;

#[derive(Clone, Debug, PartialEq, Serialize, Deserialize)]
pub struct Field {
    pub name: String,
    pub table_oid: i32,
    pub col: i16,
    pub type_oid: i32,
    pub size: i16,
    pub modifier: i32,
    pub format: i16,
}

#[derive(Clone, Debug, PartialEq, Serialize, Deserialize)]
pub enum Val {
    Null,
    Bytes(Vec<u8>),
    /// `len` copies of `byte` (large values without a large replay file)
    Fill { byte: u8, len: u32 },
}

/// `n` items; item i is `pool[i % pool.len()]` (field names get the decimal `i` appended once the
/// pool wraps). `n == 0` or an empty pool means no items.
#[derive(Clone, Debug, PartialEq, Serialize, Deserialize)]
pub struct Rep<T> {
    pub pool: Vec<T>,
    pub n: u32,
}

#[derive(Clone, Debug, PartialEq, Serialize, Deserialize)]
pub enum BMsg {
    AuthOk,
    AuthCleartext,
    AuthMd5 { salt: [u8; 4] },
    ParameterStatus { name: String, value: String },
    BackendKeyData { pid: i32, key: i32 },
    /// 0 idle, 1 in transaction, 2 failed transaction
    ReadyForQuery { status: u8 },
    RowDescription { fields: Rep<Field> },
    DataRow { values: Rep<Val> },
    CommandComplete { tag: String },
    /// distinct non-zero field-type bytes
    ErrorResponse { fields: Vec<(u8, String)> },
    NoticeResponse { fields: Vec<(u8, String)> },
    EmptyQuery,
}

#[derive(Clone, Debug, Serialize, Deserialize)]
pub struct Case {
    pub msg: BMsg,
    /// bytes already in the output buffer (the encoder appends)
    pub prefix: Vec<u8>,
}

/// What the independent parser recovers (and what the model expands to).
#[derive(Clone, Debug, PartialEq)]
enum Parsed {
    AuthOk,
    AuthCleartext,
    AuthMd5([u8; 4]),
    ParameterStatus(String, String),
    BackendKeyData(i32, i32),
    ReadyForQuery(u8),
    RowDescription(Vec<Field>),
    DataRow(Vec<Option<Vec<u8>>>),
    CommandComplete(String),
    ErrorResponse(BTreeMap<u8, String>),
    NoticeResponse(BTreeMap<u8, String>),
    EmptyQuery,
}

fn expand_fields(r: &Rep<Field>) -> Vec<Field> {
    let k = r.pool.len();
    if k == 0 {
        return vec![];
    }
    (0..r.n as usize)
        .map(|i| {
            let mut f = r.pool[i % k].clone();
            if i >= k {
                f.name.push_str(&i.to_string());
            }
            f
        })
        .collect()
}

fn expand_vals(r: &Rep<Val>) -> Vec<Option<Vec<u8>>> {
    let k = r.pool.len();
    if k == 0 {
        return vec![];
    }
    (0..r.n as usize)
        .map(|i| match &r.pool[i % k] {
            Val::Null => None,
            Val::Bytes(b) => Some(b.clone()),
            Val::Fill { byte, len } => Some(vec![*byte; *len as usize]),
        })
        .collect()
}

fn status_byte(s: u8) -> u8 {
    // ReadyForQuery: 'I' idle, 'T' in a transaction block, 'E' failed transaction block
    match s % 3 {
        0 => b'I',
        1 => b'T',
        _ => b'E',
    }
}

fn expected(m: &BMsg) -> Parsed {
    match m {
        BMsg::AuthOk => Parsed::AuthOk,
        BMsg::AuthCleartext => Parsed::AuthCleartext,
        BMsg::AuthMd5 { salt } => Parsed::AuthMd5(*salt),
        BMsg::ParameterStatus { name, value } => Parsed::ParameterStatus(name.clone(), value.clone()),
        BMsg::BackendKeyData { pid, key } => Parsed::BackendKeyData(*pid, *key),
        BMsg::ReadyForQuery { status } => Parsed::ReadyForQuery(status_byte(*status)),
        BMsg::RowDescription { fields } => Parsed::RowDescription(expand_fields(fields)),
        BMsg::DataRow { values } => Parsed::DataRow(expand_vals(values)),
        BMsg::CommandComplete { tag } => Parsed::CommandComplete(tag.clone()),
        BMsg::ErrorResponse { fields } => Parsed::ErrorResponse(fields.iter().cloned().collect()),
        BMsg::NoticeResponse { fields } => Parsed::NoticeResponse(fields.iter().cloned().collect()),
        BMsg::EmptyQuery => Parsed::EmptyQuery,
    }
}

fn to_real(m: &BMsg) -> BackendMessage {
    match m {
        BMsg::AuthOk => BackendMessage::AuthenticationOk,
        BMsg::AuthCleartext => BackendMessage::AuthenticationCleartextPassword,
        BMsg::AuthMd5 { salt } => BackendMessage::AuthenticationMD5Password { salt: *salt },
        BMsg::ParameterStatus { name, value } => BackendMessage::ParameterStatus { name: name.clone(), value: value.clone() },
        BMsg::BackendKeyData { pid, key } => BackendMessage::BackendKeyData { process_id: *pid, secret_key: *key },
        BMsg::ReadyForQuery { status } => BackendMessage::ReadyForQuery {
            status: match status % 3 {
                0 => TransactionStatus::Idle,
                1 => TransactionStatus::InTransaction,
                _ => TransactionStatus::FailedTransaction,
            },
        },
        BMsg::RowDescription { fields } => BackendMessage::RowDescription {
            fields: expand_fields(fields)
                .into_iter()
                .map(|f| FieldDescription {
                    name: f.name,
                    table_oid: f.table_oid,
                    column_attr_number: f.col,
                    data_type_oid: f.type_oid,
                    data_type_size: f.size,
                    type_modifier: f.modifier,
                    format_code: f.format,
                })
                .collect(),
        },
        BMsg::DataRow { values } => BackendMessage::DataRow { values: expand_vals(values) },
        BMsg::CommandComplete { tag } => BackendMessage::CommandComplete { tag: tag.clone() },
        BMsg::ErrorResponse { fields } => BackendMessage::ErrorResponse { fields: fields.iter().cloned().collect::<HashMap<u8, String>>() },
        BMsg::NoticeResponse { fields } => BackendMessage::NoticeResponse { fields: fields.iter().cloned().collect::<HashMap<u8, String>>() },
        BMsg::EmptyQuery => BackendMessage::EmptyQueryResponse,
    }
}

fn variant(m: &BMsg) -> &'static str {
    match m {
        BMsg::AuthOk => "AuthenticationOk",
        BMsg::AuthCleartext => "AuthenticationCleartextPassword",
        BMsg::AuthMd5 { .. } => "AuthenticationMD5Password",
        BMsg::ParameterStatus { .. } => "ParameterStatus",
        BMsg::BackendKeyData { .. } => "BackendKeyData",
        BMsg::ReadyForQuery { .. } => "ReadyForQuery",
        BMsg::RowDescription { .. } => "RowDescription",
        BMsg::DataRow { .. } => "DataRow",
        BMsg::CommandComplete { .. } => "CommandComplete",
        BMsg::ErrorResponse { .. } => "ErrorResponse",
        BMsg::NoticeResponse { .. } => "NoticeResponse",
        BMsg::EmptyQuery => "EmptyQueryResponse",
    }
}

// ---------------------------------------------------------------------------------------------
// independent PostgreSQL v3 backend-frame parser
// ---------------------------------------------------------------------------------------------

struct Rd<'a> {
    b: &'a [u8],
    p: usize,
}

impl<'a> Rd<'a> {
    fn left(&self) -> usize {
        self.b.len() - self.p
    }
    fn take(&mut self, n: usize) -> Result<&'a [u8], String> {
        if self.left() < n {
            return Err(format!("payload ends: need {} bytes at offset {}, {} left", n, self.p, self.left()));
        }
        let s = &self.b[self.p..self.p + n];
        self.p += n;
        Ok(s)
    }
    fn u8(&mut self) -> Result<u8, String> {
        Ok(self.take(1)?[0])
    }
    fn i16(&mut self) -> Result<i16, String> {
        let s = self.take(2)?;
        Ok(i16::from_be_bytes([s[0], s[1]]))
    }
    fn i32(&mut self) -> Result<i32, String> {
        let s = self.take(4)?;
        Ok(i32::from_be_bytes([s[0], s[1], s[2], s[3]]))
    }
    fn cstr(&mut self) -> Result<String, String> {
        let rest = &self.b[self.p..];
        let n = rest.iter().position(|&c| c == 0).ok_or_else(|| format!("string at offset {} is not NUL-terminated inside the payload", self.p))?;
        let s = std::str::from_utf8(&rest[..n]).map_err(|e| format!("string at offset {} is not UTF-8: {}", self.p, e))?.to_string();
        self.p += n + 1;
        Ok(s)
    }
    fn end(&self) -> Result<(), String> {
        if self.left() != 0 {
            return Err(format!("{} unparsed payload bytes after the last field", self.left()));
        }
        Ok(())
    }
}

/// Splits one frame off `b`: (type byte, payload, total frame size).
fn split_frame(b: &[u8]) -> Result<(u8, &[u8], usize), String> {
    if b.len() < 5 {
        return Err(format!("only {} bytes: no type byte + Int32 length", b.len()));
    }
    let len = i32::from_be_bytes([b[1], b[2], b[3], b[4]]);
    if len < 4 {
        return Err(format!("length field {} < 4 (it counts itself)", len));
    }
    let total = 1 + len as usize;
    if b.len() < total {
        return Err(format!("length field {} announces {} bytes after the type byte, only {} present", len, len, b.len() - 1));
    }
    Ok((b[0], &b[5..total], total))
}

fn notice_fields(r: &mut Rd) -> Result<BTreeMap<u8, String>, String> {
    let mut m = BTreeMap::new();
    loop {
        let code = r.u8()?;
        if code == 0 {
            break;
        }
        let v = r.cstr()?;
        if m.insert(code, v).is_some() {
            return Err(format!("field type {} occurs twice", code));
        }
    }
    Ok(m)
}

fn parse_payload(ty: u8, payload: &[u8]) -> Result<Parsed, String> {
    let mut r = Rd { b: payload, p: 0 };
    let m = match ty {
        b'R' => match r.i32()? {
            0 => Parsed::AuthOk,
            3 => Parsed::AuthCleartext,
            5 => {
                let s = r.take(4)?;
                Parsed::AuthMd5([s[0], s[1], s[2], s[3]])
            }
            o => return Err(format!("unknown authentication request code {}", o)),
        },
        b'S' => {
            let n = r.cstr()?;
            let v = r.cstr()?;
            Parsed::ParameterStatus(n, v)
        }
        b'K' => {
            let p = r.i32()?;
            let k = r.i32()?;
            Parsed::BackendKeyData(p, k)
        }
        b'Z' => {
            let s = r.u8()?;
            if !matches!(s, b'I' | b'T' | b'E') {
                return Err(format!("transaction status byte {:#x} is none of I/T/E", s));
            }
            Parsed::ReadyForQuery(s)
        }
        b'T' => {
            let n = r.i16()?;
            if n < 0 {
                return Err(format!("negative field count {}", n));
            }
            let mut v = Vec::with_capacity(n as usize);
            for _ in 0..n {
                let name = r.cstr()?;
                let table_oid = r.i32()?;
                let col = r.i16()?;
                let type_oid = r.i32()?;
                let size = r.i16()?;
                let modifier = r.i32()?;
                let format = r.i16()?;
                v.push(Field { name, table_oid, col, type_oid, size, modifier, format });
            }
            Parsed::RowDescription(v)
        }
        b'D' => {
            let n = r.i16()?;
            if n < 0 {
                return Err(format!("negative column count {}", n));
            }
            let mut v = Vec::with_capacity(n as usize);
            for _ in 0..n {
                let l = r.i32()?;
                if l == -1 {
                    v.push(None);
                } else if l < 0 {
                    return Err(format!("column value length {}", l));
                } else {
                    v.push(Some(r.take(l as usize)?.to_vec()));
                }
            }
            Parsed::DataRow(v)
        }
        b'C' => Parsed::CommandComplete(r.cstr()?),
        b'E' => Parsed::ErrorResponse(notice_fields(&mut r)?),
        b'N' => Parsed::NoticeResponse(notice_fields(&mut r)?),
        b'I' => Parsed::EmptyQuery,
        o => return Err(format!("unknown backend message type byte {:#x}", o)),
    };
    r.end()?;
    Ok(m)
}

fn show_parsed(p: &Parsed) -> String {
    vcore::runner::truncate(&format!("{:?}", p), 1500)
}

// ---------------------------------------------------------------------------------------------
// generators
// ---------------------------------------------------------------------------------------------

const TOKENS: &[&str] = &["SELECT 0", "INSERT 0 1", "server_version", "14.0 (VibeSQL)", "ERROR", "XX000", "42P01", "relation \"t\" does not exist"];
/// documented ErrorResponse/NoticeResponse field-type bytes
const FIELD_CODES: &[u8] = b"SVCMDHPpqWstcdnFLR";

fn gen_field(t: &mut Tape) -> Field {
    let plain = !t.chance(1, 3);
    if plain {
        // what connection.rs sends
        return Field { name: gen_text(t, &["?column?", "count(*)", "id"]), table_oid: 0, col: t.below(8) as i16, type_oid: 25, size: -1, modifier: -1, format: 0 };
    }
    let i32s = [0, 1, -1, 25, 23, 1043, i32::MAX, i32::MIN, 65536];
    let i16s = [0i16, 1, -1, 4, 8, i16::MAX, i16::MIN, 256];
    Field {
        name: gen_text(t, &["?column?", "count(*)", "id"]),
        table_oid: *t.pick(&i32s),
        col: *t.pick(&i16s),
        type_oid: *t.pick(&i32s),
        size: *t.pick(&i16s),
        modifier: *t.pick(&i32s),
        format: *t.pick(&[0i16, 1, -1, 2]),
    }
}

fn gen_val(t: &mut Tape) -> Val {
    match t.weighted(&[4, 2, 2, 2, 1]) {
        0 => Val::Bytes(gen_text(t, &["1", "NULL", "t", "2024-01-01"]).into_bytes()),
        1 => Val::Null,
        2 => Val::Bytes(vec![]),
        3 => {
            // arbitrary bytes, NUL and invalid UTF-8 are legal inside a length-prefixed value
            let n = t.below(12);
            Val::Bytes((0..n).map(|_| *t.pick(&[0u8, 0xff, 1, b'a', 0x80, b'\n', 0xc3, 0x28])).collect())
        }
        _ => Val::Fill { byte: *t.pick(&[b'x', 0, 0xff]), len: *t.pick(&[255u32, 256, 1000, 32767, 32768, 65535, 65536, 100_000]) },
    }
}

fn gen_count(t: &mut Tape) -> u32 {
    match t.weighted(&[30, 30, 8, 2, 1]) {
        0 => t.below(4) as u32,
        1 => 2 + t.below(10) as u32,
        2 => 12 + t.below(90) as u32,
        3 => *t.pick(&[127u32, 128, 255, 256, 257, 1000, 1664, 2000]),
        _ => 100 + t.below(1901) as u32,
    }
}

fn gen_notice_fields(t: &mut Tape) -> Vec<(u8, String)> {
    let n = match t.weighted(&[3, 1, 2, 2, 1]) {
        0 => 3,
        1 => 0,
        2 => 1,
        3 => 2 + t.below(4),
        _ => 6 + t.below(12),
    };
    let mut v: Vec<(u8, String)> = vec![];
    for i in 0..n {
        let code = if n == 3 && t.chance(2, 3) {
            b"SCM"[i]
        } else if t.chance(3, 4) {
            *t.pick(FIELD_CODES)
        } else {
            1 + t.below(255) as u8
        };
        if v.iter().any(|(c, _)| *c == code) {
            continue;
        }
        v.push((code, gen_text(t, TOKENS)));
    }
    v
}

fn has_special_string(m: &BMsg) -> bool {
    let sp = |s: &str| s.is_empty() || !s.is_ascii();
    match m {
        BMsg::ParameterStatus { name, value } => sp(name) || sp(value),
        BMsg::CommandComplete { tag } => sp(tag),
        BMsg::RowDescription { fields } => fields.n > 0 && fields.pool.iter().take(fields.n as usize).any(|f| sp(&f.name)),
        BMsg::ErrorResponse { fields } | BMsg::NoticeResponse { fields } => fields.iter().any(|(_, s)| sp(s)),
        BMsg::DataRow { values } => values.n > 0 && values.pool.iter().take(values.n as usize).any(|v| matches!(v, Val::Bytes(b) if b.is_empty() || !b.is_ascii())),
        _ => false,
    }
}

fn field_count(m: &BMsg) -> usize {
    match m {
        BMsg::ParameterStatus { .. } => 2,
        BMsg::RowDescription { fields } => {
            if fields.pool.is_empty() {
                0
            } else {
                fields.n as usize
            }
        }
        BMsg::DataRow { values } => {
            if values.pool.is_empty() {
                0
            } else {
                values.n as usize
            }
        }
        BMsg::ErrorResponse { fields } | BMsg::NoticeResponse { fields } => fields.len(),
        BMsg::BackendKeyData { .. } => 2,
        _ => 1,
    }
}

impl Check for C28 {
    type Case = Case;
    fn id(&self) -> &'static str {
        "C28"
    }
    fn rule(&self) -> String {
        "one BackendMessage of any of the 12 variants: strings empty / ASCII / multi-byte UTF-8 / control characters / up to 70 kB (never NUL); \
         RowDescription and DataRow with 0-2000 fields built from a pool of 1-4 templates (all seven field attributes incl. i16/i32 extremes; \
         values NULL / empty / arbitrary bytes incl. NUL and invalid UTF-8 / up to 100 kB); Error/Notice maps with 0-17 distinct non-zero \
         field-type bytes; 15% of cases encode into a non-empty buffer. Fixed grid: every fixed-layout variant, counts 0,1,2,1664,32767, strings \
         and values at 32767/32768/65535/65536 bytes. Non-trivial = the message has >= 1 empty or non-ASCII string/value or >= 2 fields. \
         Distinct = hash of the serialised case."
            .into()
    }
    fn assumptions(&self) -> Vec<String> {
        vec![
            "domain = messages the v3 protocol can represent: C-string fields without NUL, Error/Notice field-type bytes != 0, at most 32767 fields/values (Int16 count), frame < 2 GiB; the encoder returns () and cannot reject anything else".into(),
            "maps are compared as maps (field order of Error/Notice responses is free)".into(),
        ]
    }
    fn cases(&self, tier: Tier) -> u64 {
        match tier {
            Tier::Quick => 15_000_000,
            Tier::Thorough => 120_000_000,
        }
    }
    fn tape_len(&self, _t: Tier) -> usize {
        160
    }
    fn floors(&self) -> Vec<(&'static str, f64)> {
        vec![("v:RowDescription", 0.08), ("v:DataRow", 0.08), ("v:ErrorResponse", 0.05), ("v:CommandComplete", 0.05), ("v:ParameterStatus", 0.05), ("nonascii_or_empty", 0.15)]
    }

    fn build(&self, t: &mut Tape, _cfg: &GenCfg) -> Case {
        let msg = match t.weighted(&[10, 10, 10, 8, 8, 4, 2, 2, 2, 2, 1, 1]) {
            0 => BMsg::CommandComplete { tag: gen_text(t, TOKENS) },
            1 => {
                let k = 1 + t.below(4);
                BMsg::RowDescription { fields: Rep { pool: (0..k).map(|_| gen_field(t)).collect(), n: gen_count(t) } }
            }
            2 => {
                let k = 1 + t.below(4);
                BMsg::DataRow { values: Rep { pool: (0..k).map(|_| gen_val(t)).collect(), n: gen_count(t) } }
            }
            3 => BMsg::ErrorResponse { fields: gen_notice_fields(t) },
            4 => BMsg::ParameterStatus { name: gen_text(t, TOKENS), value: gen_text(t, TOKENS) },
            5 => BMsg::NoticeResponse { fields: gen_notice_fields(t) },
            6 => BMsg::ReadyForQuery { status: t.below(3) as u8 },
            7 => BMsg::BackendKeyData { pid: *t.pick(&[1, 0, -1, 12345, i32::MAX, i32::MIN]), key: t.raw() as i32 },
            8 => BMsg::AuthMd5 { salt: [t.below(256) as u8, t.below(256) as u8, t.below(256) as u8, t.below(256) as u8] },
            9 => BMsg::AuthOk,
            10 => BMsg::AuthCleartext,
            _ => BMsg::EmptyQuery,
        };
        let prefix = if t.chance(3, 20) { (0..1 + t.below(9)).map(|_| *t.pick(&[0u8, b'Z', 0xff, 5, b'C'])).collect() } else { vec![] };
        // bound the frame size (~400 kB): many fields x long items would only burn time
        let mut msg = msg;
        const BUDGET: usize = 400_000;
        match &mut msg {
            BMsg::RowDescription { fields } => {
                let item = fields.pool.iter().map(|f| f.name.len() + 25).max().unwrap_or(25);
                fields.n = fields.n.min((BUDGET / item).max(1) as u32);
            }
            BMsg::DataRow { values } => {
                let item = values
                    .pool
                    .iter()
                    .map(|v| match v {
                        Val::Null => 4,
                        Val::Bytes(b) => b.len() + 4,
                        Val::Fill { len, .. } => *len as usize + 4,
                    })
                    .max()
                    .unwrap_or(4);
                values.n = values.n.min((BUDGET / item).max(1) as u32);
            }
            _ => {}
        }
        Case { msg, prefix }
    }

    fn fixed_cases(&self, _tier: Tier) -> Vec<Case> {
        let mut v = vec![BMsg::AuthOk, BMsg::AuthCleartext, BMsg::AuthMd5 { salt: [0, 255, 1, 0] }, BMsg::EmptyQuery, BMsg::BackendKeyData { pid: -1, key: 12345 }];
        for s in 0..3 {
            v.push(BMsg::ReadyForQuery { status: s });
        }
        let plain = Field { name: "c".into(), table_oid: 0, col: 0, type_oid: 25, size: -1, modifier: -1, format: 0 };
        let uni = Field { name: "é中😀".into(), table_oid: i32::MIN, col: i16::MIN, type_oid: i32::MAX, size: i16::MAX, modifier: -1, format: 1 };
        for n in [0u32, 1, 2, 1664, 32767] {
            v.push(BMsg::RowDescription { fields: Rep { pool: vec![plain.clone(), uni.clone()], n } });
            v.push(BMsg::DataRow { values: Rep { pool: vec![Val::Null, Val::Bytes(vec![]), Val::Bytes(b"1".to_vec())], n } });
        }
        for n in [32767usize, 32768, 65535, 65536] {
            v.push(BMsg::CommandComplete { tag: "x".repeat(n) });
            v.push(BMsg::ParameterStatus { name: "n".into(), value: "é".repeat(n / 2) });
            v.push(BMsg::ErrorResponse { fields: vec![(b'S', "ERROR".into()), (b'C', "XX000".into()), (b'M', "m".repeat(n))] });
            v.push(BMsg::DataRow { values: Rep { pool: vec![Val::Fill { byte: 0, len: n as u32 }], n: 2 } });
            v.push(BMsg::RowDescription { fields: Rep { pool: vec![Field { name: "y".repeat(n), ..plain.clone() }], n: 1 } });
        }
        v.push(BMsg::ErrorResponse { fields: vec![] });
        v.push(BMsg::NoticeResponse { fields: (1..=255u8).map(|c| (c, String::new())).collect() });
        v.push(BMsg::CommandComplete { tag: String::new() });
        v.push(BMsg::ParameterStatus { name: String::new(), value: String::new() });
        v.into_iter().map(|msg| Case { msg, prefix: vec![] }).collect()
    }

    fn render(&self, c: &Case) -> String {
        vcore::runner::truncate(&serde_json::to_string(c).unwrap_or_default(), 4000)
    }

    fn run(&self, c: &Case, obs: &mut Obs) -> Verdict {
        let var = variant(&c.msg);
        obs.class(&format!("v:{}", var));
        let special = has_special_string(&c.msg);
        let nf = field_count(&c.msg);
        if special {
            obs.class("nonascii_or_empty");
        }
        obs.class(match nf {
            0 => "fields:0",
            1 => "fields:1",
            2..=11 => "fields:2-11",
            12..=99 => "fields:12-99",
            _ => "fields:100+",
        });
        if !c.prefix.is_empty() {
            obs.class("nonempty_buffer");
        }
        // domain guard (hand-written replays): C-strings cannot carry NUL, field type 0 is the terminator
        let bad_domain = match &c.msg {
            BMsg::ParameterStatus { name, value } => name.contains('\0') || value.contains('\0'),
            BMsg::CommandComplete { tag } => tag.contains('\0'),
            BMsg::RowDescription { fields } => fields.pool.iter().any(|f| f.name.contains('\0')) || field_count(&c.msg) > 32767,
            BMsg::DataRow { .. } => field_count(&c.msg) > 32767,
            BMsg::ErrorResponse { fields } | BMsg::NoticeResponse { fields } => {
                fields.iter().any(|(k, s)| *k == 0 || s.contains('\0')) || fields.iter().map(|f| f.0).collect::<std::collections::BTreeSet<_>>().len() != fields.len()
            }
            _ => false,
        };
        if bad_domain {
            return Verdict::Harness("case outside the protocol-representable domain (NUL in a C-string, field type 0, duplicate field type or > 32767 fields)".into());
        }
        let want = expected(&c.msg);
        let real = to_real(&c.msg);
        let mut buf = BytesMut::from(&c.prefix[..]);
        if let Err(p) = catch(|| real.encode(&mut buf)) {
            return Verdict::fail(format!("{}.encode_panic[{}]", var, psig(&p)), format!("encode panicked: {}", p));
        }
        let sfx = if special { ".special_string" } else { "" };
        if buf.len() < c.prefix.len() || buf[..c.prefix.len()] != c.prefix[..] {
            return Verdict::fail(format!("{}.buffer_prefix_clobbered", var), format!("bytes already in the buffer were changed: before={} after={}", show_bytes(&c.prefix, 40), show_bytes(&buf, 80)));
        }
        let out = &buf[c.prefix.len()..];
        let ctx = |why: &str| format!("{}\nencoded({} bytes)={}\nexpected={}", why, out.len(), show_bytes(out, 300), show_parsed(&want));
        let (ty, payload, total) = match split_frame(out) {
            Ok(x) => x,
            Err(e) => return Verdict::fail(format!("{}.length_field{}", var, sfx), ctx(&format!("not a frame: {}", e))),
        };
        if total != out.len() {
            return Verdict::fail(
                format!("{}.length_field{}", var, sfx),
                ctx(&format!("length field says {} bytes after the type byte, the encoder wrote {} ({} trailing bytes)", total - 1, out.len() - 1, out.len() - total)),
            );
        }
        let got = match parse_payload(ty, payload) {
            Ok(g) => g,
            Err(e) => return Verdict::fail(format!("{}.payload_unparsable{}", var, sfx), ctx(&format!("type '{}': {}", ty as char, e))),
        };
        if got != want {
            return Verdict::fail(format!("{}.fields_differ{}", var, sfx), ctx(&format!("parsed={}", show_parsed(&got))));
        }
        obs.nontrivial = special || nf >= 2;
        Verdict::Pass
    }
}
