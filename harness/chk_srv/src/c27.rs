//! C27 — wire-protocol message decoding is safe and respects framing.
//!
//! A case is a byte stream assembled from typed parts: well-formed frontend frames (encoded by the
//! independent encoder below), then optionally one *focus* (a mutated frame or raw bytes), then
//! further frames / arbitrary tail bytes, optionally truncated (`cut`). The well-formed frames are
//! decoded one after the other and must round-trip exactly; the focus is decoded once and must obey
//! the generic safety/framing rules.
//!
//! Isolation: not needed. `decode`/`decode_startup`/`read_cstring` contain no recursion, no
//! `unsafe`, allocate at most the size of the input buffer, and every loop iteration consumes at
//! least one byte or returns, so the only abnormal exits are ordinary panics (caught here).

use crate::messages::FrontendMessage;
use crate::util::{gen_short, gen_text, pfrag, show_bytes};
use bytes::BytesMut;
use serde::{Deserialize, Serialize};
use vcore::runner::catch;
use vcore::{Check, GenCfg, Obs, Tape, Tier, Verdict};

pub struct C27;

/// "The SSL request code. The value is chosen to contain 1234 in the most significant 16 bits,
/// and 5679 in the least significant 16 bits." (protocol description)
const SSL_CODE: i32 = (1234 << 16) | 5679;
const CANCEL_CODE: i32 = (1234 << 16) | 5678;
const V3: i32 = 3 << 16;

#[derive(Clone, Debug, PartialEq, Serialize, Deserialize)]
pub enum Msg {
    Query(String),
    Password(String),
    Terminate,
    /// parameter names are non-empty; neither names nor values contain NUL
    Startup { version: i32, params: Vec<(String, String)> },
    SslRequest,
}

impl Msg {
    fn startup_kind(&self) -> bool {
        matches!(self, Msg::Startup { .. } | Msg::SslRequest)
    }
    fn normal(&self) -> Msg {
        match self {
            Msg::Startup { version, params } => {
                // a map on the receiving side: last occurrence of a name wins
                let mut m = std::collections::BTreeMap::new();
                for (k, v) in params {
                    m.insert(k.clone(), v.clone());
                }
                Msg::Startup { version: *version, params: m.into_iter().collect() }
            }
            o => o.clone(),
        }
    }
}

#[derive(Clone, Debug, Serialize, Deserialize)]
pub enum Mutn {
    /// overwrite the length field
    LenSet(i32),
    /// add to the length field
    LenDelta(i32),
    /// remove the frame's final NUL and shrink the length field by one: no terminator inside the frame
    DropLastNul,
    /// overwrite one byte of the string area with NUL
    InnerNul(u32),
    /// overwrite one byte of the string area with 0xff (invalid UTF-8)
    BadUtf8(u32),
    /// regular frames: replace the type byte
    Type(u8),
    /// startup frames: replace the protocol version / request code
    Version(i32),
}

#[derive(Clone, Debug, Serialize, Deserialize)]
pub enum Bad {
    Mutated { base: Msg, mutation: Mutn },
    Raw { startup: bool, bytes: Vec<u8> },
}

#[derive(Clone, Debug, Serialize, Deserialize)]
pub struct Case {
    /// well-formed frames, decoded in order (Startup/SslRequest with `decode_startup`, others with `decode`)
    pub good: Vec<Msg>,
    /// the focus: decoded once, generic rules only
    pub bad: Option<Bad>,
    /// well-formed regular frames following the focus (only bytes, never decoded as expectations)
    pub after: Vec<Msg>,
    /// arbitrary trailing bytes; if there is no `bad`, the tail itself is the focus (decoded with `decode`)
    pub tail: Vec<u8>,
    /// truncate the whole stream to this many bytes
    pub cut: Option<u32>,
    #[serde(default)]
    pub excluded: u32,
}

// ---------------------------------------------------------------------------------------------
// independent frontend encoder (from the protocol description)
// ---------------------------------------------------------------------------------------------

fn cstr(out: &mut Vec<u8>, s: &str) {
    out.extend_from_slice(s.as_bytes());
    out.push(0);
}

fn typed(ty: u8, body: &[u8]) -> Vec<u8> {
    let mut out = vec![ty];
    out.extend_from_slice(&((body.len() as i32 + 4).to_be_bytes()));
    out.extend_from_slice(body);
    out
}

pub fn enc(m: &Msg) -> Vec<u8> {
    match m {
        Msg::Query(s) => {
            let mut b = vec![];
            cstr(&mut b, s);
            typed(b'Q', &b)
        }
        Msg::Password(s) => {
            let mut b = vec![];
            cstr(&mut b, s);
            typed(b'p', &b)
        }
        Msg::Terminate => typed(b'X', &[]),
        Msg::Startup { version, params } => {
            let mut b = version.to_be_bytes().to_vec();
            for (k, v) in params {
                cstr(&mut b, k);
                cstr(&mut b, v);
            }
            b.push(0);
            let mut out = ((b.len() as i32 + 4).to_be_bytes()).to_vec();
            out.extend_from_slice(&b);
            out
        }
        Msg::SslRequest => {
            let mut out = 8i32.to_be_bytes().to_vec();
            out.extend_from_slice(&SSL_CODE.to_be_bytes());
            out
        }
    }
}

fn mutate(base: &Msg, m: &Mutn) -> Vec<u8> {
    let mut e = enc(base);
    let st = base.startup_kind();
    let lp = if st { 0 } else { 1 };
    let sa = if st { 8 } else { 5 }; // start of the string area
    let cur = i32::from_be_bytes([e[lp], e[lp + 1], e[lp + 2], e[lp + 3]]);
    let set = |e: &mut Vec<u8>, v: i32| e[lp..lp + 4].copy_from_slice(&v.to_be_bytes());
    match m {
        Mutn::LenSet(v) => set(&mut e, *v),
        Mutn::LenDelta(d) => set(&mut e, cur.wrapping_add(*d)),
        Mutn::DropLastNul => {
            if e.len() > sa && *e.last().unwrap() == 0 {
                e.pop();
                set(&mut e, cur - 1);
            }
        }
        Mutn::InnerNul(p) => {
            if e.len() > sa {
                let i = sa + (*p as usize) % (e.len() - sa);
                e[i] = 0;
            }
        }
        Mutn::BadUtf8(p) => {
            if e.len() > sa {
                let i = sa + (*p as usize) % (e.len() - sa);
                e[i] = 0xff;
            }
        }
        Mutn::Type(b) => {
            if !st {
                e[0] = *b;
            }
        }
        Mutn::Version(v) => {
            if st {
                e[4..8].copy_from_slice(&v.to_be_bytes());
            }
        }
    }
    e
}

impl Bad {
    fn startup(&self) -> bool {
        match self {
            Bad::Mutated { base, .. } => base.startup_kind(),
            Bad::Raw { startup, .. } => *startup,
        }
    }
    fn bytes(&self) -> Vec<u8> {
        match self {
            Bad::Mutated { base, mutation } => mutate(base, mutation),
            Bad::Raw { bytes, .. } => bytes.clone(),
        }
    }
}

struct Layout {
    stream: Vec<u8>,
    /// end offset of every good frame (untruncated offsets)
    good_ends: Vec<usize>,
}

fn layout(c: &Case) -> Layout {
    let mut stream = vec![];
    let mut good_ends = vec![];
    for m in &c.good {
        stream.extend_from_slice(&enc(m));
        good_ends.push(stream.len());
    }
    if let Some(b) = &c.bad {
        stream.extend_from_slice(&b.bytes());
    }
    for m in &c.after {
        stream.extend_from_slice(&enc(m));
    }
    stream.extend_from_slice(&c.tail);
    if let Some(k) = c.cut {
        stream.truncate((k as usize).min(stream.len()));
    }
    Layout { stream, good_ends }
}

/// Offset and decoder of the focus, if the (possibly truncated) stream reaches it.
fn focus_of(c: &Case, l: &Layout) -> Option<(usize, bool)> {
    let pos = l.good_ends.last().copied().unwrap_or(0);
    if pos > l.stream.len() {
        return None; // truncated inside a good frame
    }
    Some((pos, c.bad.as_ref().map(|b| b.startup()).unwrap_or(false)))
}

// ---------------------------------------------------------------------------------------------
// trigger classification of the bytes handed to a decoder (input features only)
// ---------------------------------------------------------------------------------------------

fn be32(s: &[u8]) -> i32 {
    i32::from_be_bytes([s[0], s[1], s[2], s[3]])
}

pub fn classify(startup: bool, s: &[u8]) -> &'static str {
    if startup {
        if s.len() < 4 {
            return "short_hdr";
        }
        let len = be32(s) as i64;
        if len < 0 {
            return "len_negative";
        }
        if (s.len() as i64) < len {
            return "incomplete";
        }
        if len < 8 {
            return if s.len() < 8 { "len_lt8_short_buf" } else { "len_lt8" };
        }
        let len = len as usize;
        if be32(&s[4..]) == SSL_CODE {
            return if len == 8 { "wellformed_shape" } else { "ssl_code_long" };
        }
        // walk name/value strings inside the frame
        let body = &s[8..len];
        let mut p = 0usize;
        let mut want_key = true;
        loop {
            match body[p..].iter().position(|&b| b == 0) {
                None => {
                    return if s[len..].contains(&0) { "unterminated_in_frame" } else { "unterminated_no_nul" };
                }
                Some(n) => {
                    if want_key && n == 0 {
                        return if p + 1 == body.len() { "wellformed_shape" } else { "early_terminator" };
                    }
                    p += n + 1;
                    want_key = !want_key;
                }
            }
        }
    } else {
        if s.len() < 5 {
            return "short_hdr";
        }
        let len = be32(&s[1..]) as i64;
        if len == -1 {
            return "len_minus1";
        }
        let known = matches!(s[0], b'Q' | b'p' | b'X');
        if !known {
            return "unknown_type";
        }
        if len < 0 {
            return "len_negative";
        }
        if len < 4 {
            return "len_lt4";
        }
        if (s.len() as i64) < 1 + len {
            return "incomplete";
        }
        let end = 1 + len as usize;
        if s[0] == b'X' {
            return if len == 4 { "wellformed_shape" } else { "terminate_with_body" };
        }
        let body = &s[5..end];
        match body.iter().position(|&b| b == 0) {
            None => {
                if s[end..].contains(&0) {
                    "no_nul_in_frame"
                } else {
                    "no_nul_at_all"
                }
            }
            Some(n) if n + 1 == body.len() => "wellformed_shape",
            Some(_) => "early_nul",
        }
    }
}

fn dec_name(startup: bool) -> &'static str {
    if startup {
        "startup"
    } else {
        "decode"
    }
}

/// `<decoder>.<relation>.<trigger>[...]` -> (decoder, trigger)
fn sig_parts(sig: &str) -> Option<(&str, &str)> {
    let mut it = sig.splitn(3, '.');
    let d = it.next()?;
    let _rel = it.next()?;
    let rest = it.next()?;
    Some((d, rest.split('[').next().unwrap_or(rest)))
}

fn avoided(cfg: &GenCfg, startup: bool, trig: &str) -> bool {
    cfg.avoid_known && cfg.known_open.iter().any(|s| sig_parts(s) == Some((dec_name(startup), trig)))
}

// ---------------------------------------------------------------------------------------------
// calling the code under test
// ---------------------------------------------------------------------------------------------

#[derive(Debug)]
enum Res {
    Msg(Msg),
    None,
    #[allow(dead_code)]
    Err(String),
    Panic(String),
}

struct Outcome {
    res: Res,
    consumed: usize,
    /// what is left in the buffer is exactly the unconsumed suffix of the input
    rest_ok: bool,
}

fn to_model(m: FrontendMessage) -> Msg {
    match m {
        FrontendMessage::Startup { protocol_version, params } => {
            let mut v: Vec<(String, String)> = params.into_iter().collect();
            v.sort();
            Msg::Startup { version: protocol_version, params: v }
        }
        FrontendMessage::Password { password } => Msg::Password(password),
        FrontendMessage::Query { query } => Msg::Query(query),
        FrontendMessage::Terminate => Msg::Terminate,
        FrontendMessage::SSLRequest => Msg::SslRequest,
    }
}

fn call(startup: bool, s: &[u8]) -> Outcome {
    let mut buf = BytesMut::from(s);
    let r = catch(|| if startup { FrontendMessage::decode_startup(&mut buf) } else { FrontendMessage::decode(&mut buf) });
    let left = buf.len().min(s.len());
    let consumed = s.len() - left;
    let rest_ok = buf.len() <= s.len() && buf[..] == s[consumed..];
    let res = match r {
        Err(p) => Res::Panic(p),
        Ok(Ok(Some(m))) => Res::Msg(to_model(m)),
        Ok(Ok(None)) => Res::None,
        Ok(Err(e)) => Res::Err(e.to_string()),
    };
    Outcome { res, consumed, rest_ok }
}

fn res_label(r: &Res) -> &'static str {
    match r {
        Res::Msg(_) => "result:message",
        Res::None => "result:need_more",
        Res::Err(_) => "result:error",
        Res::Panic(_) => "result:panic",
    }
}

fn show_res(r: &Res) -> String {
    vcore::runner::truncate(&format!("{:?}", r), 400)
}

/// Generic safety/framing rules for one decoder call on arbitrary bytes.
fn generic(startup: bool, s: &[u8], obs: &mut Obs) -> Verdict {
    let d = dec_name(startup);
    let trig = classify(startup, s);
    obs.class(&format!("focus:{}.{}", d, trig));
    let o = call(startup, s);
    obs.class(res_label(&o.res));
    let hdr = if startup { 4 } else { 5 };
    let declared: Option<i64> = if s.len() >= hdr { Some(if startup { be32(s) as i64 } else { 1 + be32(&s[1..]) as i64 }) } else { None };
    let ctx = || format!("decoder={} input({} bytes)={} declared_frame_len={:?} consumed={} result={}", d, s.len(), show_bytes(s, 200), declared, o.consumed, show_res(&o.res));
    if let Res::Panic(p) = &o.res {
        return Verdict::fail(format!("{}.panic.{}[{}]", d, trig, pfrag(p)), format!("decoder panicked: {}\n{}", p, ctx()));
    }
    if !o.rest_ok {
        return Verdict::fail(format!("{}.bytes_modified.{}", d, trig), format!("the bytes left in the buffer are not the unconsumed suffix of the input\n{}", ctx()));
    }
    if matches!(o.res, Res::None) && o.consumed != 0 {
        return Verdict::fail(format!("{}.need_more_but_consumed.{}", d, trig), format!("decoder asked for more bytes but consumed some\n{}", ctx()));
    }
    match declared {
        None => {
            if matches!(o.res, Res::Msg(_)) {
                return Verdict::fail(format!("{}.message_from_incomplete_header.{}", d, trig), ctx());
            }
        }
        Some(l) => {
            if o.consumed as i64 > l.max(0) {
                return Verdict::fail(
                    format!("{}.beyond_frame.{}", d, trig),
                    format!("decoder consumed {} bytes, the frame declares {} ({})\n{}", o.consumed, l, if startup { "length field value" } else { "type byte + length field value" }, ctx()),
                );
            }
            if matches!(o.res, Res::Msg(_)) && (s.len() as i64) < l {
                return Verdict::fail(format!("{}.message_from_incomplete_frame.{}", d, trig), ctx());
            }
        }
    }
    Verdict::Pass
}

// ---------------------------------------------------------------------------------------------
// generators
// ---------------------------------------------------------------------------------------------

const TOKENS: &[&str] = &["user", "database", "options", "application_name", "md5", "SELECT", ";", "'"];

fn gen_regular(t: &mut Tape) -> Msg {
    match t.weighted(&[5, 3, 2]) {
        0 => Msg::Query(gen_text(t, TOKENS)),
        1 => Msg::Password(gen_text(t, TOKENS)),
        _ => Msg::Terminate,
    }
}

fn gen_startup(t: &mut Tape) -> Msg {
    if t.chance(1, 5) {
        return Msg::SslRequest;
    }
    let version = *t.pick(&[V3, V3 + 1, 2 << 16, 0, -1, i32::MAX, i32::MIN, CANCEL_CODE, 1]);
    let n = t.weighted(&[2, 3, 3, 1, 1]);
    let mut params: Vec<(String, String)> = vec![];
    for _ in 0..n {
        let mut k = if t.chance(3, 4) { t.pick(&["user", "database", "options", "application_name", "client_encoding"]).to_string() } else { gen_short(t, TOKENS) };
        if k.is_empty() {
            k = "k".into();
        }
        if params.iter().any(|(x, _)| *x == k) {
            continue;
        }
        params.push((k, gen_text(t, TOKENS)));
    }
    Msg::Startup { version, params }
}

const BYTE_POOL: &[u8] = &[0, 0, 0, 0, b'Q', b'p', b'X', b'a', 1, 3, 4, 5, 7, 8, 9, 12, 16, 0xff, 0x7f, 0x80, 0xc3, 0xa9, b'S', 0x04, 0xd2, 0x16, 0x2f];

fn gen_byte(t: &mut Tape) -> u8 {
    if t.chance(1, 5) {
        t.below(256) as u8
    } else {
        *t.pick(BYTE_POOL)
    }
}

fn gen_bytes(t: &mut Tape, max: usize) -> Vec<u8> {
    let n = t.below(max + 1);
    (0..n).map(|_| gen_byte(t)).collect()
}

fn gen_len_value(t: &mut Tape, body: usize, startup: bool) -> i32 {
    let exact = body as i32 + 4;
    match t.below(5) {
        0 => exact,
        1 => *t.pick(&[-1, 0, 3, 4, 5, 7, 8, 1, 2, 6, 9, -2, i32::MAX, i32::MIN, 65536, 16]),
        2 => exact + *t.pick(&[-1, 1, -2, 2, -4, 4, 100, -100]),
        3 => t.range(0, body as i64 + 8) as i32,
        _ => {
            if startup {
                8
            } else {
                4
            }
        }
    }
}

fn gen_raw(t: &mut Tape) -> Bad {
    let startup = t.chance(1, 3);
    let bytes = if t.chance(1, 3) {
        gen_bytes(t, 24)
    } else if startup && t.chance(1, 4) {
        // a bare (small) length field with 0-3 further bytes
        let mut v = (t.below(9) as i32).to_be_bytes().to_vec();
        v.extend(gen_bytes(t, 3));
        v
    } else {
        // header-shaped: [type] len body
        let body = if startup {
            let mut b = t.pick(&[V3, SSL_CODE, CANCEL_CODE, 0]).to_be_bytes().to_vec();
            b.extend(gen_bytes(t, 16));
            b
        } else {
            gen_bytes(t, 16)
        };
        let mut v = vec![];
        if !startup {
            v.push(*t.pick(&[b'Q', b'p', b'X', b'Q', b'p', b'S', 0, b'P', 0xff]));
        }
        v.extend_from_slice(&gen_len_value(t, body.len(), startup).to_be_bytes());
        v.extend(body);
        v
    };
    Bad::Raw { startup, bytes }
}

fn gen_mutation(t: &mut Tape, base: &Msg) -> Mutn {
    let body = enc(base).len();
    match t.weighted(&[4, 3, 3, 2, 2, 1, 1]) {
        0 => Mutn::LenSet(*t.pick(&[-1, 0, 3, 4, i32::MAX, i32::MIN, 5, 7, 8, 1, 2, 6, -2, 65536])),
        1 => Mutn::LenDelta(*t.pick(&[-1, 1, -2, 2, -4, 4, 100, -(body as i32)])),
        2 => Mutn::DropLastNul,
        3 => Mutn::InnerNul(t.below(64) as u32),
        4 => Mutn::BadUtf8(t.below(64) as u32),
        5 => Mutn::Type(*t.pick(&[b'S', 0, b'P', b'q', 0xff, b'X', b'Q', b'p'])),
        _ => Mutn::Version(*t.pick(&[SSL_CODE, CANCEL_CODE, V3, 0])),
    }
}

impl Check for C27 {
    type Case = Case;
    fn id(&self) -> &'static str {
        "C27"
    }
    fn rule(&self) -> String {
        "byte stream = 0-5 well-formed frontend frames (Query/Password/Terminate, optionally led by Startup/SSLRequest; texts empty/ASCII/multi-byte \
         UTF-8/up to 70 kB, never NUL) encoded by an independent encoder, then optionally one focus = mutated frame (length field set to \
         -1,0,3,4,5,7,8,MAX,MIN or shifted by +-1,2,4,100; final NUL dropped; inner NUL; invalid UTF-8; other type byte; other request code) or raw \
         bytes (random or header-shaped), then 0-2 further frames and 0-12 tail bytes, optionally truncated at a random byte. Fixed ladder: 7 base \
         messages x (every truncation point, 8 length values x {alone, followed by a frame}, dropped NUL). Non-trivial = the focus has a declared \
         length inconsistent with its content (trigger class other than wellformed_shape/short_hdr) or the stream holds >= 2 concatenated frames. \
         Distinct = hash of the serialised case."
            .into()
    }
    fn assumptions(&self) -> Vec<String> {
        vec![
            "a decoder that answers 'need more bytes' forever for a negative or absurdly large length field is accepted (the statement allows it)".into(),
            "consuming fewer bytes than the declared frame (NUL before the frame end, Terminate with a body) is recorded as a class, not a failure: the statement only bounds consumption from above".into(),
            "a strict prefix of a well-formed frame must give 'need more bytes' with nothing consumed (stream semantics of the statement's second half)".into(),
            "run in-process with panic capture: the decoders have no recursion, no unsafe, bounded allocation and terminating loops, so no abort/hang path exists".into(),
            "built with overflow-checks on: an integer wrap in the decoder surfaces as a panic".into(),
        ]
    }
    fn cases(&self, tier: Tier) -> u64 {
        match tier {
            Tier::Quick => 10_000_000,
            Tier::Thorough => 100_000_000,
        }
    }
    fn tape_len(&self, _t: Tier) -> usize {
        120
    }
    fn floors(&self) -> Vec<(&'static str, f64)> {
        vec![("concatenated", 0.2), ("focus:mutated", 0.1), ("focus:raw", 0.05), ("roundtrip_ok", 0.3)]
    }

    fn build(&self, t: &mut Tape, cfg: &GenCfg) -> Case {
        let mut good = vec![];
        // choice 0 everywhere: a single well-formed Query
        if t.chance(1, 3) {
            let s = gen_startup(t);
            let ssl = s == Msg::SslRequest;
            good.push(s);
            if ssl && t.chance(1, 2) {
                good.push(gen_startup(t));
            }
        }
        let n = match t.weighted(&[4, 2, 3, 2, 1]) {
            0 => 1,
            1 => 0,
            2 => 2,
            3 => 3,
            _ => 4,
        };
        for _ in 0..n {
            good.push(gen_regular(t));
        }
        let bad = match t.weighted(&[4, 4, 3]) {
            0 => None,
            1 => {
                let base = if t.chance(1, 3) { gen_startup(t) } else { gen_regular(t) };
                let mutation = gen_mutation(t, &base);
                Some(Bad::Mutated { base, mutation })
            }
            _ => Some(gen_raw(t)),
        };
        let mut after = vec![];
        if bad.is_some() {
            for _ in 0..t.weighted(&[2, 3, 1]) {
                after.push(gen_regular(t));
            }
        }
        let tail = if t.chance(1, 2) { gen_bytes(t, 12) } else { vec![] };
        let mut c = Case { good, bad, after, tail, cut: None, excluded: 0 };
        if t.chance(1, 4) {
            let total = layout(&c).stream.len();
            c.cut = Some(t.below(total + 1) as u32);
        }
        // step around the triggers of known open findings (80 % of the workers)
        for _ in 0..3 {
            let l = layout(&c);
            let Some((pos, st)) = focus_of(&c, &l) else { break };
            if !avoided(cfg, st, classify(st, &l.stream[pos..])) {
                break;
            }
            c.excluded += 1;
            if c.bad.is_some() {
                c.bad = None;
                c.after.clear();
            } else if !c.tail.is_empty() {
                c.tail.clear();
            } else {
                c.cut = None;
            }
        }
        c
    }

    fn fixed_cases(&self, _tier: Tier) -> Vec<Case> {
        let bases = vec![
            Msg::Query("SELECT 1".into()),
            Msg::Query(String::new()),
            Msg::Password("pw".into()),
            Msg::Terminate,
            Msg::Startup { version: V3, params: vec![("user".into(), "u".into()), ("database".into(), "d".into())] },
            Msg::Startup { version: V3, params: vec![] },
            Msg::SslRequest,
        ];
        let follower = Msg::Query("next".into());
        let mut v = vec![];
        for b in &bases {
            let n = enc(b).len();
            // truncated at every byte, alone and with a following frame
            for k in 0..=n {
                v.push(Case { good: vec![b.clone()], bad: None, after: vec![], tail: vec![], cut: Some(k as u32), excluded: 0 });
            }
            v.push(Case { good: vec![b.clone(), follower.clone(), Msg::Terminate], bad: None, after: vec![], tail: vec![7, 0, 0], cut: None, excluded: 0 });
            let lenpos_len = if b.startup_kind() { n as i32 } else { n as i32 - 1 };
            let mut muts: Vec<Mutn> = [-1, 0, 3, 4, lenpos_len - 1, lenpos_len + 1, i32::MAX, i32::MIN].iter().map(|&x| Mutn::LenSet(x)).collect();
            muts.push(Mutn::DropLastNul);
            for m in muts {
                for with_after in [false, true] {
                    v.push(Case {
                        good: vec![],
                        bad: Some(Bad::Mutated { base: b.clone(), mutation: m.clone() }),
                        after: if with_after { vec![follower.clone()] } else { vec![] },
                        tail: vec![],
                        cut: None,
                        excluded: 0,
                    });
                }
            }
        }
        v
    }

    fn render(&self, c: &Case) -> String {
        let l = layout(c);
        format!("{}\nstream({} bytes)={}", serde_json::to_string(c).unwrap_or_default(), l.stream.len(), show_bytes(&l.stream, 400))
    }

    fn run(&self, c: &Case, obs: &mut Obs) -> Verdict {
        obs.excluded = c.excluded as u64;
        let l = layout(c);
        let s = &l.stream;
        let frames = c.good.len() + c.bad.is_some() as usize + c.after.len();
        if frames >= 2 {
            obs.class("concatenated");
        }
        if c.cut.is_some() {
            obs.class("cut");
        }
        let mut nontrivial = frames >= 2;
        // 1. well-formed frames round-trip exactly, one after the other
        let mut pos = 0usize;
        for (i, m) in c.good.iter().enumerate() {
            let e = enc(m);
            if enc(m).len() != l.good_ends[i] - pos {
                return Verdict::Harness("layout inconsistent".into());
            }
            let st = m.startup_kind();
            let d = dec_name(st);
            let end = l.good_ends[i];
            if pos > s.len() {
                return Verdict::Pass;
            }
            let input = &s[pos..];
            let o = call(st, input);
            obs.sub_evals += 1;
            let ctx = || format!("frame #{} {:?}\nencoded={}\ndecoder input({} bytes)={}\nconsumed={} result={}", i, m, show_bytes(&e, 200), input.len(), show_bytes(input, 200), o.consumed, show_res(&o.res));
            if let Res::Panic(p) = &o.res {
                return Verdict::fail(format!("{}.panic.wellformed[{}]", d, pfrag(p)), format!("decoder panicked: {}\n{}", p, ctx()));
            }
            if !o.rest_ok {
                return Verdict::fail(format!("{}.bytes_modified.wellformed", d), ctx());
            }
            if end > s.len() {
                // strict prefix of a well-formed frame: must ask for more and leave the buffer alone
                obs.class("truncated_wellformed");
                nontrivial = true;
                if !matches!(o.res, Res::None) || o.consumed != 0 {
                    return Verdict::fail(format!("{}.truncated_wellformed.not_need_more", d), format!("a strict prefix ({} of {} bytes) of a well-formed frame did not yield 'need more bytes' with nothing consumed\n{}", input.len(), e.len(), ctx()));
                }
                obs.nontrivial = nontrivial;
                return Verdict::Pass;
            }
            match &o.res {
                Res::Msg(got) if *got == m.normal() => {}
                _ => {
                    return Verdict::fail(format!("{}.roundtrip.wrong_result", d), format!("decoding the encoding of a well-formed message did not yield that message\n{}", ctx()));
                }
            }
            if o.consumed != e.len() {
                let rel = if o.consumed > e.len() { "beyond_frame" } else { "short_of_frame" };
                return Verdict::fail(format!("{}.roundtrip.{}", d, rel), format!("frame is {} bytes, decoder consumed {}: following bytes are not left untouched\n{}", e.len(), o.consumed, ctx()));
            }
            obs.class("roundtrip_ok");
            pos = end;
        }
        // 2. the focus (mutated frame / raw bytes / tail), decoded once under the generic rules
        let Some((fpos, st)) = focus_of(c, &l) else {
            obs.nontrivial = nontrivial;
            return Verdict::Pass;
        };
        if fpos != pos {
            return Verdict::Harness("focus offset inconsistent".into());
        }
        match &c.bad {
            Some(Bad::Mutated { .. }) => obs.class("focus:mutated"),
            Some(Bad::Raw { .. }) => obs.class("focus:raw"),
            None => obs.class("focus:tail"),
        }
        let input = &s[pos..];
        let trig = classify(st, input);
        if !matches!(trig, "wellformed_shape" | "short_hdr") {
            nontrivial = true;
        }
        obs.sub_evals += 1;
        let v = generic(st, input, obs);
        obs.nontrivial = nontrivial;
        v
    }
}
