import json, os, subprocess
root='/tmp/vroot_total'
CB="byte index  is not a char boundary; it is inside '' (bytes .]"
OVF=" Overflow-checked builds (debug, the verif profile) panic; a plain release build silently continues with the two's-complement wrapped value."
# (signature, setup statements, wild statement, what)
F=[
("exec.panic[vibesql-executor/src/evaluator/operators/arithmetic/addition.rs|attempt to add with overflow]", [], "SELECT 9223372036854775807 + 1",
 "integer addition is unchecked (`Integer(a + b)` in Addition::add, fast path and ExactNumeric path): 9223372036854775807 + 1."+OVF+" Fix: a.checked_add(b) -> error (or NULL)."),
("exec.panic[vibesql-executor/src/evaluator/operators/arithmetic/subtraction.rs|attempt to subtract with overflow]", [], "SELECT (- 9223372036854775807) - 2",
 "integer subtraction is unchecked (`Integer(a - b)` in Subtraction::subtract): (-9223372036854775807) - 2."+OVF+" Fix: a.checked_sub(b)."),
("exec.panic[vibesql-executor/src/evaluator/operators/arithmetic/multiplication.rs|attempt to multiply with overflow]", [], "SELECT 3037000500 * 3037000500",
 "integer multiplication is unchecked (`Integer(a * b)` in Multiplication::multiply): 3037000500 * 3037000500."+OVF+" Fix: a.checked_mul(b)."),
("exec.panic[rust:core/src/ops/arith.rs|attempt to negate with overflow]", ["CREATE TABLE t (a BIGINT)", "INSERT INTO t VALUES (-9223372036854775808)"], "SELECT - a FROM t",
 "unary minus on a stored i64::MIN is unchecked (`-x`)."+OVF+" Fix: checked_neg()."),
("exec.panic[vibesql-executor/src/simd/aggregation.rs|attempt to add with overflow]", ["CREATE TABLE t (a BIGINT)", "INSERT INTO t VALUES (9223372036854775807)", "INSERT INTO t VALUES (1)"], "SELECT SUM(a) FROM t",
 "SUM over an integer column on the columnar/SIMD path accumulates in i64 without overflow check (simd_sum_i64 and `sum += ..` in simd_aggregate.rs): SUM of {i64::MAX, 1}."+OVF+" The wrapped sum is then returned as Double. Fix: accumulate in i128 (or checked_add) and return an error / exact NUMERIC."),
("inexact.sum.float_rounded", ["CREATE TABLE t (a BIGINT)", "INSERT INTO t VALUES (9007199254740993)", "INSERT INTO t VALUES (0)"], {"ExactSum":{"table":"t","cols":["a"],"expr":{"Col":0},"group":None}},
 "SUM over integers returns Double(sum as f64): sums above 2^53 are silently rounded (SUM of {9007199254740993, 0} = 9007199254740992.0) — not the exact value, no error. Columnar path simd_aggregate.rs `AggregateOp::Sum => Ok(SqlValue::Double(sum as f64))`; same in every build profile."),
("exec.panic[vibesql-executor/src/insert/validation.rs|"+CB, ["CREATE TABLE t (c CHAR(4))"], "INSERT INTO t VALUES ('日本')",
 "INSERT of a multi-byte string into CHAR(n) panics: coerce_value truncates with the byte slice `s[..*length]` (insert/validation.rs) — '日本' (6 bytes) into CHAR(4) cuts '本' in half. Panics in every build profile. Fix: truncate on a char boundary (s.chars().take(n))."),
("exec.panic[vibesql-storage/src/table/normalization.rs|"+CB, ["CREATE TABLE t (c VARCHAR(3))"], "INSERT INTO t VALUES ('😀')",
 "INSERT/UPDATE of a multi-byte string longer (in bytes) than VARCHAR(n) panics: Table normalization truncates with `s[..*max_len]` (storage table/normalization.rs) — '😀' (4 bytes) into VARCHAR(3). Panics in every build profile. Fix: truncate on a char boundary."),
("abort_or_hang.exec.probe.view_named_like_table", ["CREATE TABLE t0 (a INTEGER)"], "CREATE VIEW t0 AS SELECT a FROM t0",
 "CREATE VIEW accepts the name of an existing table; afterwards every query on that name expands the view into itself without bound: the statement burns CPU for seconds and then overflows the stack (process abort; the check reports whichever of its 5 s CPU watchdog and the stack limit is reached first): CREATE TABLE t0(..); CREATE VIEW t0 AS SELECT a FROM t0; SELECT COUNT(*) FROM t0. Fix: reject a view whose name collides with a table (and guard view expansion depth)."),
("exec.panic[vibesql-executor/src/evaluator/operators/arithmetic/division.rs|internal error: entered unreachable code: Unexpected combina]", ["CREATE TABLE t1 (a INTEGER, b DOUBLE PRECISION)", "INSERT INTO t1 VALUES (8, 2.5)"], "SELECT b / 2 FROM t1",
 "dividing a stored DOUBLE PRECISION value by an integer hits `unreachable!(\"Unexpected combination of coerced type and result type\")` in Division::divide (coercion gives ApproximateNumeric, division_result_type gives a type with no match arm). Panics in every build profile on `SELECT b / 2 FROM t1`."),
("exec.panic[vibesql-executor/src/evaluator/functions/numeric/decimal.rs|Formatting argument out of range]", [], "SELECT FORMAT(1, 70000)",
 "FORMAT(number, decimals) passes the user-supplied decimals as a format precision: values above 65535 panic with 'Formatting argument out of range' (format_number, `{:.prec$}`); FORMAT(1, 70000). Every build profile. Fix: cap decimals (MySQL caps at 30) or return an error."),
("exec.panic[vibesql-executor/src/evaluator/functions/string/substring.rs|"+CB, [], "SELECT SUBSTRING('é', 2)",
 "SUBSTRING uses character positions as byte offsets (`s[start_idx..end_idx]`): SUBSTRING('é', 2) slices inside a multi-byte character and panics (every build profile). Fix: index by chars()."),
("hang.cpu.exec.trim_empty_removal", [], "SELECT TRIM(TRAILING '' FROM 'a')",
 "TRIM with an empty removal string never returns: eval_trim loops `while result.starts_with(\"\") && !result.is_empty() { result = &result[0..] }` (evaluator/combined/predicates.rs and evaluator/expressions/predicates.rs) — SELECT TRIM(TRAILING '' FROM 'a') spins forever at 100 % CPU in every build profile. Fix: return the string unchanged when the removal string is empty."),
("exec.panic[vibesql-executor/src/select/window/evaluation.rs|index out of bounds: the len is  but the index is]", ["CREATE TABLE t1 (a INTEGER)"], "SELECT NTILE(2) OVER (ORDER BY a) FROM t1",
 "NTILE(n) OVER (..) on an empty input panics: the argument is evaluated against `partition.rows[0]` (select/window/evaluation.rs) although the partition has no rows. Every build profile. Fix: return no rows for an empty partition before indexing."),
("exec.panic[crate:chrono-0.4.39/src/naive/date/mod.rs|`` overflowed]", [], "SELECT '2024-01-01' - INTERVAL '99999999999' DAY",
 "date +/- INTERVAL with a large day count panics inside chrono (`NaiveDate + TimeDelta` overflowed): date_add_subtract computes `date + Duration::days(amount)` unchecked (evaluator/functions/datetime/arithmetic.rs). Every build profile. Fix: date.checked_add_signed(..) -> error."),
("exec.panic[vibesql-executor/src/evaluator/casting.rs|"+CB, [], "SELECT CAST('😀x' AS VARCHAR(1))",
 "CAST(string AS VARCHAR(n)) truncates with the byte slice `string_val[..*len]` (evaluator/casting.rs): a multi-byte character at the cut panics — CAST('😀x' AS VARCHAR(1)). Every build profile. Fix: truncate on a char boundary."),
("exec.panic[vibesql-executor/src/evaluator/functions/string/search.rs|"+CB, [], "SELECT LOCATE('a', '日本語', 2)",
 "LOCATE(needle, haystack, start) uses the character position as a byte offset (`haystack[start_pos..]`, functions/string/search.rs): LOCATE('a', '日本語', 2) slices inside '日'. Every build profile."),
("exec.panic[vibesql-executor/src/evaluator/functions/string/search.rs|attempt to subtract with overflow]", ["CREATE TABLE t (a INTEGER)", "INSERT INTO t VALUES (-9223372036854775808)"], "SELECT LOCATE('a', 'abc', a) FROM t",
 "LOCATE start position: `(*s - 1)` is unchecked (functions/string/search.rs); a stored i64::MIN overflows."+OVF),
("exec.panic[crate:chrono-0.4.39/src/lib.rs|TimeDelta::days out of bounds]", [], "SELECT DATE_ADD('2024-01-01', 9223372036854775807, 'DAY')",
 "DATE_ADD/DATE_SUB with a huge amount panic inside chrono: `Duration::days(amount)` (and hours/minutes/seconds) is called with the unchecked user value (datetime/arithmetic.rs:461..510): DATE_ADD('2024-01-01', 9223372036854775807, 'DAY'). Every build profile. Fix: Duration::try_days(..) -> error."),
("exec.panic[rust:core/src/num/mod.rs|attempt to negate with overflow]", ["CREATE TABLE t (a BIGINT)", "INSERT INTO t VALUES (-9223372036854775808)"], "SELECT ABS(a) FROM t",
 "ABS of a stored i64::MIN: `n.abs()` (functions/numeric/basic.rs) overflows."+OVF+" (release returns i64::MIN, a negative 'absolute value'). Fix: checked_abs() -> error."),
("exec.panic[vibesql-executor/src/evaluator/functions/numeric/basic.rs|attempt to calculate the remainder with overflow]", ["CREATE TABLE t (a INTEGER)", "INSERT INTO t VALUES (-9223372036854775808)"], "SELECT MOD(a, -1) FROM t",
 "MOD(i64::MIN, -1): `a % b` is unchecked (functions/numeric/basic.rs mod_func). Rust checks MIN % -1 in every build profile, so this panics in release builds too ('attempt to calculate the remainder with overflow'). Fix: a.checked_rem(b) -> 0 or an error."),
("inexact.sum.float_wrong", ["CREATE TABLE t0 (a INTEGER, b INTEGER)", "INSERT INTO t0 VALUES (1, -9223372036854775807)", "INSERT INTO t0 VALUES (100, -3)"], {"ExactSum":{"table":"t0","cols":["a","b"],"expr":{"Sub":[{"Sub":[{"Col":0},{"Lit":4611686018427387904}]},{"Col":1}]},"group":None}},
 "SUM over an integer expression is accumulated in f64 on the columnar path: SUM((a - 4611686018427387904) - b) over rows whose terms are 2^62 and 103-2^62 returns 0.0 instead of 103 (every term and the sum fit in i64; no error, no NULL). Same root cause as the rounded SUM (KF-C24-6), here the result is off by 100 %."),
]
def norm(w):
    return w if isinstance(w,dict) else {"Sql":w}
kf=[]
env=dict(os.environ, VERIF_ROOT=root)
for n,(sig,setup,wild,what) in enumerate(F,1):
    case={"world":{"tables":[],"rows":[]},"indexes":[],"history":[],"wild":norm(wild),"feats":[],"excluded":0,"raw_setup":setup}
    rp=f"replays/C24/kf-{n}.json"
    rendered=";\n".join(setup+[wild if isinstance(wild,str) else json.dumps(wild)])
    json.dump({"property":"C24","signature":sig,"detail":what,"rendered":rendered,"case":case}, open(os.path.join(root,rp),'w'), ensure_ascii=False, indent=1)
    r=subprocess.run(['/verif/target/harness/verif/chk_total','C24','--replay',os.path.join(root,rp),'--strict'],capture_output=True,text=True,env=env)
    got=[l for l in r.stdout.splitlines() if 'FAIL signature=' in l]
    g=got[0].split('FAIL signature=')[1] if got else 'PASS?'
    print(('ok   ' if g==sig else 'DIFF ')+f"KF-C24-{n} {sig}" + ('' if g==sig else f"\n     got {g}"))
    kf.append({"id":f"KF-C24-{n}","property":"C24","status":"open","signature":sig,"what":what,"replay":rp})
path=os.path.join(root,'known_findings.json')
old=[e for e in json.load(open(path)) if e.get('property')!='C24']
json.dump(old+kf, open(path,'w'), indent=1, ensure_ascii=False)
