import json, subprocess, os
root='/tmp/vroot_total'
exe='/verif/target/harness/verif/chk_total'
measured=[("nested_parens",966,"SELECT ((((…1…))))","primary -> parse_parenthesized -> parse_expression -> or/and/not/comparison/additive/multiplicative/unary -> primary"),
("nested_check_parens",965,"CREATE TABLE t (a INT CHECK (((…a>0…))))","same cycle as nested_parens, entered from a column CHECK constraint"),
("nested_insert_value_parens",965,"INSERT INTO t VALUES (((…1…)))","same cycle as nested_parens, entered from INSERT VALUES"),
("unary_minus_chain",17437,"SELECT - - - … 1","parse_unary_expression calls itself for every sign"),
("unary_sign_mix",17434,"SELECT -+-+-+…1","parse_unary_expression calls itself for every sign"),
("minus_not_alternation",2357,"SELECT - NOT - NOT … 1","parse_unary_expression -> parse_primary_expression -> parse_special_form(NOT) -> parse_unary_expression"),
("nested_case_else",1147,"SELECT CASE WHEN 1=1 THEN 1 ELSE CASE … END END","parse_special_form(CASE) -> parse_expression (ELSE branch)"),
("nested_case_operand",1148,"SELECT CASE CASE … 1 WHEN 1 THEN 1 END WHEN 1 THEN 1 END","parse_special_form(CASE) -> parse_expression (operand)"),
("nested_case_when",1148,"SELECT CASE WHEN CASE WHEN … 1=1 THEN 1 END THEN 1 END","parse_special_form(CASE) -> parse_expression (WHEN condition)"),
("nested_function_call",957,"SELECT ABS(ABS(…1…))","parse_function_call -> argument list -> parse_expression"),
("nested_cast",1148,"SELECT CAST(CAST(…1… AS INTEGER) AS INTEGER)","parse_special_form(CAST) -> parse_expression"),
("nested_in_list",2275,"SELECT 1 IN (1 IN (… 1 …))","parse_comparison_expression(IN) -> parse_expression_list -> parse_expression"),
("nested_scalar_subquery",772,"SELECT (SELECT (SELECT … 1))","parse_parenthesized -> parse_select_statement -> select list -> parse_expression"),
("nested_derived_table",1678,"SELECT * FROM (SELECT * FROM (… t …) AS x) AS x","parse_table_reference -> parse_select_statement -> parse_from_clause"),
("nested_in_subquery",1576,"SELECT a FROM t WHERE a IN (SELECT a FROM t WHERE a IN (…))","parse_comparison_expression(IN) -> parse_select_statement -> WHERE -> parse_expression"),
("nested_exists",884,"SELECT a FROM t WHERE EXISTS (SELECT a FROM t WHERE EXISTS (…))","parse_special_form(EXISTS) -> parse_select_statement -> WHERE -> parse_expression"),
("nested_with",2100,"WITH x AS (WITH x AS (… SELECT 1 …) SELECT 1) SELECT 1","parse_cte_list -> parse_select_statement"),
("union_chain",3846,"SELECT 1 UNION SELECT 1 UNION SELECT 1 …","parse_select_statement_internal parses the right arm of a set operation by calling itself"),
("nested_table_parens",2973,"SELECT * FROM ((((…t…))))","parse_table_reference -> parse_from_clause -> parse_table_reference"),
("nested_join_parens",2971,"SELECT * FROM (((t JOIN t ON 1=1) JOIN t ON 1=1) …)","parse_table_reference -> parse_from_clause -> parse_table_reference"),
]
kf=[]
n=0
for (c,m,shape,path) in measured:
    n+=1
    case=json.loads(subprocess.check_output([exe,'dev-bomb-case',c]))
    sig=f"abort.stack_overflow.parse.{c}"
    rp=f"replays/C23/kf-{n}.json"
    nbytes=len(json.loads(subprocess.check_output([exe,'dev-bomb-case',c,str(m)]))['text'])
    what=(f"no recursion limit in Parser::parse_sql: {shape} overflows the 8 MiB main-thread stack from nesting depth {m} on "
          f"(verif profile, opt-level 2; input of {nbytes} bytes; debug builds overflow earlier, ~300 levels for parentheses) => SIGSEGV, the process aborts, nothing can be caught. "
          f"Recursion path: {path}. Fix: one depth counter in the recursive entry points (see handoff/proposed_fixes.patch).")
    json.dump({"property":"C23","signature":sig,"detail":what,"rendered":f"{shape} at depth {case['depth']}","case":case}, open(os.path.join(root,rp),'w'))
    kf.append({"id":f"KF-C23-{n}","property":"C23","status":"open","signature":sig,"what":what,"replay":rp})
n+=1
sig="parse.panic[vibesql-parser/src/parser/expressions/identifiers.rs|byte index  is not a char boundary; it is inside '' (bytes .]"
case={"src":"hand","text":"SELECT x'aéb'","kept_pct":0,"construct":None,"depth":0,"ops":[],"excluded":0}
rp=f"replays/C23/kf-{n}.json"
what=("Parser::parse_sql panics on a hex literal whose text contains a multi-byte character at an odd byte offset: x'aéb' "
      "(parse_identifier_expression checks string_val.len() % 2 on BYTES and then slices &string_val[i..i+2], which cuts 'é' in half -> "
      "'byte index is not a char boundary'). Same in every build profile. Any SQL text can carry it.")
json.dump({"property":"C23","signature":sig,"detail":what,"rendered":"SELECT x'aéb'","case":case}, open(os.path.join(root,rp),'w'), ensure_ascii=False)
kf.append({"id":f"KF-C23-{n}","property":"C23","status":"open","signature":sig,"what":what,"replay":rp})
# keep other properties' entries
path=os.path.join(root,'known_findings.json')
old=[e for e in json.load(open(path)) if e.get('property')!='C23']
json.dump(old+kf, open(path,'w'), indent=1, ensure_ascii=False)
print(len(kf),'C23 findings written')
