//! Stack-overflow classification for isolated workers.
//!
//! vcore's isolation turns a dead worker into the generic signature `abort[status..]`. The
//! totality checks need one signature per recursion path, so the worker installs its own
//! SIGSEGV handler (on an alternate stack). Before the engine is called the check "arms" the
//! handler with pre-rendered answer lines (JSON `(Verdict, Obs)`); when the main thread runs
//! into the end of its stack the handler
//!   1. writes the answer line for the current phase to stdout (async-signal-safe `write`),
//!   2. unblocks SIGSEGV and re-executes the worker binary (`execv`, stdin/stdout pipes are
//!      inherited), so the parent sees an ordinary answer followed by a fresh worker.
//! The same mechanism serves a CPU-time watchdog: `arm_with_watchdog` starts `ITIMER_PROF`
//! (counts CPU time of the process, so machine load cannot trigger it); when the budget is used
//! up SIGPROF arrives and the handler answers with the pre-rendered `hang.cpu..` verdict of the
//! current phase and re-executes the worker. vcore's wall-clock watchdog stays in place for
//! hangs that do not burn CPU.
//! A fault that is not inside the main thread's stack growth region, or an unarmed fault,
//! falls back to the default action (process dies => vcore reports `abort[..]`).
//!
//! The engine code still runs on the worker's MAIN thread with the stack the OS gave it
//! (RLIMIT_STACK, 8 MiB here): that is what a library user gets.

use std::ffi::CString;
use std::sync::atomic::{AtomicBool, AtomicUsize, Ordering};

const CAP: usize = 16 * 1024;
const NPHASE: usize = 4;

static mut LINES: [[u8; CAP]; NPHASE] = [[0; CAP]; NPHASE];
static LENS: [AtomicUsize; NPHASE] = [AtomicUsize::new(0), AtomicUsize::new(0), AtomicUsize::new(0), AtomicUsize::new(0)];
static mut HANG_LINES: [[u8; CAP]; NPHASE] = [[0; CAP]; NPHASE];
static HANG_LENS: [AtomicUsize; NPHASE] = [AtomicUsize::new(0), AtomicUsize::new(0), AtomicUsize::new(0), AtomicUsize::new(0)];
static ARMED: AtomicBool = AtomicBool::new(false);
static PHASE: AtomicUsize = AtomicUsize::new(0);
static SP0: AtomicUsize = AtomicUsize::new(0);
static STACK_LIMIT: AtomicUsize = AtomicUsize::new(8 << 20);
static INSTALLED: AtomicBool = AtomicBool::new(false);
/// CPU clock of the main thread (the thread that runs the engine code) and its reading at `arm`
static MAIN_CLOCK: AtomicUsize = AtomicUsize::new(0);
static MAIN_CPU0_MS: AtomicUsize = AtomicUsize::new(0);
static BUDGET_MS: AtomicUsize = AtomicUsize::new(0);

static mut EXE: *const libc::c_char = std::ptr::null();
static mut ARGV: [*const libc::c_char; 4] = [std::ptr::null(); 4];

/// Size of the main thread's stack as the OS limits it (bytes).
pub fn stack_limit() -> usize {
    STACK_LIMIT.load(Ordering::Relaxed)
}

/// Install the handler. `worker_id` is the property id the re-executed worker serves.
pub fn install(worker_id: &str) {
    if INSTALLED.swap(true, Ordering::SeqCst) {
        return;
    }
    unsafe {
        let mut rl: libc::rlimit = std::mem::zeroed();
        if libc::getrlimit(libc::RLIMIT_STACK, &mut rl) == 0 && rl.rlim_cur != libc::RLIM_INFINITY {
            STACK_LIMIT.store(rl.rlim_cur as usize, Ordering::Relaxed);
        }
        let mut cid: libc::clockid_t = 0;
        if libc::pthread_getcpuclockid(libc::pthread_self(), &mut cid) == 0 {
            MAIN_CLOCK.store(cid as usize, Ordering::Relaxed);
        }
        let exe = std::env::current_exe().ok().and_then(|p| CString::new(p.to_string_lossy().as_bytes()).ok());
        if let Some(exe) = exe {
            let exe: &'static CString = Box::leak(Box::new(exe));
            let a1: &'static CString = Box::leak(Box::new(CString::new("--worker").unwrap()));
            let a2: &'static CString = Box::leak(Box::new(CString::new(worker_id).unwrap()));
            EXE = exe.as_ptr();
            ARGV = [exe.as_ptr(), a1.as_ptr(), a2.as_ptr(), std::ptr::null()];
        }
        // alternate stack for the handler
        let size = 256 * 1024;
        let mem: &'static mut [u8] = Box::leak(vec![0u8; size].into_boxed_slice());
        let ss = libc::stack_t { ss_sp: mem.as_mut_ptr() as *mut libc::c_void, ss_flags: 0, ss_size: size };
        libc::sigaltstack(&ss, std::ptr::null_mut());
        let mut sa: libc::sigaction = std::mem::zeroed();
        sa.sa_sigaction = handler as *const () as usize;
        sa.sa_flags = libc::SA_SIGINFO | libc::SA_ONSTACK;
        libc::sigemptyset(&mut sa.sa_mask);
        libc::sigaction(libc::SIGSEGV, &sa, std::ptr::null_mut());
        libc::sigaction(libc::SIGBUS, &sa, std::ptr::null_mut());
        let mut sp: libc::sigaction = std::mem::zeroed();
        sp.sa_sigaction = prof_handler as *const () as usize;
        sp.sa_flags = libc::SA_SIGINFO | libc::SA_ONSTACK;
        libc::sigemptyset(&mut sp.sa_mask);
        libc::sigaction(libc::SIGPROF, &sp, std::ptr::null_mut());
    }
}

/// CPU time consumed by the main thread so far (ms); async-signal-safe
pub fn main_thread_cpu_ms() -> u64 {
    let mut ts = libc::timespec { tv_sec: 0, tv_nsec: 0 };
    let cid = MAIN_CLOCK.load(Ordering::Relaxed) as libc::clockid_t;
    unsafe {
        if cid == 0 || libc::clock_gettime(cid, &mut ts) != 0 {
            libc::clock_gettime(libc::CLOCK_PROCESS_CPUTIME_ID, &mut ts);
        }
    }
    ts.tv_sec as u64 * 1000 + ts.tv_nsec as u64 / 1_000_000
}

fn set_prof_timer(ms: u64) {
    let it = libc::itimerval {
        it_interval: libc::timeval { tv_sec: 0, tv_usec: 0 },
        it_value: libc::timeval { tv_sec: (ms / 1000) as libc::time_t, tv_usec: ((ms % 1000) * 1000) as libc::suseconds_t },
    };
    unsafe {
        libc::setitimer(libc::ITIMER_PROF, &it, std::ptr::null_mut());
    }
}

/// `arm` plus a CPU-time budget: `hang_lines[p]` is the answer when the process has consumed
/// `cpu_budget_ms` of CPU time since this call while phase p is current.
pub fn arm_with_watchdog(lines: &[String], hang_lines: &[String], cpu_budget_ms: u64) {
    for (i, l) in hang_lines.iter().enumerate().take(NPHASE) {
        let b = l.as_bytes();
        let n = b.len().min(CAP - 1);
        unsafe {
            let dst = std::ptr::addr_of_mut!(HANG_LINES[i]) as *mut u8;
            std::ptr::copy_nonoverlapping(b.as_ptr(), dst, n);
            *dst.add(n) = b'\n';
        }
        HANG_LENS[i].store(n + 1, Ordering::SeqCst);
    }
    for l in HANG_LENS.iter().skip(hang_lines.len()) {
        l.store(0, Ordering::SeqCst);
    }
    arm(lines);
    if installed() {
        MAIN_CPU0_MS.store(main_thread_cpu_ms() as usize, Ordering::SeqCst);
        BUDGET_MS.store(cpu_budget_ms as usize, Ordering::SeqCst);
        set_prof_timer(cpu_budget_ms);
    }
}

pub fn installed() -> bool {
    INSTALLED.load(Ordering::Relaxed)
}

/// Arm the handler: `lines[p]` is the complete answer (one JSON line, newline appended here)
/// to give when the stack overflows while `set_phase(p)` is current. Call from the frame that
/// is about to call into the engine (its stack position is the reference point).
#[inline(never)]
pub fn arm(lines: &[String]) {
    let marker = 0u8;
    SP0.store(&marker as *const u8 as usize, Ordering::SeqCst);
    for (i, l) in lines.iter().enumerate().take(NPHASE) {
        let b = l.as_bytes();
        let n = b.len().min(CAP - 1);
        unsafe {
            let dst = std::ptr::addr_of_mut!(LINES[i]) as *mut u8;
            std::ptr::copy_nonoverlapping(b.as_ptr(), dst, n);
            *dst.add(n) = b'\n';
        }
        LENS[i].store(n + 1, Ordering::SeqCst);
    }
    for l in LENS.iter().skip(lines.len()) {
        l.store(0, Ordering::SeqCst);
    }
    PHASE.store(0, Ordering::SeqCst);
    ARMED.store(true, Ordering::SeqCst);
}

pub fn set_phase(p: usize) {
    PHASE.store(p.min(NPHASE - 1), Ordering::SeqCst);
}

pub fn disarm() {
    if installed() {
        set_prof_timer(0);
    }
    ARMED.store(false, Ordering::SeqCst);
}

unsafe fn answer_and_reexec(src: *const u8, n: usize) -> ! {
    // no CPU timer may be pending when the new image starts (default action of SIGPROF kills)
    let zero = libc::itimerval { it_interval: libc::timeval { tv_sec: 0, tv_usec: 0 }, it_value: libc::timeval { tv_sec: 0, tv_usec: 0 } };
    libc::setitimer(libc::ITIMER_PROF, &zero, std::ptr::null_mut());
    let mut off = 0usize;
    while off < n {
        let w = libc::write(1, src.add(off) as *const libc::c_void, n - off);
        if w <= 0 {
            libc::_exit(97);
        }
        off += w as usize;
    }
    let mut set: libc::sigset_t = std::mem::zeroed();
    libc::sigemptyset(&mut set);
    libc::sigaddset(&mut set, libc::SIGSEGV);
    libc::sigaddset(&mut set, libc::SIGBUS);
    libc::sigaddset(&mut set, libc::SIGPROF);
    libc::sigprocmask(libc::SIG_UNBLOCK, &set, std::ptr::null_mut());
    libc::execv(EXE, std::ptr::addr_of!(ARGV) as *const *const libc::c_char);
    libc::_exit(98);
}

extern "C" fn prof_handler(_sig: libc::c_int, _info: *mut libc::siginfo_t, _ctx: *mut libc::c_void) {
    unsafe {
        let p = PHASE.load(Ordering::SeqCst).min(NPHASE - 1);
        let n = HANG_LENS[p].load(Ordering::SeqCst);
        if !ARMED.load(Ordering::SeqCst) || n == 0 || EXE.is_null() {
            return;
        }
        // The timer counts CPU time of the whole process (helper threads included). The verdict
        // is about the thread that runs the statement: it must have burnt the budget itself.
        let used = main_thread_cpu_ms().saturating_sub(MAIN_CPU0_MS.load(Ordering::SeqCst) as u64);
        let budget = BUDGET_MS.load(Ordering::SeqCst) as u64;
        if used < budget {
            set_prof_timer((budget - used).max(200));
            return;
        }
        answer_and_reexec(std::ptr::addr_of!(HANG_LINES[p]) as *const u8, n);
    }
}

extern "C" fn handler(sig: libc::c_int, info: *mut libc::siginfo_t, _ctx: *mut libc::c_void) {
    unsafe {
        let addr = (*info).si_addr() as usize;
        let sp0 = SP0.load(Ordering::SeqCst);
        let limit = STACK_LIMIT.load(Ordering::Relaxed);
        // the main thread's stack grows down from above sp0; the kernel refuses to grow it past
        // RLIMIT_STACK, so the faulting address lies below sp0 within the limit (+ slack)
        let in_stack = addr <= sp0 && sp0 - addr <= limit + (1 << 20);
        let p = PHASE.load(Ordering::SeqCst);
        let n = LENS[p.min(NPHASE - 1)].load(Ordering::SeqCst);
        if !ARMED.load(Ordering::SeqCst) || !in_stack || n == 0 || EXE.is_null() {
            // not ours: default action on return (the instruction faults again)
            let mut sa: libc::sigaction = std::mem::zeroed();
            sa.sa_sigaction = libc::SIG_DFL;
            libc::sigemptyset(&mut sa.sa_mask);
            libc::sigaction(sig, &sa, std::ptr::null_mut());
            return;
        }
        answer_and_reexec(std::ptr::addr_of!(LINES[p.min(NPHASE - 1)]) as *const u8, n);
    }
}
