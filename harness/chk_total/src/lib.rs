//! chk_total — checks for the totality properties
//!   C23: the SQL parser is total (never panics, overflows the stack or loops forever)
//!   C24: statement execution never panics, never silently wraps numbers, leaves the database usable
//!
//! Run through the `chk_total` binary (same command line as `vcheck`).

pub mod c23;
pub mod c24;
pub mod fuzzbridge;
pub mod segv;
pub mod sqltext;

pub use c23::C23;
pub use c24::C24;
