//! chk_total — checks for the totality properties
//!   C23: the SQL parser is total (never panics, overflows the stack or loops forever)
//!   C24: statement execution never panics, never silently wraps numbers, leaves the database usable
//!
//! Run through the `chk_total` binary (same command line as `vcheck`).

pub mod c23;
pub mod c24;
pub mod fuzzbridge;
pub mod segv;
pub mod sqltext;

pub use c23::C23;
pub use c24::C24;

/// Append every failure that is not an open known finding to `$VERIF_ROOT/evidence/<ID>.failures.log`
/// (signature, tab, case JSON). A failure that does not reproduce after shrinking leaves no other
/// trace (the runner only says "minimal case did not fail again").
pub fn log_unknown_failure<C: serde::Serialize>(id: &str, v: &vcore::Verdict, case: &C) {
    if let vcore::Verdict::Fail { sig, .. } = v {
        if vcore::kf::is_open_global(sig) {
            return;
        }
        let root = std::env::var("VERIF_ROOT").unwrap_or_else(|_| "/verif".into());
        let path = std::path::Path::new(&root).join("evidence").join(format!("{}.failures.log", id));
        use std::io::Write;
        if let Ok(mut fh) = std::fs::OpenOptions::new().create(true).append(true).open(path) {
            let js = serde_json::to_string(case).unwrap_or_default();
            let _ = writeln!(fh, "{}\t{}", sig, vcore::runner::truncate(&js, 20000));
        }
    }
}
