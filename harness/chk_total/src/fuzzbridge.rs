//! Bridge between the libFuzzer targets in /verif/fuzz and the proptest-side checks.
//!
//! * the fuzz targets call `parse_one` / `exec_one`: same oracle as C23 / C24, failures whose
//!   signature is in the allowlist (`VERIF_FUZZ_ALLOW` = file with one open known-finding
//!   signature per line) are tolerated in-target, anything else aborts => crash artifact;
//! * `artifact_to_case_*` turns an artifact (raw bytes) into the typed case of the check, so a
//!   crash found by the fuzzer is replayed, classified and shrunk by the normal machinery;
//! * `run_fuzzer` is what the thorough tier calls from `Check::prepare`.

use crate::c23;
use crate::c24;
use crate::sqltext::{shape, MAX_INPUT};
use std::path::{Path, PathBuf};
use vcore::runner::{Args, GenCfg, Tier};
use vcore::{Check, Obs, Tape, Verdict};

pub fn load_allow() -> Vec<String> {
    std::env::var("VERIF_FUZZ_ALLOW").ok().and_then(|p| std::fs::read_to_string(p).ok()).map(|t| t.lines().map(|l| l.trim().to_string()).filter(|l| !l.is_empty()).collect()).unwrap_or_default()
}

fn cfg_from_allow(allow: &[String]) -> GenCfg {
    GenCfg { tier: Tier::Thorough, avoid_known: true, worker: 1, known_open: allow.to_vec() }
}

// ---- C23 -----------------------------------------------------------------------------------

pub fn artifact_to_case_c23(data: &[u8]) -> c23::Case {
    c23::Case::fuzz(String::from_utf8_lossy(data).into_owned())
}

/// Inputs the in-process fuzz target must not execute while stack-overflow findings are open
/// (an overflow would kill the fuzzer itself): a third of the measured thresholds.
pub fn too_deep_for_in_process(text: &str) -> bool {
    let sh = shape(text);
    sh.paren_depth > 250 || sh.case_depth > 300 || sh.sign_run > 4000 || sh.not_run > 4000 || sh.union_count > 1000 || sh.select_depth > 200 || sh.join_count > 1500 || sh.binop_count > 20000
}

/// One fuzz input for the `parse` target. Err(signature) = not tolerated.
pub fn parse_one(data: &[u8], allow: &[String]) -> Result<(), String> {
    let case = artifact_to_case_c23(data);
    if case.text.len() > MAX_INPUT {
        return Ok(());
    }
    let overflow_open = allow.iter().any(|s| s.starts_with("abort.stack_overflow."));
    if overflow_open && too_deep_for_in_process(&case.text) {
        return Ok(());
    }
    if allow.iter().any(|s| s == c23::HEX_LITERAL_SIG) && c23::defuse_hex_literal(&case.text).is_some() {
        return Ok(());
    }
    let mut obs = Obs::default();
    match c23::C23.run(&case, &mut obs) {
        Verdict::Fail { sig, .. } if !allow.iter().any(|s| *s == sig) => Err(sig),
        _ => Ok(()),
    }
}

// ---- C24 -----------------------------------------------------------------------------------

fn words(data: &[u8]) -> Vec<u32> {
    data.chunks(4)
        .map(|c| {
            let mut b = [0u8; 4];
            b[..c.len()].copy_from_slice(c);
            u32::from_le_bytes(b)
        })
        .collect()
}

/// choice words -> C24 case over the fixed schema
pub fn case_from_words_c24(w: &[u32], allow: &[String]) -> c24::Case {
    let mut t = Tape::new(w);
    c24::C24.build_fixed(&mut t, &cfg_from_allow(allow))
}

/// bytes -> little-endian u32 words (what `u32::arbitrary` reads) -> C24 case
pub fn artifact_to_case_c24(data: &[u8], allow: &[String]) -> c24::Case {
    case_from_words_c24(&words(data), allow)
}

pub fn exec_case(case: &c24::Case, allow: &[String]) -> Result<(), String> {
    let mut obs = Obs::default();
    match c24::C24.run_case(case, &mut obs) {
        Verdict::Fail { sig, .. } if !allow.iter().any(|s| *s == sig) => Err(sig),
        _ => Ok(()),
    }
}

// ---- conversion CLI ------------------------------------------------------------------------

pub fn artifact_to_replay(id: &str, artifact: &Path, out: &Path, allow: &[String]) -> Result<(), String> {
    let data = std::fs::read(artifact).map_err(|e| format!("{}: {}", artifact.display(), e))?;
    let js = match id {
        "C23" => serde_json::to_string_pretty(&artifact_to_case_c23(&data)),
        "C24" => serde_json::to_string_pretty(&artifact_to_case_c24(&data, allow)),
        other => return Err(format!("unknown property {}", other)),
    }
    .map_err(|e| e.to_string())?;
    std::fs::write(out, js).map_err(|e| e.to_string())
}

pub fn artifact_to_replay_cli(a: &[String]) -> i32 {
    if a.len() != 3 {
        eprintln!("usage: chk_total fuzz-to-replay <C23|C24> <artifact> <out.json>   (VERIF_FUZZ_ALLOW=<allowlist> as for the fuzz run)");
        return 2;
    }
    match artifact_to_replay(&a[0], Path::new(&a[1]), Path::new(&a[2]), &load_allow()) {
        Ok(()) => 0,
        Err(e) => {
            eprintln!("{}", e);
            2
        }
    }
}

// ---- thorough tier: bounded fuzzer run ---------------------------------------------------------

static SUMMARY: std::sync::Mutex<Option<serde_json::Value>> = std::sync::Mutex::new(None);

/// `Check::prepare` of the thorough tier: run the fuzzer, remember the summary for the evidence.
pub fn prepare_thorough(plan: &FuzzPlan, args: &Args) -> Result<(), String> {
    if args.tier != Tier::Thorough || args.replay.is_some() || args.cases_override.is_some() && std::env::var("VERIF_FORCE_FUZZ").is_err() {
        return Ok(());
    }
    let v = run_fuzzer(plan, args)?;
    *SUMMARY.lock().unwrap() = Some(v);
    Ok(())
}

pub fn coverage() -> serde_json::Map<String, serde_json::Value> {
    let mut m = serde_json::Map::new();
    if let Some(v) = SUMMARY.lock().unwrap().clone() {
        m.insert("libfuzzer".into(), v);
    }
    m
}

pub struct FuzzPlan {
    pub id: &'static str,
    pub target: &'static str,
    pub runs: u64,
    pub max_total_time_s: u64,
    pub timeout_s: u64,
}

fn fuzz_root() -> PathBuf {
    std::env::var("VERIF_FUZZ_DIR").map(PathBuf::from).unwrap_or_else(|_| PathBuf::from("/verif/fuzz/fuzz"))
}

fn copy_dir(from: &Path, to: &Path) -> usize {
    let mut n = 0;
    if let Ok(rd) = std::fs::read_dir(from) {
        for e in rd.flatten() {
            if e.path().is_file() && std::fs::copy(e.path(), to.join(e.file_name())).is_ok() {
                n += 1;
            }
        }
    }
    n
}

/// Build (incrementally) and run one libFuzzer target for a bounded number of runs from a fresh
/// temporary corpus seeded with the committed one; convert every artifact into a replay file
/// under `$VERIF_ROOT/replays/<ID>/fuzz-<name>.json` (picked up by stage 1 of the runner).
/// Returns a summary for the evidence file. Err = the fuzzer could not be run (exit 2).
pub fn run_fuzzer(plan: &FuzzPlan, args: &Args) -> Result<serde_json::Value, String> {
    if std::env::var("VERIF_NO_FUZZ").is_ok() {
        return Ok(serde_json::json!({"skipped": "VERIF_NO_FUZZ set"}));
    }
    let root = fuzz_root();
    // open known findings of this property => allowlist
    let kfs = vcore::kf::KnownFindings::load(&args.root.join("known_findings.json"), plan.id);
    let allow: Vec<String> = if args.strict { vec![] } else { kfs.open_signatures() };
    let work = std::env::temp_dir().join(format!("verif_fuzz_{}_{}_{}", plan.id, args.seed, std::process::id()));
    let _ = std::fs::remove_dir_all(&work);
    let corpus = work.join("corpus");
    let arts = work.join("artifacts");
    std::fs::create_dir_all(&corpus).map_err(|e| e.to_string())?;
    std::fs::create_dir_all(&arts).map_err(|e| e.to_string())?;
    let allow_file = work.join("allow.txt");
    std::fs::write(&allow_file, allow.join("\n")).map_err(|e| e.to_string())?;
    let seeded = copy_dir(&root.join("corpus").join(plan.target), &corpus);
    // build
    let build = std::process::Command::new("cargo")
        .args(["+nightly", "fuzz", "build", "-s", "none", "-a", plan.target])
        .current_dir(root.parent().unwrap_or(&root))
        .env("CARGO_NET_OFFLINE", "true")
        .env_remove("RUSTFLAGS")
        .output()
        .map_err(|e| format!("cannot start cargo fuzz build: {}", e))?;
    if !build.status.success() {
        return Err(format!("cargo +nightly fuzz build {} failed: {}", plan.target, vcore::runner::truncate(&String::from_utf8_lossy(&build.stderr), 1500)));
    }
    let bin = root.join("target/x86_64-unknown-linux-gnu/release").join(plan.target);
    if !bin.exists() {
        return Err(format!("fuzz binary {} not found after build", bin.display()));
    }
    let dict = root.join("dict").join(format!("{}.dict", plan.target));
    let mut cmd = std::process::Command::new(&bin);
    cmd.arg(&corpus)
        .arg(format!("-runs={}", plan.runs))
        .arg(format!("-seed={}", (args.seed % (u32::MAX as u64)).max(1)))
        .arg("-len_control=0")
        .arg("-max_len=65536")
        .arg(format!("-max_total_time={}", plan.max_total_time_s))
        .arg(format!("-timeout={}", plan.timeout_s))
        .arg("-rss_limit_mb=4096")
        .arg("-print_final_stats=1")
        .arg(format!("-artifact_prefix={}/", arts.display()))
        .env("VERIF_FUZZ_ALLOW", &allow_file)
        .env("VERIF_ROOT", &args.root);
    if dict.exists() {
        cmd.arg(format!("-dict={}", dict.display()));
    }
    let start = std::time::Instant::now();
    let out = cmd.output().map_err(|e| format!("cannot run {}: {}", bin.display(), e))?;
    let stderr = String::from_utf8_lossy(&out.stderr).into_owned();
    let stat = |key: &str| -> u64 { stderr.lines().filter_map(|l| l.strip_prefix(key)).filter_map(|v| v.trim().parse().ok()).next_back().unwrap_or(0) };
    let execs = stat("stat::number_of_executed_units:");
    // artifacts => replay files
    let dir = args.root.join("replays").join(plan.id);
    let _ = std::fs::create_dir_all(&dir);
    let mut converted = Vec::new();
    if let Ok(rd) = std::fs::read_dir(&arts) {
        for e in rd.flatten() {
            let name = e.file_name().to_string_lossy().into_owned();
            let outp = dir.join(format!("fuzz-{}.json", name));
            artifact_to_replay(plan.id, &e.path(), &outp, &allow)?;
            converted.push(outp.display().to_string());
        }
    }
    let summary = serde_json::json!({
        "target": plan.target,
        "runs_requested": plan.runs,
        "executed_units": execs,
        "seed_corpus_files": seeded,
        "wall_s": start.elapsed().as_secs_f64(),
        "exit_status": format!("{:?}", out.status),
        "allowlisted_signatures": allow.len(),
        "artifacts_converted_to_replays": converted,
        "tail": vcore::runner::truncate(&stderr.lines().rev().take(12).collect::<Vec<_>>().into_iter().rev().collect::<Vec<_>>().join("\n"), 1500),
    });
    if !out.status.success() && converted.is_empty() {
        // the fuzzer died without leaving an artifact: cannot be turned into a replay
        return Err(format!("fuzz target {} ended with {:?} and no artifact; stderr tail: {}", plan.target, out.status, vcore::runner::truncate(&stderr, 1500)));
    }
    let _ = std::fs::remove_dir_all(&work);
    Ok(summary)
}
