//! stub
pub fn artifact_to_replay_cli(_a: &[String]) -> i32 { 2 }
