//! C23 — the SQL parser is total: `Parser::parse_sql` returns Ok or Err for every input text of
//! at most 64 KiB; it never panics, never overflows the (8 MiB main-thread) stack, never hangs.

use crate::segv;
use crate::sqltext::*;
use serde::{Deserialize, Serialize};
use vcore::runner::{catch, panic_sig};
use vcore::sql::gen::*;
use vcore::sql::ir::*;
use vcore::val::V;
use vcore::{Check, GenCfg, Obs, Tape, Tier, Verdict};

pub struct C23;

#[derive(Clone, Debug, Serialize, Deserialize)]
pub struct Case {
    /// generator class: valid | mutated | lexer | dict | bomb | prefix | pool | fuzz | hand
    pub src: String,
    /// the input handed to `Parser::parse_sql`
    pub text: String,
    /// share (percent) of the input's tokens that stem from a valid statement (0 = not applicable)
    #[serde(default)]
    pub kept_pct: u32,
    /// taught nesting construct and its depth (bombs only)
    #[serde(default)]
    pub construct: Option<String>,
    #[serde(default)]
    pub depth: u32,
    /// mutation operators applied (information only)
    #[serde(default)]
    pub ops: Vec<String>,
    /// generator restrictions applied because of open known findings
    #[serde(default)]
    pub excluded: u32,
}

impl Case {
    pub fn hand(text: &str) -> Case {
        Case { src: "hand".into(), text: text.to_string(), kept_pct: 0, construct: None, depth: 0, ops: vec![], excluded: 0 }
    }
    pub fn fuzz(text: String) -> Case {
        Case { src: "fuzz".into(), text, kept_pct: 0, construct: None, depth: 0, ops: vec![], excluded: 0 }
    }
    pub fn bomb(construct: &str, d: usize) -> Case {
        Case { src: "bomb".into(), text: bomb(construct, d), kept_pct: 0, construct: Some(construct.to_string()), depth: d as u32, ops: vec![], excluded: 0 }
    }
}

/// Line-number-free panic signature; quoted fragments of the message (they echo the input) and
/// non-ASCII characters are dropped before vcore's `panic_sig` removes the digits.
pub fn psig(desc: &str) -> String {
    let (loc, msg) = desc.split_once(" :: ").unwrap_or((desc, ""));
    // std / core locations carry the toolchain hash: /rustc/<hash>/library/core/.. => rust:core/..
    let loc_owned;
    let loc = if let Some(i) = loc.find("/library/") {
        loc_owned = format!("rust:{}", &loc[i + "/library/".len()..]);
        loc_owned.as_str()
    } else if let Some(i) = loc.find("/registry/src/") {
        // dependency from the cargo registry: .../registry/src/<index>/chrono-0.4.39/src/.. => crate:chrono-0.4.39/src/..
        let rest = &loc[i + "/registry/src/".len()..];
        loc_owned = format!("crate:{}", rest.split_once('/').map(|x| x.1).unwrap_or(rest));
        loc_owned.as_str()
    } else {
        loc
    };
    let mut out = String::new();
    let mut quote: Option<char> = None;
    for c in msg.chars() {
        match quote {
            Some(q) => {
                if c == q {
                    quote = None;
                }
            }
            None => {
                if c == '\'' || c == '`' || c == '"' {
                    quote = Some(c);
                    out.push(c);
                    out.push(c);
                } else if c.is_ascii() && !c.is_ascii_control() {
                    out.push(c);
                }
            }
        }
    }
    let out = out.replace("start byte index", "byte index").replace("end byte index", "byte index");
    panic_sig(&format!("{} :: {}", loc, out))
}

pub const HEX_LITERAL_SIG: &str = "parse.panic[vibesql-parser/src/parser/expressions/identifiers.rs|byte index  is not a char boundary; it is inside '' (bytes .]";

/// Trigger of HEX_LITERAL_SIG: identifier x/X (bare, quoted or backticked) directly followed by a
/// string literal that contains a multi-byte character. Returns the defused text if present.
pub fn defuse_hex_literal(text: &str) -> Option<String> {
    let mut toks = tokenize(text);
    let mut hit = false;
    for i in 1..toks.len() {
        let id = toks[i - 1].text.trim_matches(|c| c == '"' || c == '`');
        if id.eq_ignore_ascii_case("x") && toks[i].text.starts_with('\'') && !toks[i].text.is_ascii() {
            toks[i].text = toks[i].text.chars().filter(|c| c.is_ascii()).collect();
            hit = true;
        }
    }
    if hit {
        Some(render(&toks))
    } else {
        None
    }
}

/// CPU-time budget for one input (in-worker watchdog, independent of machine load)
pub const CPU_BUDGET_MS: u64 = 10_000;

pub fn overflow_sig(phase: &str, construct: &str) -> String {
    format!("abort.stack_overflow.{}.{}", phase, construct)
}

/// Smallest overflowing depth of each taught construct, measured with `chk_total dev-thresholds`
/// on the `verif` profile with an 8 MiB main-thread stack (2026-09-22). Only used to steer the
/// generator while the corresponding finding is open; the oracle does not depend on it.
pub const MEASURED_OVERFLOW: &[(&str, usize)] = &[
    ("nested_parens", 966),
    ("nested_check_parens", 965),
    ("nested_insert_value_parens", 965),
    ("unary_minus_chain", 17437),
    ("unary_sign_mix", 17434),
    ("minus_not_alternation", 2357),
    ("nested_case_else", 1147),
    ("nested_case_operand", 1148),
    ("nested_case_when", 1148),
    ("nested_function_call", 957),
    ("nested_cast", 1148),
    ("nested_in_list", 2275),
    ("nested_scalar_subquery", 772),
    ("nested_derived_table", 1678),
    ("nested_in_subquery", 1576),
    ("nested_exists", 884),
    ("nested_with", 2100),
    ("union_chain", 3846),
    ("nested_table_parens", 2973),
    ("nested_join_parens", 2971),
];

fn measured(construct: &str) -> Option<usize> {
    MEASURED_OVERFLOW.iter().find(|x| x.0 == construct).map(|x| x.1)
}

/// Depth that is safe (55 % of the measured threshold) while the overflow finding is open.
pub fn safe_depth(construct: &str) -> usize {
    measured(construct).map(|m| m * 55 / 100).unwrap_or(usize::MAX)
}

/// Depth that re-confirms an open overflow finding (1.5 x the measured threshold).
pub fn confirm_depth(construct: &str) -> Option<usize> {
    measured(construct).map(|m| (m * 3 / 2).min(max_fit(construct)))
}

// -------------------------------------------------------------------------------------------
// generator

fn gen_valid(t: &mut Tape) -> String {
    // statements rendered from the typed grammar of vcore::sql over a small world
    let world = gen_world(t, &WorldCfg { profile: Profile::IntStrFloat, max_rows: 3, ..Default::default() });
    let g = Gen::new(&world, ExprOpts { like: true, subqueries: true, float: true, pred_subqueries: true, ..Default::default() });
    let ti = t.below(world.tables.len());
    let tab = &world.tables[ti];
    let scope = g.table_scope(ti, None);
    match t.weighted(&[6, 2, 2, 2, 2, 1, 1, 1, 4]) {
        0 => g.gen_query(t, &QueryOpts::default()).0.render(Dialect::Vibe),
        1 => {
            let n = t.range(1, 3) as usize;
            let rows: Vec<Vec<V>> = (0..n).map(|_| tab.cols.iter().map(|c| gen_cell(t, &c.ty, 2)).collect()).collect();
            insert_sql(&tab.name, None, &rows, Dialect::Vibe)
        }
        2 => {
            let c = &tab.cols[t.below(tab.cols.len())];
            let e = g.expr(t, &scope, c.ty.ty(), 2);
            format!("UPDATE {} SET {} = {} WHERE {}", tab.name, c.name, e.render(Dialect::Vibe), g.pred(t, &scope, 2).render(Dialect::Vibe))
        }
        3 => format!("DELETE FROM {} WHERE {}", tab.name, g.pred(t, &scope, 2).render(Dialect::Vibe)),
        4 => {
            let mut def = tab.clone();
            def.name = format!("n{}", t.below(5));
            if t.chance(1, 2) {
                def.pk = vec![0];
            }
            if def.cols.len() > 1 && t.chance(1, 3) {
                def.uniques = vec![vec![1]];
            }
            if t.chance(1, 3) {
                def.checks = vec![g.pred(t, &scope, 1)];
            }
            if t.chance(1, 4) {
                def.fks = vec![FkDef { cols: vec![0], parent: tab.name.clone(), parent_cols: vec![tab.cols[0].name.clone()], on_delete: *t.pick(&[FkAction::NoAction, FkAction::Cascade, FkAction::SetNull]), on_update: FkAction::NoAction }];
            }
            def.create_sql(Dialect::Vibe)
        }
        5 => format!("CREATE {}INDEX ix{} ON {} ({})", if t.chance(1, 3) { "UNIQUE " } else { "" }, t.below(4), tab.name, tab.cols[t.below(tab.cols.len())].name),
        6 => format!("CREATE VIEW v{} AS {}", t.below(4), g.gen_query(t, &QueryOpts { order_limit: false, ..Default::default() }).0.render(Dialect::Vibe)),
        7 => format!("ALTER TABLE {} ADD COLUMN z{} {}", tab.name, t.below(4), t.pick(&["INTEGER", "VARCHAR(10)", "DOUBLE PRECISION", "DATE"])),
        _ => t.pick(POOL).to_string(),
    }
}

fn pk<'a>(t: &mut Tape, xs: &[&'a str]) -> &'a str {
    xs[t.below(xs.len())]
}

fn dict_token(t: &mut Tape) -> String {
    match t.weighted(&[6, 3, 4, 2, 2, 1]) {
        0 => t.pick(KEYWORDS).to_string(),
        1 => t.pick(IDENT_WORDS).to_string(),
        2 => t.pick(PUNCT).to_string(),
        3 => t.pick(NUMBERS).to_string(),
        4 => t.pick(STRINGS).to_string(),
        _ => t.pick(UNICODE).to_string(),
    }
}

fn huge_literal(t: &mut Tape) -> String {
    let n = *t.pick(&[40usize, 400, 5000, 40000]);
    match t.below(7) {
        0 => "9".repeat(n),
        1 => format!("0.{}", "9".repeat(n)),
        2 => format!("1e{}", "9".repeat(n.min(400))),
        3 => format!("'{}'", "a".repeat(n)),
        4 => format!("'{}'", "é".repeat(n / 2)),
        5 => format!("\"{}\"", "q".repeat(n)),
        _ => format!("{}{}", "x".repeat(n), "1"),
    }
}

fn insert_char_at(s: &str, char_idx: usize, ins: &str) -> String {
    let mut out = String::with_capacity(s.len() + ins.len());
    let mut done = false;
    for (i, c) in s.chars().enumerate() {
        if i == char_idx {
            out.push_str(ins);
            done = true;
        }
        out.push(c);
    }
    if !done {
        out.push_str(ins);
    }
    out
}

/// token-level mutation of one or two valid statements
fn mutate(t: &mut Tape, base: &str, other: &str, ops: &mut Vec<String>) -> (String, u32) {
    let mut toks = tokenize(base);
    let n_ops = t.range(1, 4);
    let mut text_level: Vec<u8> = Vec::new(); // deferred text-level operators
    for _ in 0..n_ops {
        let n = toks.len().max(1);
        match t.weighted(&[4, 3, 3, 3, 3, 2, 2, 2, 2, 2]) {
            0 => {
                if !toks.is_empty() {
                    toks.remove(t.below(n));
                    ops.push("delete".into());
                }
            }
            1 => {
                if !toks.is_empty() {
                    let i = t.below(n);
                    let mut c = toks[i].clone();
                    c.space = true;
                    let times = if t.chance(1, 8) { t.range(2, 40) as usize } else { 1 };
                    for _ in 0..times {
                        toks.insert(i, c.clone());
                    }
                    ops.push("duplicate".into());
                }
            }
            2 => {
                if toks.len() >= 2 {
                    let i = t.below(n);
                    let j = if t.chance(1, 2) { (i + 1) % n } else { t.below(n) };
                    toks.swap(i, j);
                    ops.push("swap".into());
                }
            }
            3 => {
                let i = t.below(n + 1).min(toks.len());
                toks.insert(i, Tok { text: dict_token(t), space: t.chance(3, 4), orig: false });
                ops.push("insert_dict".into());
            }
            4 => {
                if !toks.is_empty() {
                    let i = t.below(n);
                    toks[i] = Tok { text: dict_token(t), space: toks[i].space, orig: false };
                    ops.push("replace_dict".into());
                }
            }
            5 => {
                // splice: head of this statement + tail of another valid statement
                let o = tokenize(other);
                let i = t.below(n + 1).min(toks.len());
                let j = t.below(o.len().max(1)).min(o.len());
                toks.truncate(i);
                toks.extend(o[j..].iter().cloned());
                ops.push("splice".into());
            }
            6 => {
                let i = t.below(n + 1).min(toks.len());
                toks.insert(i, Tok { text: huge_literal(t), space: true, orig: false });
                ops.push("huge_literal".into());
            }
            7 => {
                // unterminated string / identifier / comment opener
                let i = t.below(n + 1).min(toks.len());
                toks.insert(i, Tok { text: t.pick(&["'", "\"", "`", "'abc", "\"abc", "--", "/*", "'''"]).to_string(), space: t.chance(1, 2), orig: false });
                ops.push("unterminated".into());
            }
            8 => text_level.push(0), // unicode injection
            _ => text_level.push(1), // truncation
        }
    }
    // remove whitespace between two tokens sometimes (glue)
    if !toks.is_empty() && t.chance(1, 6) {
        let i = t.below(toks.len());
        toks[i].space = false;
        ops.push("glue".into());
    }
    let kept = kept_pct(&toks);
    let mut text = render(&toks);
    for op in text_level {
        let nchars = text.chars().count();
        if op == 0 {
            let at = t.below(nchars + 1);
            text = insert_char_at(&text, at, pk(t, UNICODE));
            ops.push("unicode".into());
        } else if nchars > 0 {
            let at = t.below(nchars);
            text = text.chars().take(at).collect();
            ops.push("truncate".into());
        }
    }
    (text, kept)
}

fn lexer_stress(t: &mut Tape) -> String {
    let n = t.range(1, 6) as usize;
    let mut s = String::from(*t.pick(&["SELECT ", "", "INSERT INTO t VALUES (", "SELECT * FROM t WHERE a = ", "CREATE TABLE t (a "]));
    for _ in 0..n {
        match t.weighted(&[4, 4, 3, 2, 2, 1, 3]) {
            6 => {
                // typed literal with an odd body
                let mut body = pk(t, TEMPORAL_BODIES).to_string();
                if t.chance(1, 3) {
                    let at = t.below(body.chars().count() + 1);
                    body = insert_char_at(&body, at, pk(t, UNICODE));
                }
                let kw = pk(t, &["DATE", "TIME", "TIMESTAMP", "INTERVAL", "x", "X", "b", "N"]);
                s.push_str(&format!("{} '{}'", kw, body.replace('\'', "''")));
                if kw == "INTERVAL" {
                    s.push(' ');
                    s.push_str(pk(t, INTERVAL_UNITS));
                }
            }
            0 => s.push_str(pk(t, NUMBERS)),
            1 => s.push_str(pk(t, STRINGS)),
            2 => s.push_str(pk(t, PUNCT)),
            3 => s.push_str(pk(t, UNICODE)),
            4 => s.push_str(pk(t, IDENT_WORDS)),
            _ => s.push_str(&huge_literal(t)),
        }
        if t.chance(1, 2) {
            s.push(' ');
        }
    }
    s
}

fn dict_soup(t: &mut Tape) -> String {
    let n = match t.weighted(&[6, 3, 1]) {
        0 => t.range(1, 12),
        1 => t.range(12, 60),
        _ => t.range(60, 400),
    } as usize;
    let mut s = String::new();
    // mostly start like a statement so that the parser gets past the dispatcher
    if t.chance(3, 4) {
        s.push_str(pk(t, &["SELECT", "INSERT INTO", "UPDATE", "DELETE FROM", "CREATE TABLE", "CREATE", "DROP", "ALTER TABLE", "WITH", "GRANT", "REVOKE", "SET", "SHOW", "DECLARE", "FETCH", "CALL", "CREATE INDEX", "CREATE VIEW", "CREATE TRIGGER", "CREATE PROCEDURE", "CREATE FUNCTION", "CREATE SEQUENCE", "CREATE DOMAIN", "CREATE TYPE", "ALTER SEQUENCE", "BEGIN", "ROLLBACK", "TRUNCATE", "REINDEX", "ANALYZE", "DESCRIBE"]));
        s.push(' ');
    }
    for _ in 0..n {
        s.push_str(&dict_token(t));
        if t.chance(5, 6) {
            s.push(' ');
        }
    }
    s
}

fn gen_bomb(t: &mut Tape, cfg: &GenCfg, excluded: &mut u32) -> Case {
    let (construct, kind) = *t.pick(CONSTRUCTS);
    let fit = max_fit(construct);
    let mut hi = fit;
    let known = cfg.avoiding(&overflow_sig("parse", construct)) || cfg.avoiding(&overflow_sig("drop", construct));
    if known {
        hi = hi.min(safe_depth(construct));
        *excluded += 1;
    }
    let _ = kind;
    let d = match t.weighted(&[4, 3, 2]) {
        0 => t.range(1, 80.min(hi as i64)),
        1 => t.range(1, 600.min(hi as i64)),
        _ => t.range(1, hi as i64),
    } as usize;
    let mut c = Case::bomb(construct, d);
    // a bomb embedded into a statement context (same recursion path, different entry)
    if t.chance(1, 4) && c.text.starts_with("SELECT ") && !c.text.contains(" FROM ") {
        let inner = c.text["SELECT ".len()..].to_string();
        c.text = match t.below(4) {
            0 => format!("SELECT a FROM t WHERE {} = 1", inner),
            1 => format!("UPDATE t SET a = {}", inner),
            2 => format!("SELECT a FROM t ORDER BY {}", inner),
            _ => format!("SELECT a FROM t GROUP BY a HAVING {} > 0", inner),
        };
        c.ops.push("embedded".into());
        if c.text.len() > MAX_INPUT {
            c = Case::bomb(construct, d.min(100));
        }
    }
    c.excluded = *excluded;
    c
}

impl C23 {
    fn build_raw(&self, t: &mut Tape, cfg: &GenCfg) -> Case {
        let mut excluded = 0u32;
        let which = if let Ok(s) = std::env::var("VERIF_C23_SRC") { s.parse().unwrap_or(0) } else { t.weighted(&[1, 11, 2, 3, 3]) };
        match which {
            0 => Case { src: "valid".into(), text: gen_valid(t), kept_pct: 100, construct: None, depth: 0, ops: vec![], excluded },
            1 => {
                let base = gen_valid(t);
                let other = if t.chance(1, 2) { t.pick(POOL).to_string() } else { gen_valid(t) };
                let mut ops = Vec::new();
                let (mut text, kept) = mutate(t, &base, &other, &mut ops);
                if text.len() > MAX_INPUT {
                    let mut b = MAX_INPUT;
                    while !text.is_char_boundary(b) {
                        b -= 1;
                    }
                    text.truncate(b);
                }
                Case { src: "mutated".into(), text, kept_pct: kept, construct: None, depth: 0, ops, excluded }
            }
            2 => Case { src: "lexer".into(), text: lexer_stress(t), kept_pct: 0, construct: None, depth: 0, ops: vec![], excluded },
            3 => Case { src: "dict".into(), text: dict_soup(t), kept_pct: 0, construct: None, depth: 0, ops: vec![], excluded },
            _ => gen_bomb(t, cfg, &mut excluded),
        }
    }
}

impl Check for C23 {
    type Case = Case;
    fn id(&self) -> &'static str {
        "C23"
    }
    fn rule(&self) -> String {
        "input text for Parser::parse_sql (<= 64 KiB, valid UTF-8 since the API takes &str), five sources: (valid) statements rendered from the typed grammar vcore::sql \
         (queries, INSERT/UPDATE/DELETE, CREATE TABLE with constraints, CREATE INDEX/VIEW, ALTER) or taken from a hand-written pool of 130 statements covering the rest of \
         the grammar; (mutated) 1-4 operators on a valid statement: token delete/duplicate(x1..40)/swap, dictionary token insert/replace, splice with a second statement, \
         huge numeric/string/identifier literal (40..40000 chars), unterminated quote/comment opener, Unicode injection (28 taught code points incl. NUL, BOM, RTL, \
         case-expanding letters), truncation at a random character, whitespace removal; (lexer) sequences of number/string/punctuation edge forms; (dict) 1-400 random \
         tokens from the keyword/punctuation dictionary behind a statement keyword; (bomb) one of 31 nesting/chain constructs at a random depth. Fixed cases: every pool \
         statement, every prefix of every pool statement (<= 200 bytes), lexer edge forms, the depth ladder 10..5000 (..32000 where 64 KiB allow) for each construct. \
         Non-trivial = parse_sql returned Err and >= 70 % of the input's tokens stem from a valid statement, or nesting depth >= 64. Distinct = hash of the case."
            .into()
    }
    fn assumptions(&self) -> Vec<String> {
        vec![
            "parse_sql is called on the worker process' main thread with the OS default stack (RLIMIT_STACK 8 MiB); a stack overflow is detected by a SIGSEGV handler on an alternate stack and reported as abort.stack_overflow.<phase>.<construct> (phase = parse | drop of the returned AST)".into(),
            "build profile `verif` (opt-level 2, debug assertions and overflow checks on): stack frames are larger than in a plain release build, so thresholds are lower bounds for release".into(),
            "watchdog: 10 s of main-thread CPU time per input inside the worker (ITIMER_PROF + thread CPU clock => hang.cpu.*), plus vcore's wall-clock watchdog (60 s, confirmed twice with 120 s => hang)".into(),
        ]
    }
    fn cases(&self, tier: Tier) -> u64 {
        match tier {
            Tier::Quick => 150_000,
            Tier::Thorough => 1_200_000, // ~7 min on 14 workers (unloaded machine), plus <= 10 min libFuzzer (prepare)
        }
    }
    fn tape_len(&self, _t: Tier) -> usize {
        700
    }
    fn isolated(&self) -> bool {
        true
    }
    fn timeout_s(&self) -> u64 {
        60
    }
    fn floors(&self) -> Vec<(&'static str, f64)> {
        vec![("parsed", 0.05), ("rejected", 0.30), ("src:mutated", 0.25), ("nontrivial", 0.15)]
    }
    fn build(&self, t: &mut Tape, cfg: &GenCfg) -> Case {
        let mut c = self.build_raw(t, cfg);
        if cfg.avoiding(HEX_LITERAL_SIG) {
            if let Some(d) = defuse_hex_literal(&c.text) {
                c.text = d;
                c.excluded += 1;
                c.ops.push("defused_hex_literal".into());
            }
        }
        c
    }
    fn prepare(&self, args: &vcore::Args) -> Result<(), String> {
        // thorough: bounded libFuzzer run of the `parse` target; artifacts become replay files
        crate::fuzzbridge::prepare_thorough(&crate::fuzzbridge::FuzzPlan { id: "C23", target: "parse", runs: 4_000_000, max_total_time_s: 600, timeout_s: 10 }, args)
    }
    fn extra_coverage(&self) -> serde_json::Map<String, serde_json::Value> {
        crate::fuzzbridge::coverage()
    }
    fn fixed_cases(&self, tier: Tier) -> Vec<Case> {
        let mut v = Vec::new();
        for s in POOL {
            let mut c = Case::hand(s);
            c.src = "pool".into();
            c.kept_pct = 100;
            v.push(c);
        }
        // truncation at every character of short statements
        for s in POOL {
            if s.len() <= 200 {
                for (i, _) in s.char_indices().skip(1) {
                    let mut c = Case::hand(&s[..i]);
                    c.src = "prefix".into();
                    c.kept_pct = 100;
                    v.push(c);
                }
            }
        }
        // lexer edge forms alone and in a statement
        for list in [NUMBERS, STRINGS, PUNCT, UNICODE] {
            for s in list {
                for pre in ["", "SELECT ", "SELECT 1 ", "SELECT a", "SELECT 'x' || "] {
                    let mut c = Case::hand(&format!("{}{}", pre, s));
                    c.src = "lexer".into();
                    v.push(c);
                }
            }
        }
        // depth ladder
        let open = vcore::kf::open_sigs();
        for (construct, _) in CONSTRUCTS {
            let fit = max_fit(construct);
            let known = open.iter().any(|s| *s == overflow_sig("parse", construct) || *s == overflow_sig("drop", construct));
            let mut depths: Vec<usize> = LADDER.iter().copied().filter(|d| *d <= fit).collect();
            if !depths.contains(&fit) && fit < 40000 {
                depths.push(fit);
            }
            if tier == Tier::Quick {
                // keep the quick tier short: every other rung above 1000
                depths.retain(|d| *d <= 1000 || [2000, 5000, 12000, 32000].contains(d) || *d == fit);
            }
            if known {
                // avoid mode: the ladder stops below the recorded threshold; one rung well above it
                // re-confirms the finding on every run
                depths.retain(|d| *d <= safe_depth(construct));
                if let Some(c) = confirm_depth(construct) {
                    depths.push(c);
                }
            }
            for d in depths {
                v.push(Case::bomb(construct, d));
            }
        }
        v
    }
    fn render(&self, c: &Case) -> String {
        format!(
            "[src={} len={} kept={}%{}{}] {}",
            c.src,
            c.text.len(),
            c.kept_pct,
            c.construct.as_ref().map(|k| format!(" construct={} depth={}", k, c.depth)).unwrap_or_default(),
            if c.ops.is_empty() { String::new() } else { format!(" ops={}", c.ops.join("+")) },
            vcore::runner::truncate(&format!("{:?}", c.text), 1500)
        )
    }
    fn run(&self, case: &Case, obs: &mut Obs) -> Verdict {
        obs.excluded = case.excluded as u64;
        obs.class(&format!("src:{}", case.src));
        if case.text.len() > MAX_INPUT {
            obs.class("out_of_domain:longer_than_64KiB");
            return Verdict::Pass;
        }
        let sh = shape(&case.text);
        let depth = sh.depth().max(case.depth as usize);
        obs.class(depth_bucket(depth));
        obs.class(match case.text.len() {
            0..=63 => "len:<64",
            64..=1023 => "len:64-1023",
            1024..=16383 => "len:1K-16K",
            _ => "len:16K-64K",
        });
        if !case.text.is_ascii() {
            obs.class("non_ascii");
        }
        let construct = case.construct.clone().unwrap_or_else(|| sh.dominant().to_string());
        // answers for the SIGSEGV handler (phase 0 = inside parse_sql, 1 = dropping the result)
        if segv::installed() {
            let mut o = obs.clone();
            o.nontrivial = depth >= 64;
            if o.nontrivial {
                o.class("nontrivial");
            }
            let mk = |phase: &str| {
                let v = Verdict::fail(
                    overflow_sig(phase, &construct),
                    format!(
                        "stack overflow (SIGSEGV at the end of the {} MiB main-thread stack) while {} — input of {} bytes, nesting depth {} ({}). \
                         In any build this aborts the calling process; it cannot be caught.",
                        segv::stack_limit() >> 20,
                        if phase == "parse" { "inside Parser::parse_sql" } else { "dropping the Statement returned by Parser::parse_sql" },
                        case.text.len(),
                        depth,
                        construct
                    ),
                );
                serde_json::to_string(&(v, &o)).unwrap_or_default()
            };
            let hang = |phase: &str| {
                let v = Verdict::fail(
                    format!("hang.cpu.{}.{}", phase, construct),
                    format!("no result after {} s of CPU time while {} — input of {} bytes, nesting depth {} ({})", CPU_BUDGET_MS / 1000, if phase == "parse" { "inside Parser::parse_sql" } else { "dropping the result" }, case.text.len(), depth, construct),
                );
                serde_json::to_string(&(v, &o)).unwrap_or_default()
            };
            segv::arm_with_watchdog(&[mk("parse"), mk("drop")], &[hang("parse"), hang("drop")], CPU_BUDGET_MS);
        }
        let text = case.text.as_str();
        let r = catch(|| {
            segv::set_phase(0);
            let r = vibesql_parser::Parser::parse_sql(text);
            segv::set_phase(1);
            let ok = r.is_ok();
            drop(r);
            ok
        });
        segv::disarm();
        match r {
            Ok(parsed) => {
                obs.class(if parsed { "parsed" } else { "rejected" });
                if case.src == "pool" || case.src == "valid" {
                    obs.class(if parsed { "valid_src_parsed" } else { "valid_src_rejected" });
                }
                obs.nontrivial = (!parsed && case.kept_pct >= 70) || depth >= 64;
                if obs.nontrivial {
                    obs.class("nontrivial");
                }
                Verdict::Pass
            }
            Err(desc) => {
                obs.nontrivial = true;
                let v = Verdict::fail(format!("parse.{}", psig(&desc)), format!("Parser::parse_sql panicked: {}\ninput ({} bytes): {:?}", desc, case.text.len(), vcore::runner::truncate(&case.text, 2000)));
                if segv::installed() {
                    crate::log_unknown_failure("C23", &v, case);
                }
                v
            }
        }
    }
}

// -------------------------------------------------------------------------------------------
// dev aid: measure the smallest overflowing depth of each construct on this build

pub fn dev_parse_once(construct: &str, d: usize) -> i32 {
    let text = bomb(construct, d);
    let r = vibesql_parser::Parser::parse_sql(&text);
    let ok = r.is_ok();
    drop(r);
    if ok {
        0
    } else {
        10
    }
}

pub fn dev_thresholds() {
    let exe = std::env::current_exe().expect("exe");
    let probe = |c: &str, d: usize| -> Option<bool> {
        // Some(parsed) when the process survived, None when it died
        let st = std::process::Command::new(&exe).arg("dev-parse").arg(c).arg(d.to_string()).stderr(std::process::Stdio::null()).status().ok()?;
        match st.code() {
            Some(0) => Some(true),
            Some(10) => Some(false),
            _ => None,
        }
    };
    println!("{:<28} {:>8} {:>10} {:>14}  note", "construct", "max_fit", "bytes/lvl", "first_overflow");
    for (c, kind) in CONSTRUCTS {
        let fit = max_fit(c);
        let per = (bomb(c, 110).len() - bomb(c, 10).len()) as f64 / 100.0;
        let note = match probe(c, 5) {
            Some(true) => "parses",
            Some(false) => "REJECTED at depth 5 (template not accepted)",
            None => "dies at depth 5",
        };
        if probe(c, fit).is_some() {
            println!("{:<28} {:>8} {:>10.1} {:>14}  {} ({})", c, fit, per, "-", note, kind);
            continue;
        }
        let (mut lo, mut hi) = (5usize, fit); // lo survives, hi dies
        while hi - lo > 1 {
            let mid = (lo + hi) / 2;
            if probe(c, mid).is_some() {
                lo = mid;
            } else {
                hi = mid;
            }
        }
        println!("{:<28} {:>8} {:>10.1} {:>14}  {} ({})", c, fit, per, hi, note, kind);
    }
}
