//! chk_total <ID> quick|thorough|--replay <file> [--cases N] [--strict] [--survey] [--focus s]
//! chk_total --worker <ID>              — child mode (both checks are isolated)
//! chk_total dev-thresholds             — measure the smallest overflowing depth of every nesting construct
//! chk_total dev-parse <construct> <d>  — parse one bomb on the main thread (used by dev-thresholds)
//! chk_total fuzz-to-replay <ID> <artifact> <out.json>  — convert a libFuzzer artifact into a replay file

use vcore::runner::{parse_args, run_check};

macro_rules! dispatch {
    ($id:expr, $f:ident ( $($extra:expr),* )) => {
        match $id {
            "C23" => $f(chk_total::C23, $($extra),*),
            "C24" => $f(chk_total::C24, $($extra),*),
            other => {
                eprintln!("unknown property id {}", other);
                2
            }
        }
    };
}

fn worker<C: vcore::Check>(c: C) -> i32 {
    let root = std::env::var("VERIF_ROOT").unwrap_or_else(|_| "/verif".into());
    if std::env::var("VERIF_STRICT").is_err() {
        let k = vcore::kf::KnownFindings::load(&std::path::Path::new(&root).join("known_findings.json"), c.id());
        vcore::kf::set_open_sigs(k.open_signatures());
    }
    // engine code runs on this (main) thread with the OS default stack; a stack overflow is
    // reported with its own signature instead of the generic abort[..] (see segv.rs)
    chk_total::segv::install(c.id());
    vcore::isolate::worker_main(c)
}

fn run<C: vcore::Check>(c: C, args: vcore::Args) -> i32 {
    run_check(c, args)
}

fn main() {
    let argv: Vec<String> = std::env::args().skip(1).collect();
    match argv.first().map(|s| s.as_str()) {
        Some("dev-thresholds") => {
            chk_total::c23::dev_thresholds();
            return;
        }
        Some("dev-parse") => {
            let d = argv.get(2).and_then(|s| s.parse().ok()).unwrap_or(10);
            std::process::exit(chk_total::c23::dev_parse_once(argv.get(1).map(|s| s.as_str()).unwrap_or(""), d));
        }
        Some("dev-bomb-case") => {
            // print the replay case of one nesting bomb (used to write known-finding replays)
            let c = argv.get(1).cloned().unwrap_or_default();
            let d = argv.get(2).and_then(|s| s.parse().ok()).or_else(|| chk_total::c23::confirm_depth(&c)).unwrap_or(100);
            println!("{}", serde_json::to_string(&chk_total::c23::Case::bomb(&c, d)).unwrap());
            return;
        }
        Some("dev-pool") => {
            for s in chk_total::sqltext::POOL {
                if let Err(e) = vibesql_parser::Parser::parse_sql(s) {
                    println!("REJECTED {:?}\n   {}", s, e);
                }
            }
            return;
        }
        Some("fuzz-to-replay") => {
            std::process::exit(chk_total::fuzzbridge::artifact_to_replay_cli(&argv[1..]));
        }
        _ => {}
    }
    let code = if argv.first().map(|s| s == "--worker").unwrap_or(false) {
        let id = argv.get(1).cloned().unwrap_or_default();
        dispatch!(id.as_str(), worker())
    } else {
        match parse_args(&argv) {
            Err(e) => {
                eprintln!("{}", e);
                2
            }
            Ok(args) => {
                let id = args.id.clone();
                dispatch!(id.as_str(), run(args))
            }
        }
    };
    std::process::exit(code);
}
