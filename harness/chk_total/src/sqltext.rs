//! SQL text material shared by C23, C24 and the libFuzzer targets: keyword dictionary,
//! hand-written valid statements, a loose tokenizer (for token-level mutation), nesting
//! bombs and a structural scanner (nesting depth / dominant construct).

pub const MAX_INPUT: usize = 64 * 1024;

pub const KEYWORDS: &[&str] = &[
    "SELECT", "DISTINCT", "FROM", "WHERE", "INSERT", "INTO", "REPLACE", "IGNORE", "UPDATE", "DELETE", "DUPLICATE", "CREATE", "TABLE", "TRUNCATE",
    "DROP", "ADD", "ALTER", "AND", "OR", "NOT", "NULL", "TRUE", "FALSE", "AS", "JOIN", "LEFT", "RIGHT", "INNER", "OUTER", "CROSS", "FULL", "NATURAL",
    "ON", "GROUP", "BY", "HAVING", "ORDER", "ASC", "DESC", "LIMIT", "OFFSET", "SET", "VALUES", "IN", "BETWEEN", "ASYMMETRIC", "SYMMETRIC", "LIKE",
    "EXISTS", "IF", "IS", "ALL", "ANY", "SOME", "UNION", "INTERSECT", "EXCEPT", "WITH", "RECURSIVE", "DATE", "DEFAULT", "TIME", "TIMESTAMP", "INTERVAL",
    "CAST", "CASE", "WHEN", "THEN", "ELSE", "END", "OVER", "PARTITION", "ROWS", "RANGE", "PRECEDING", "FOLLOWING", "UNBOUNDED", "CURRENT",
    "CURRENT_DATE", "CURRENT_TIME", "CURRENT_TIMESTAMP", "BEGIN", "COLUMN", "COMMIT", "CONSTRAINT", "RENAME", "MODIFY", "CHANGE", "ROLLBACK", "START",
    "TRANSACTION", "SCHEMA", "CASCADE", "RESTRICT", "SAVEPOINT", "RELEASE", "TO", "PRIMARY", "FOREIGN", "KEY", "UNIQUE", "CHECK", "REFERENCES",
    "ACTION", "BOTH", "LEADING", "TRAILING", "DIV", "VARYING", "CHARACTERS", "OCTETS", "USING", "FOR", "GRANT", "PRIVILEGES", "USAGE", "OPTION",
    "REVOKE", "GRANTED", "EXECUTE", "TRIGGER", "UNDER", "ROLE", "DOMAIN", "SEQUENCE", "TYPE", "COLLATION", "CHARACTER", "TRANSLATION", "SPECIFIC",
    "VIEW", "INDEX", "REINDEX", "ASSERTION", "BEFORE", "AFTER", "INSTEAD", "OF", "EACH", "ROW", "STATEMENT", "ENABLE", "DISABLE", "INCREMENT",
    "MINVALUE", "MAXVALUE", "CYCLE", "NO", "RESTART", "NEXT", "CATALOG", "NAMES", "ZONE", "LOCAL", "SESSION", "GLOBAL", "YEAR", "QUARTER", "MONTH",
    "WEEK", "DAY", "HOUR", "MINUTE", "SECOND", "MICROSECOND", "FUNCTION", "PROCEDURE", "CALL", "ROUTINE", "METHOD", "CONSTRUCTOR", "STATIC",
    "INSTANCE", "OUT", "INOUT", "RETURNS", "WHILE", "DO", "LOOP", "REPEAT", "UNTIL", "RETURN", "LEAVE", "ITERATE", "DETERMINISTIC", "LANGUAGE", "SQL",
    "SECURITY", "DEFINER", "INVOKER", "GET", "PAD", "SPACE", "COLLATE", "COMMENT", "DECLARE", "CURSOR", "INSENSITIVE", "SCROLL", "HOLD", "WITHOUT",
    "READ", "ONLY", "WRITE", "OIDS", "OPEN", "FETCH", "CLOSE", "PRIOR", "FIRST", "LAST", "ABSOLUTE", "RELATIVE", "SERIALIZABLE", "ISOLATION", "LEVEL",
    "KEY_BLOCK_SIZE", "CONNECTION", "INSERT_METHOD", "ROW_FORMAT", "DELAY_KEY_WRITE", "TABLE_CHECKSUM", "CHECKSUM", "STATS_SAMPLE_PAGES", "PASSWORD",
    "AVG_ROW_LENGTH", "MIN_ROWS", "MAX_ROWS", "SECONDARY_ENGINE", "DYNAMIC", "FIXED", "COMPRESSED", "REDUNDANT", "COMPACT", "FULLTEXT", "MATCH",
    "AGAINST", "BOOLEAN", "EXPANSION", "MODE", "QUERY", "SPATIAL", "SHOW", "DESCRIBE", "DATABASES", "TABLES", "COLUMNS", "FIELDS", "INDEXES", "KEYS",
    "AUTO_INCREMENT", "AUTOINCREMENT",
];

/// non-keyword words the grammar gives a meaning to (type names, functions, units)
pub const IDENT_WORDS: &[&str] = &[
    "INTEGER", "INT", "SMALLINT", "BIGINT", "VARCHAR", "CHAR", "DOUBLE", "PRECISION", "REAL", "FLOAT", "NUMERIC", "DECIMAL", "TEXT", "BLOB", "BINARY",
    "VARBINARY", "UNSIGNED", "SIGNED", "COUNT", "SUM", "AVG", "MIN", "MAX", "ABS", "SUBSTRING", "SUBSTR", "TRIM", "UPPER", "LOWER", "POSITION",
    "EXTRACT", "COALESCE", "NULLIF", "CONCAT", "LENGTH", "CHAR_LENGTH", "ROUND", "MOD", "POWER", "ROW_NUMBER", "RANK", "LAG", "LEAD", "NULLS", "t", "t0",
    "t1", "a", "b", "c", "x", "id", "name", "ENGINE", "CHARSET", "InnoDB", "utf8", "ZEROFILL", "NCHAR", "NATIONAL", "LARGE", "OBJECT", "CLOB", "BIT",
    "GEOMETRY", "POINT", "ENUM", "JSON", "UUID", "SERIAL", "DATETIME", "TINYINT", "MEDIUMINT", "LONGTEXT", "PUBLIC", "ESCAPE", "FILTER", "WITHIN",
];

pub const PUNCT: &[&str] = &[
    "(", ")", ",", ";", ".", "*", "+", "-", "/", "%", "=", "<", ">", "<=", ">=", "<>", "!=", "||", "|", "!", "@", "@@", "'", "\"", "`", "--", "/*", "*/", ":", "?", "[",
    "]", "{", "}", "#", "$", "\\", "^", "&", "~", "::", "\n", "\t", " ",
];

pub const NUMBERS: &[&str] = &[
    "0", "1", "-1", "42", "9223372036854775807", "9223372036854775808", "-9223372036854775808", "18446744073709551615", "18446744073709551616",
    "340282366920938463463374607431768211456", "1.5", ".5", "5.", "1e10", "1E+10", "1e-10", "1e308", "1e309", "1e-400", "1e", "1e+", "1E-", "1.2.3", "1..2",
    "0x1F", "1_000", "00000000000000000000000000000000000000001", "1e99999999999999999999", "0.00000000000000000000000000000000000000000000001", "1ee5", ".e5",
    "1.e5", "٣", "１２", "1e+-5",
];

pub const STRINGS: &[&str] = &[
    "''", "'a'", "'a''b'", "'''", "''''", "'", "'abc", "'é'", "'日本'", "'\\'", "'\\''", "'\n'", "'\0'", "\"a\"", "\"\"", "\"a\"\"b\"", "\"", "\"abc", "`a`", "``", "`", "`a``b`",
    "'%'", "'_'", "'2024-01-01'", "'12:00:00'", "'1 DAY'", "N'abc'", "X'1F'", "B'01'", "E'\\n'", "'a' 'b'", "'😀'", "\"日本\"", "`é`", "x'aéb'", "x'é'", "X''", "x'1'", "x'zz'", "b'0'", "b'0000000é'", "B'00000001'", "x'日a'", "X'4142'",
];

/// bodies for typed literals (DATE '..', TIME '..', TIMESTAMP '..', INTERVAL '..' unit)
pub const TEMPORAL_BODIES: &[&str] = &[
    "2024-01-01", "2024-02-30", "0000-00-00", "9999-12-31", "10000-01-01", "-1-01-01", "2024-1-1", "2024-01-01 12:00:00", "2024-01-01T12:00:00Z", "12:00:00", "25:61:61",
    "12:00:00.123456789123", "12:00:00+05:30", "2024-01-01 12:34:56+xé:0", "00:00:00.12345678é", "1", "-1", "1-6", "1 2:3:4", "1.12345é", "99999999999999999999", "",
    " ", "é", "1 DAY", "200000000", "9223372036854775807", "1:2", "1:2:3.5", "+1", "--1", "1e5", "١٢",
];

pub const INTERVAL_UNITS: &[&str] = &["YEAR", "MONTH", "DAY", "HOUR", "MINUTE", "SECOND", "YEAR TO MONTH", "DAY TO SECOND", "HOUR TO MINUTE", "DAY TO HOUR", "MINUTE TO SECOND", "WEEK", "QUARTER", "MICROSECOND", "SECOND TO DAY", ""];

pub const UNICODE: &[&str] = &[
    "é", "日", "本", "😀", "\u{0}", "\u{feff}", "\u{202e}", "\u{a0}", "\u{301}", "İ", "ß", "ŉ", "\u{2028}", "\u{1d7d8}", "٣", "Ω", "\u{200b}", "ǅ", "ﬁ", "\u{e000}", "\u{10ffff}",
    "\u{7f}", "\u{1}", "\u{85}", "\u{3000}", "ı", "K", "ſ",
];

/// Hand-written statements the parser is expected to accept (measured: class `pool_parses`).
pub const POOL: &[&str] = &[
    "SELECT 1",
    // literal forms whose bodies are sliced by byte count, with multi-byte characters inside
    "SELECT b'0000000é0000000', B'1010é101', x'aé', X'é1'",
    "SELECT b'01010101', B'1', x'4142', n'é'",
    // type forms with their own token-skipping loops (their prefixes are fixed cases)
    "CREATE TABLE en (c ENUM('a', 'b'), s SET('x', 'y'), d DECIMAL(10, 2), f FLOAT(24), v VARCHAR(10) CHARACTER SET utf8)",
    "CREATE TABLE en2 (c ENUM('a'), t TIME(3) WITH TIME ZONE, ts TIMESTAMP(6) WITHOUT TIME ZONE, i INTERVAL YEAR TO MONTH)",
    "SELECT * FROM t",
    "SELECT a, b AS x FROM t WHERE a = 1 AND b <> 'x' OR NOT c IS NULL",
    "SELECT DISTINCT a FROM t ORDER BY a DESC LIMIT 10 OFFSET 5",
    "SELECT t.a, u.b FROM t INNER JOIN u ON t.id = u.id LEFT OUTER JOIN v ON u.id = v.id",
    "SELECT * FROM t CROSS JOIN u",
    "SELECT * FROM t NATURAL JOIN u",
    "SELECT * FROM (SELECT a FROM t) AS d WHERE d.a > 0",
    "SELECT a, COUNT(*), SUM(b), AVG(b), MIN(b), MAX(b) FROM t GROUP BY a HAVING COUNT(*) > 1",
    "SELECT COUNT(DISTINCT a) FROM t",
    "SELECT a FROM t WHERE a IN (1, 2, 3) AND b NOT IN (SELECT b FROM u)",
    "SELECT a FROM t WHERE a BETWEEN 1 AND 10 AND b NOT BETWEEN SYMMETRIC 5 AND 1",
    "SELECT a FROM t WHERE name LIKE 'a%' AND name NOT LIKE '%b'",
    "SELECT a FROM t WHERE EXISTS (SELECT 1 FROM u WHERE u.id = t.id) AND NOT EXISTS (SELECT 1 FROM v)",
    "SELECT a FROM t WHERE a > ALL (SELECT b FROM u) OR a = ANY (SELECT b FROM u) OR a < SOME (SELECT b FROM u)",
    "SELECT CASE WHEN a > 0 THEN 'p' WHEN a < 0 THEN 'n' ELSE 'z' END FROM t",
    "SELECT CASE a WHEN 1 THEN 'one' WHEN 2, 3 THEN 'few' END FROM t",
    "SELECT CAST(a AS VARCHAR(10)), CAST('1' AS INTEGER), CAST(b AS DOUBLE PRECISION), CAST(c AS NUMERIC(10, 2)) FROM t",
    "SELECT COALESCE(a, b, 0), NULLIF(a, 0), ABS(-a), a + b * c - d / 2, a DIV 2 FROM t",
    "SELECT SUBSTRING(name FROM 2 FOR 3), SUBSTRING(name, 2, 3), TRIM(BOTH 'x' FROM name), TRIM(LEADING FROM name), POSITION('a' IN name) FROM t",
    "SELECT UPPER(name) || LOWER(name) || 'x', CHAR_LENGTH(name), CHARACTER_LENGTH(name USING OCTETS) FROM t",
    "SELECT d + INTERVAL '1' DAY, d - INTERVAL '1-6' YEAR TO MONTH, DATE '2024-01-01', TIME '12:00:00', TIMESTAMP '2024-01-01 12:00:00' FROM t",
    "SELECT CURRENT_DATE, CURRENT_TIME, CURRENT_TIMESTAMP",
    "SELECT a, ROW_NUMBER() OVER (PARTITION BY b ORDER BY c DESC), SUM(a) OVER (ORDER BY c ROWS BETWEEN UNBOUNDED PRECEDING AND CURRENT ROW) FROM t",
    "SELECT RANK() OVER (ORDER BY a), LAG(a, 1) OVER (PARTITION BY b ORDER BY a) FROM t",
    "SELECT a FROM t UNION SELECT a FROM u UNION ALL SELECT a FROM v INTERSECT SELECT a FROM w EXCEPT SELECT 1 ORDER BY 1 LIMIT 3",
    "WITH c AS (SELECT a FROM t), d (x) AS (SELECT 1) SELECT * FROM c, d",
    "WITH r (n) AS (SELECT 1 UNION ALL SELECT n + 1 FROM t WHERE n < 5) SELECT n FROM r",
    "SELECT (SELECT MAX(a) FROM u), -(-1), +1, 1.5E+10, .5, 'it''s', \"Quoted Name\", `bt` FROM t",
    "SELECT @@sql_mode, @@session.autocommit",
    "SELECT * INTO newt FROM t",
    "SELECT MATCH(title, body) AGAINST ('x' IN BOOLEAN MODE) FROM docs",
    "SELECT NEXT VALUE FOR seq1",
    "INSERT INTO t VALUES (1, 'a', NULL, TRUE, 1.5, DEFAULT)",
    "INSERT INTO t (a, b) VALUES (1, 'x'), (2, 'y'), (-3, 'z')",
    "INSERT INTO t (a) SELECT a FROM u WHERE a > 0",
    "INSERT INTO t VALUES (1)",
    "INSERT INTO t VALUES (1, 2) ON DUPLICATE KEY UPDATE b = b + 1",
    "REPLACE INTO t VALUES (1, 2)",
    "UPDATE t SET a = a + 1, b = 'x' WHERE id = 3",
    "UPDATE t SET a = (SELECT MAX(a) FROM u), b = DEFAULT",
    "DELETE FROM t WHERE a < 0 OR a IS NULL",
    "DELETE FROM t",
    "TRUNCATE TABLE t",
    "CREATE TABLE t (id INTEGER PRIMARY KEY, name VARCHAR(50) NOT NULL, price NUMERIC(10, 2) DEFAULT 0, ok BOOLEAN, d DATE, ts TIMESTAMP, UNIQUE (name), CHECK (price >= 0))",
    "CREATE TABLE c (id INT NOT NULL, pid INT REFERENCES t (id) ON DELETE CASCADE, x CHAR(3), y DOUBLE PRECISION, z REAL, w BIGINT, s SMALLINT, PRIMARY KEY (id), CONSTRAINT fk FOREIGN KEY (pid) REFERENCES t (id) ON DELETE SET NULL ON UPDATE NO ACTION)",
    "CREATE TABLE m (id INT AUTO_INCREMENT, v TEXT) ENGINE=InnoDB AUTO_INCREMENT=5 COMMENT='x'",
    "CREATE TABLE w (a TIME WITH TIME ZONE, b TIMESTAMP WITHOUT TIME ZONE, c CHARACTER VARYING(10), d INTERVAL YEAR TO MONTH, e FLOAT(10), f DECIMAL(5))",
    "DROP TABLE t",
    "DROP TABLE IF EXISTS t",
    "ALTER TABLE t ADD COLUMN c INTEGER DEFAULT 0",
    "ALTER TABLE t DROP COLUMN c",
    "ALTER TABLE t ADD CONSTRAINT u1 UNIQUE (a)",
    "ALTER TABLE t RENAME TO t2",
    "ALTER TABLE t ALTER COLUMN a SET DEFAULT 5",
    "ALTER TABLE t MODIFY COLUMN a BIGINT",
    "CREATE INDEX i ON t (a)",
    "CREATE UNIQUE INDEX IF NOT EXISTS i ON t (a DESC, b(10))",
    "CREATE FULLTEXT INDEX f ON docs (title, body)",
    "DROP INDEX i",
    "REINDEX t",
    "CREATE VIEW v AS SELECT a FROM t WHERE a > 0",
    "CREATE OR REPLACE VIEW v (x) AS SELECT a FROM t WITH CHECK OPTION",
    "DROP VIEW v",
    "DROP VIEW IF EXISTS v CASCADE",
    "CREATE TRIGGER trg AFTER INSERT ON t FOR EACH ROW BEGIN UPDATE u SET n = n + 1; END",
    "CREATE TRIGGER trg2 BEFORE UPDATE OF (a) ON t FOR EACH ROW WHEN (a > 0) BEGIN DELETE FROM u; END",
    "DROP TRIGGER trg",
    "ALTER TRIGGER trg DISABLE",
    "BEGIN",
    "BEGIN TRANSACTION",
    "START TRANSACTION",
    "COMMIT",
    "ROLLBACK",
    "SAVEPOINT sp1",
    "ROLLBACK TO SAVEPOINT sp1",
    "RELEASE SAVEPOINT sp1",
    "SET TRANSACTION ISOLATION LEVEL SERIALIZABLE, READ ONLY",
    "CREATE SCHEMA s",
    "CREATE SCHEMA IF NOT EXISTS s",
    "DROP SCHEMA s CASCADE",
    "SET SCHEMA s",
    "SET search_path = s",
    "SET CATALOG c",
    "SET NAMES 'utf8'",
    "SET TIME ZONE LOCAL",
    "SET x = 5",
    "SET SESSION sql_mode = 'ANSI'",
    "CREATE ROLE r",
    "DROP ROLE r",
    "GRANT SELECT, INSERT ON TABLE t TO r WITH GRANT OPTION",
    "GRANT ALL PRIVILEGES ON t TO PUBLIC",
    "GRANT UPDATE (a, b) ON t TO r",
    "GRANT EXECUTE ON FUNCTION f TO r",
    "REVOKE GRANT OPTION FOR SELECT ON t FROM r CASCADE",
    "REVOKE ALL PRIVILEGES ON t FROM r RESTRICT",
    "CREATE DOMAIN d AS INTEGER DEFAULT 0 CHECK (VALUE > 0)",
    "DROP DOMAIN d CASCADE",
    "CREATE SEQUENCE s START WITH 1 INCREMENT BY 2 MINVALUE 1 MAXVALUE 100 CYCLE",
    "ALTER SEQUENCE s RESTART WITH 5",
    "DROP SEQUENCE s",
    "CREATE TYPE ty AS (a INTEGER, b VARCHAR(5))",
    "DROP TYPE ty",
    "CREATE COLLATION c FOR utf8 FROM 'x'",
    "CREATE CHARACTER SET cs",
    "CREATE TRANSLATION tr FOR a TO b FROM c",
    "CREATE ASSERTION a CHECK (NOT EXISTS (SELECT 1 FROM t WHERE a < 0))",
    "DROP ASSERTION a",
    "CREATE PROCEDURE p (IN a INT, OUT b INT) BEGIN SET b = a + 1; END",
    "CREATE FUNCTION f (a INT) RETURNS INT DETERMINISTIC BEGIN RETURN a * 2; END",
    "CREATE PROCEDURE q () BEGIN DECLARE i INT DEFAULT 0; WHILE i < 3 DO SET i = i + 1; END WHILE; IF i > 2 THEN SET i = 0; ELSE SET i = 1; END IF; END",
    "DROP PROCEDURE p",
    "DROP FUNCTION IF EXISTS f",
    "CALL p(1, 2)",
    "DECLARE c1 INSENSITIVE SCROLL CURSOR WITH HOLD FOR SELECT a FROM t",
    "OPEN c1",
    "FETCH NEXT FROM c1",
    "FETCH ABSOLUTE 3 FROM c1 INTO a",
    "CLOSE c1",
    "SHOW TABLES",
    "SHOW DATABASES",
    "SHOW COLUMNS FROM t",
    "SHOW INDEX FROM t",
    "SHOW CREATE TABLE t",
    "DESCRIBE t",
    "SELECT 1;",
    "-- comment\nSELECT 1 -- trailing",
];

// -------------------------------------------------------------------------------------------
// loose tokenizer (for mutation; NOT the engine's lexer)

#[derive(Clone, Debug)]
pub struct Tok {
    pub text: String,
    /// whitespace preceded this token in the source
    pub space: bool,
    /// token stems from a valid statement
    pub orig: bool,
}

pub fn tokenize(s: &str) -> Vec<Tok> {
    let cs: Vec<char> = s.chars().collect();
    let mut i = 0;
    let mut out = Vec::new();
    let mut space = false;
    while i < cs.len() {
        let c = cs[i];
        if c.is_whitespace() {
            space = true;
            i += 1;
            continue;
        }
        let start = i;
        if c.is_alphabetic() || c == '_' {
            while i < cs.len() && (cs[i].is_alphanumeric() || cs[i] == '_') {
                i += 1;
            }
        } else if c.is_ascii_digit() {
            while i < cs.len() && (cs[i].is_ascii_digit() || cs[i] == '.') {
                i += 1;
            }
            if i < cs.len() && (cs[i] == 'e' || cs[i] == 'E') {
                let save = i;
                i += 1;
                if i < cs.len() && (cs[i] == '+' || cs[i] == '-') {
                    i += 1;
                }
                if i < cs.len() && cs[i].is_ascii_digit() {
                    while i < cs.len() && cs[i].is_ascii_digit() {
                        i += 1;
                    }
                } else {
                    i = save;
                }
            }
        } else if c == '\'' || c == '"' || c == '`' {
            i += 1;
            while i < cs.len() {
                if cs[i] == c {
                    if i + 1 < cs.len() && cs[i + 1] == c {
                        i += 2;
                        continue;
                    }
                    i += 1;
                    break;
                }
                i += 1;
            }
        } else if c == '-' && i + 1 < cs.len() && cs[i + 1] == '-' {
            while i < cs.len() && cs[i] != '\n' {
                i += 1;
            }
            if i < cs.len() {
                i += 1; // keep the newline inside the comment token
            }
        } else {
            let two: String = cs[i..(i + 2).min(cs.len())].iter().collect();
            if ["<=", ">=", "<>", "!=", "||", "@@"].contains(&two.as_str()) {
                i += 2;
            } else {
                i += 1;
            }
        }
        out.push(Tok { text: cs[start..i].iter().collect(), space, orig: true });
        space = false;
    }
    out
}

pub fn render(toks: &[Tok]) -> String {
    let mut s = String::new();
    for (i, t) in toks.iter().enumerate() {
        if i > 0 && t.space {
            s.push(' ');
        }
        s.push_str(&t.text);
    }
    s
}

pub fn kept_pct(toks: &[Tok]) -> u32 {
    if toks.is_empty() {
        return 0;
    }
    (toks.iter().filter(|t| t.orig).count() * 100 / toks.len()) as u32
}

// -------------------------------------------------------------------------------------------
// nesting bombs

/// (construct, bytes per level, recursion takes place in: "parse" | "drop")
pub const CONSTRUCTS: &[(&str, &str)] = &[
    ("nested_parens", "parse"),
    ("not_chain", "parse"),
    ("unary_minus_chain", "parse"),
    ("unary_sign_mix", "parse"),
    ("minus_not_alternation", "parse"),
    ("nested_case_else", "parse"),
    ("nested_case_operand", "parse"),
    ("nested_case_when", "parse"),
    ("nested_function_call", "parse"),
    ("nested_cast", "parse"),
    ("nested_in_list", "parse"),
    ("nested_scalar_subquery", "parse"),
    ("nested_derived_table", "parse"),
    ("nested_in_subquery", "parse"),
    ("nested_exists", "parse"),
    ("nested_with", "parse"),
    ("union_chain", "parse"),
    ("nested_table_parens", "parse"),
    ("nested_join_parens", "parse"),
    ("join_chain", "drop"),
    ("comma_join_chain", "drop"),
    ("plus_chain", "drop"),
    ("and_chain", "drop"),
    ("or_chain", "drop"),
    ("concat_chain", "drop"),
    ("flat_in_list", "flat"),
    ("flat_select_list", "flat"),
    ("flat_values_rows", "flat"),
    ("flat_create_columns", "flat"),
    ("nested_check_parens", "parse"),
    ("nested_insert_value_parens", "parse"),
];

fn rep(s: &str, n: usize) -> String {
    s.repeat(n)
}

pub fn bomb(construct: &str, d: usize) -> String {
    match construct {
        "nested_parens" => format!("SELECT {}1{}", rep("(", d), rep(")", d)),
        "not_chain" => format!("SELECT {}TRUE", rep("NOT ", d)),
        "unary_minus_chain" => format!("SELECT {}1", rep("- ", d)),
        "unary_sign_mix" => format!("SELECT {}1", rep("-+", d.div_ceil(2))),
        "minus_not_alternation" => format!("SELECT {}1", rep("- NOT ", d)),
        "nested_case_else" => format!("SELECT {}1{}", rep("CASE WHEN 1=1 THEN 1 ELSE ", d), rep(" END", d)),
        "nested_case_operand" => format!("SELECT {}1{}", rep("CASE ", d), rep(" WHEN 1 THEN 1 END", d)),
        "nested_case_when" => format!("SELECT {}1=1{}", rep("CASE WHEN ", d), rep(" THEN 1 END", d)),
        "nested_function_call" => format!("SELECT {}1{}", rep("ABS(", d), rep(")", d)),
        "nested_cast" => format!("SELECT {}1{}", rep("CAST(", d), rep(" AS INTEGER)", d)),
        "nested_in_list" => format!("SELECT {}1{}", rep("1 IN (", d), rep(")", d)),
        "nested_scalar_subquery" => format!("SELECT {}1{}", rep("(SELECT ", d), rep(")", d)),
        "nested_derived_table" => format!("SELECT * FROM {}t{}", rep("(SELECT * FROM ", d), rep(") AS x", d)),
        "nested_in_subquery" => format!("{}SELECT a FROM t{}", rep("SELECT a FROM t WHERE a IN (", d), rep(")", d)),
        "nested_exists" => format!("{}SELECT a FROM t{}", rep("SELECT a FROM t WHERE EXISTS (", d), rep(")", d)),
        "nested_with" => format!("{}SELECT 1{}", rep("WITH x AS (", d), rep(") SELECT 1", d)),
        "union_chain" => format!("SELECT 1{}", rep(" UNION SELECT 1", d)),
        "nested_table_parens" => format!("SELECT * FROM {}t{}", rep("(", d), rep(")", d)),
        "nested_join_parens" => format!("SELECT * FROM {}t{}", rep("(", d), rep(" JOIN t ON 1=1)", d)),
        "join_chain" => format!("SELECT * FROM t{}", rep(" JOIN t ON 1=1", d)),
        "comma_join_chain" => format!("SELECT * FROM t{}", rep(",t", d)),
        "plus_chain" => format!("SELECT 1{}", rep("+1", d)),
        "and_chain" => format!("SELECT 1 FROM t WHERE a{}", rep(" AND a", d)),
        "or_chain" => format!("SELECT 1 FROM t WHERE a{}", rep(" OR a", d)),
        "concat_chain" => format!("SELECT 'a'{}", rep("||'a'", d)),
        "flat_in_list" => format!("SELECT 1 IN (1{})", rep(",1", d)),
        "flat_select_list" => format!("SELECT 1{}", rep(",1", d)),
        "flat_values_rows" => format!("INSERT INTO t VALUES (1){}", rep(",(1)", d)),
        "flat_create_columns" => format!("CREATE TABLE t (c INT{})", (0..d).map(|i| format!(",c{} INT", i)).collect::<String>()),
        "nested_check_parens" => format!("CREATE TABLE t (a INT CHECK ({}a>0{}))", rep("(", d), rep(")", d)),
        "nested_insert_value_parens" => format!("INSERT INTO t VALUES ({}1{})", rep("(", d), rep(")", d)),
        _ => format!("SELECT {}", d),
    }
}

/// Largest depth whose bomb fits into MAX_INPUT.
pub fn max_fit(construct: &str) -> usize {
    let a = bomb(construct, 10).len();
    let b = bomb(construct, 110).len();
    let per = ((b - a) as f64 / 100.0).max(0.5);
    let mut d = ((MAX_INPUT - a) as f64 / per) as usize + 10;
    while d > 1 && bomb(construct, d).len() > MAX_INPUT {
        d -= (d / 200).max(1);
    }
    d
}

pub const LADDER: &[usize] = &[10, 20, 50, 100, 150, 200, 250, 300, 400, 500, 700, 1000, 1500, 2000, 3000, 5000, 8000, 12000, 16000, 24000, 32000];

// -------------------------------------------------------------------------------------------
// structural scanner

#[derive(Clone, Debug, Default)]
pub struct Shape {
    pub paren_depth: usize,
    pub case_depth: usize,
    pub not_run: usize,
    pub sign_run: usize,
    pub select_depth: usize,
    pub binop_count: usize,
    pub union_count: usize,
    pub join_count: usize,
    pub tokens: usize,
}

impl Shape {
    /// nesting depth in the sense of the non-triviality rule
    pub fn depth(&self) -> usize {
        self.paren_depth.max(self.case_depth).max(self.not_run).max(self.sign_run).max(self.union_count).max(self.join_count)
    }
    /// dominant construct (label for a stack overflow that is not a taught bomb)
    pub fn dominant(&self) -> &'static str {
        let c = [
            (self.paren_depth * 10, "parens_mixed"),
            (self.case_depth * 12, "case_mixed"),
            (self.not_run, "not_chain"),
            (self.sign_run, "unary_sign_chain"),
            (self.union_count * 8, "union_chain"),
            (self.join_count * 2, "join_chain"),
            (self.binop_count / 2, "operator_chain"),
        ];
        c.iter().max_by_key(|x| x.0).map(|x| x.1).unwrap_or("unknown")
    }
}

pub fn shape(text: &str) -> Shape {
    let toks = tokenize(text);
    let mut sh = Shape { tokens: toks.len(), ..Default::default() };
    let (mut pd, mut cd, mut nr, mut sr) = (0usize, 0usize, 0usize, 0usize);
    let mut sel_stack: Vec<bool> = Vec::new();
    let mut prev_open = false;
    for t in &toks {
        let up = t.text.to_ascii_uppercase();
        let mut is_not = false;
        let mut is_sign = false;
        match up.as_str() {
            "(" => {
                pd += 1;
                sh.paren_depth = sh.paren_depth.max(pd);
                sel_stack.push(false);
            }
            ")" => {
                pd = pd.saturating_sub(1);
                sel_stack.pop();
            }
            "CASE" => {
                cd += 1;
                sh.case_depth = sh.case_depth.max(cd);
            }
            "END" => cd = cd.saturating_sub(1),
            "NOT" => is_not = true,
            "-" | "+" => {
                is_sign = true;
                sh.binop_count += 1;
            }
            "*" | "/" | "%" | "||" | "AND" | "OR" | "DIV" => sh.binop_count += 1,
            "UNION" | "INTERSECT" | "EXCEPT" => sh.union_count += 1,
            "JOIN" => sh.join_count += 1,
            "," => sh.join_count += 0,
            "SELECT" => {
                if prev_open {
                    if let Some(l) = sel_stack.last_mut() {
                        *l = true;
                    }
                    sh.select_depth = sh.select_depth.max(sel_stack.iter().filter(|x| **x).count());
                }
            }
            _ => {}
        }
        prev_open = up == "(";
        if is_not {
            nr += 1;
            sh.not_run = sh.not_run.max(nr);
        } else if !is_sign {
            nr = 0;
        }
        if is_sign {
            sr += 1;
            sh.sign_run = sh.sign_run.max(sr);
        } else if !is_not {
            sr = 0;
        }
    }
    sh
}

pub fn depth_bucket(d: usize) -> &'static str {
    match d {
        0..=7 => "depth:<8",
        8..=63 => "depth:8-63",
        64..=255 => "depth:64-255",
        256..=1023 => "depth:256-1023",
        _ => "depth:>=1024",
    }
}
