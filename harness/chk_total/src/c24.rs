//! C24 — statement execution never panics and never silently wraps numbers; the database stays
//! usable. Case = (world, indexes, short history, one "wild" statement). Everything is executed
//! through the dispatcher every check uses (`vcore::engine::exec_stmt`) on the worker's main thread.

use crate::segv;
use serde::{Deserialize, Serialize};
use vcore::engine::{self, ExecErr, Out};
use vcore::runner::catch;
use vcore::sql::gen::*;
use vcore::sql::ir::*;
use vcore::val::V;
use vcore::{Check, GenCfg, Obs, Tape, Tier, Verdict};
use vibesql_storage::Database;
use vibesql_types::SqlValue;

pub struct C24;

// -------------------------------------------------------------------------------------------
// case

/// integer expression over + - * and unary minus (exactness oracle)
#[derive(Clone, Debug, Serialize, Deserialize)]
pub enum IExpr {
    Lit(u64),
    Col(usize),
    Neg(Box<IExpr>),
    Add(Box<IExpr>, Box<IExpr>),
    Sub(Box<IExpr>, Box<IExpr>),
    Mul(Box<IExpr>, Box<IExpr>),
}

impl IExpr {
    pub fn render(&self, cols: &[String]) -> String {
        match self {
            IExpr::Lit(u) => u.to_string(),
            IExpr::Col(i) => cols.get(*i).cloned().unwrap_or_else(|| "NULL".into()),
            IExpr::Neg(e) => format!("(- {})", e.render(cols)),
            IExpr::Add(a, b) => format!("({} + {})", a.render(cols), b.render(cols)),
            IExpr::Sub(a, b) => format!("({} - {})", a.render(cols), b.render(cols)),
            IExpr::Mul(a, b) => format!("({} * {})", a.render(cols), b.render(cols)),
        }
    }
    /// exact value; Err(()) = NULL input, Ok(None) = beyond i128 (model gives up)
    pub fn eval(&self, row: &[Option<i128>]) -> Result<Option<i128>, ()> {
        Ok(match self {
            IExpr::Lit(u) => Some(*u as i128),
            IExpr::Col(i) => match row.get(*i) {
                Some(Some(v)) => Some(*v),
                _ => return Err(()),
            },
            IExpr::Neg(e) => e.eval(row)?.and_then(|v| v.checked_neg()),
            IExpr::Add(a, b) => match (a.eval(row)?, b.eval(row)?) {
                (Some(x), Some(y)) => x.checked_add(y),
                _ => None,
            },
            IExpr::Sub(a, b) => match (a.eval(row)?, b.eval(row)?) {
                (Some(x), Some(y)) => x.checked_sub(y),
                _ => None,
            },
            IExpr::Mul(a, b) => match (a.eval(row)?, b.eval(row)?) {
                (Some(x), Some(y)) => x.checked_mul(y),
                _ => None,
            },
        })
    }
    fn has_extreme(&self) -> bool {
        match self {
            IExpr::Lit(u) => *u > (1 << 31),
            IExpr::Col(_) => false,
            IExpr::Neg(e) => e.has_extreme(),
            IExpr::Add(a, b) | IExpr::Sub(a, b) | IExpr::Mul(a, b) => a.has_extreme() || b.has_extreme(),
        }
    }
}

#[derive(Clone, Debug, Serialize, Deserialize)]
pub enum Wild {
    /// free text
    Sql(String),
    /// `SELECT c.., (expr) FROM table` (or without FROM when `table` is None)
    ExactExpr { table: Option<String>, cols: Vec<String>, expr: IExpr },
    /// `SELECT [g,] SUM(expr) FROM table [GROUP BY g]`
    ExactSum { table: String, cols: Vec<String>, expr: IExpr, group: Option<String> },
}

impl Wild {
    pub fn sql(&self) -> String {
        match self {
            Wild::Sql(s) => s.clone(),
            Wild::ExactExpr { table, cols, expr } => {
                let mut items: Vec<String> = cols.clone();
                items.push(expr.render(cols));
                match table {
                    Some(t) => format!("SELECT {} FROM {}", items.join(", "), t),
                    None => format!("SELECT {}", items.join(", ")),
                }
            }
            Wild::ExactSum { table, cols, expr, group } => match group {
                Some(g) => format!("SELECT {}, SUM({}) FROM {} GROUP BY {}", g, expr.render(cols), table, g),
                None => format!("SELECT SUM({}) FROM {}", expr.render(cols), table),
            },
        }
    }
}

#[derive(Clone, Debug, Serialize, Deserialize)]
pub struct Case {
    pub world: World,
    /// CREATE INDEX statements executed after the world is loaded
    #[serde(default)]
    pub indexes: Vec<String>,
    /// well-formed DML/DDL executed before the wild statement
    #[serde(default)]
    pub history: Vec<String>,
    pub wild: Wild,
    /// generator features of the wild statement (classes, non-triviality, known-trigger avoidance)
    #[serde(default)]
    pub feats: Vec<String>,
    #[serde(default)]
    pub excluded: u32,
    /// hand-written regression input: statements executed instead of world/indexes/history
    #[serde(default)]
    pub raw_setup: Option<Vec<String>>,
}

// -------------------------------------------------------------------------------------------
// taught values

pub const INT_EXTREMES: &[i64] = &[
    i64::MAX,
    i64::MIN,
    i64::MAX - 1,
    i64::MIN + 1,
    i32::MAX as i64,
    i32::MIN as i64,
    i32::MAX as i64 + 1,
    u32::MAX as i64,
    1 << 53,
    (1 << 53) + 1,
    1 << 62,
    3037000500, // ~sqrt(i64::MAX)
    -3037000500,
    4611686018427387904,
    i16::MAX as i64,
    i16::MIN as i64,
    65536,
    0,
    -1,
];

const INT_LITS: &[&str] = &[
    "9223372036854775807",
    "-9223372036854775808",
    "9223372036854775808",
    "-9223372036854775807",
    "18446744073709551615",
    "18446744073709551616",
    "2147483647",
    "2147483648",
    "-2147483648",
    "4294967296",
    "9007199254740993",
    "3037000500",
    "99999999999999999999999999999999999999",
    "0",
    "-1",
    "-0",
];
const FLOAT_LITS: &[&str] = &["1e308", "-1e308", "1e309", "1e-320", "1.7976931348623157e308", "0.1", "-0.0", "1e18", "9.3e18", "1e19", "-9.3e18", "0.5", "1e38", "3.5e38", "1e-46"];
const STR_LITS: &[&str] = &[
    "''", "'a'", "'abc'", "' '", "'é'", "'日本語'", "'aé'", "'😀x'", "'12'", "'-5'", "'1e5'", "'1e999'", "'abc12'", "'9223372036854775808'", "'NULL'", "'%'", "'_'", "'a%b_'", "'2024-01-01'",
    "'2024-02-30'", "'0000-00-00'", "'12:00:00'", "'DAY'", "'MONTH'", "'YEAR'", "'HOUR'", "'SECOND'", "'2024-01-01 12:00:00'", "'99999-01-01'", "'1 DAY'", "'true'", "'İ'", "'ß'", "'\u{0}'",
];
const TYPES: &[&str] = &[
    "INTEGER", "SMALLINT", "BIGINT", "VARCHAR(5)", "VARCHAR(0)", "VARCHAR(1)", "CHAR(3)", "CHAR(0)", "DOUBLE PRECISION", "REAL", "FLOAT", "NUMERIC(10, 2)", "NUMERIC(1, 0)", "NUMERIC(38, 10)",
    "DECIMAL(5, 5)", "BOOLEAN", "DATE", "TIME", "TIMESTAMP", "VARCHAR(65535)", "NUMERIC(255, 255)", "INTERVAL DAY", "UNSIGNED", "BIGINT UNSIGNED", "TEXT", "VARCHAR",
];
/// (function, usual arity)
const FUNCS: &[(&str, usize)] = &[
    ("SUBSTRING", 3), ("SUBSTR", 2), ("LEFT", 2), ("RIGHT", 2), ("UPPER", 1), ("LOWER", 1), ("CHAR_LENGTH", 1), ("CHARACTER_LENGTH", 1), ("OCTET_LENGTH", 1), ("LENGTH", 1), ("CONCAT", 2),
    ("POSITION", 2), ("REPLACE", 3), ("REVERSE", 1), ("INSTR", 2), ("LOCATE", 3), ("TRIM", 1), ("LTRIM", 1), ("RTRIM", 1), ("LPAD", 3), ("RPAD", 3), ("ABS", 1),
    ("ROUND", 2), ("FLOOR", 1), ("CEIL", 1), ("CEILING", 1), ("MOD", 2), ("POWER", 2), ("POW", 2), ("SQRT", 1), ("EXP", 1), ("LN", 1), ("LOG", 1), ("LOG10", 1), ("SIGN", 1), ("PI", 0),
    ("SIN", 1), ("ATAN2", 2), ("GREATEST", 3), ("LEAST", 2), ("FORMAT", 2), ("COALESCE", 2), ("NULLIF", 2), 
    ("DATEDIFF", 2), ("DATE_ADD", 3), ("DATE_SUB", 3), ("ADDDATE", 2), ("EXTRACT", 2), ("AGE", 2), ("DATETIME", 1), ("TO_NUMBER", 1), ("TO_DATE", 2), ("TO_TIMESTAMP", 2), ("TO_CHAR", 2), ("CAST", 2),
    ("VERSION", 0), ("DATABASE", 0), ("USER", 0), ("COUNT", 1), ("SUM", 1), ("AVG", 1), ("MIN", 1), ("MAX", 1), ("ST_GEOMFROMTEXT", 1), ("ST_X", 1),
    ("ST_DISTANCE", 2), ("ST_ASTEXT", 1), ("ST_AREA", 1), ("NOSUCHFUNC", 1),
];

/// Known-finding triggers: while `signature` is open, a wild statement whose features contain all
/// of `feats` is regenerated (80 % of the workers). Maintained by hand as findings are triaged.
pub const KNOWN_TRIGGERS: &[(&str, &[&str])] = &[];

/// Groups of known-finding signatures that share one generator restriction.
pub const GROUPS: &[(&str, &[&str])] = &[
    (
        "int_overflow",
        &[
            "exec.panic[vibesql-executor/src/evaluator/operators/arithmetic/addition.rs|attempt to add with overflow]",
            "exec.panic[vibesql-executor/src/evaluator/operators/arithmetic/subtraction.rs|attempt to subtract with overflow]",
            "exec.panic[vibesql-executor/src/evaluator/operators/arithmetic/multiplication.rs|attempt to multiply with overflow]",
            "exec.panic[rust:core/src/ops/arith.rs|attempt to negate with overflow]",
        ],
    ),
    ("sum_extreme", &["exec.panic[vibesql-executor/src/simd/aggregation.rs|attempt to add with overflow]", "inexact.sum.float_rounded", "inexact.sum.float_wrong"]),
    ("mod_min", &["exec.panic[vibesql-executor/src/evaluator/functions/numeric/basic.rs|attempt to calculate the remainder with overflow]"]),
    (
        "nonascii_store",
        &[
            "exec.panic[vibesql-executor/src/insert/validation.rs|byte index  is not a char boundary; it is inside '' (bytes .]",
            "exec.panic[vibesql-storage/src/table/normalization.rs|byte index  is not a char boundary; it is inside '' (bytes .]",
        ],
    ),
    ("view_named_like_table", &["abort_or_hang.exec.probe.view_named_like_table"]),
    ("double_division", &["exec.panic[vibesql-executor/src/evaluator/operators/arithmetic/division.rs|internal error: entered unreachable code: Unexpected combina]"]),
    ("format_precision", &["exec.panic[vibesql-executor/src/evaluator/functions/numeric/decimal.rs|Formatting argument out of range]"]),
    ("substring_multibyte", &["exec.panic[vibesql-executor/src/evaluator/functions/string/substring.rs|byte index  is not a char boundary; it is inside '' (bytes .]"]),
    ("trim_empty_removal", &["hang.cpu.exec.trim_empty_removal"]),
    ("ntile_empty", &["exec.panic[vibesql-executor/src/select/window/evaluation.rs|index out of bounds: the len is  but the index is]"]),
    ("interval_extreme", &["exec.panic[crate:chrono-0.4.39/src/naive/date/mod.rs|`` overflowed]", "exec.panic[crate:chrono-0.4.39/src/lib.rs|TimeDelta::days out of bounds]"]),
    ("cast_multibyte", &["exec.panic[vibesql-executor/src/evaluator/casting.rs|byte index  is not a char boundary; it is inside '' (bytes .]"]),
    ("locate_multibyte", &["exec.panic[vibesql-executor/src/evaluator/functions/string/search.rs|byte index  is not a char boundary; it is inside '' (bytes .]"]),
    ("locate_min", &["exec.panic[vibesql-executor/src/evaluator/functions/string/search.rs|attempt to subtract with overflow]"]),
    ("abs_min", &["exec.panic[rust:core/src/num/mod.rs|attempt to negate with overflow]"]),
];

/// Groups whose trigger is excluded in ALL workers while a signature of the group is open (not
/// only in the 80 % avoid-mode workers): every hit costs the full CPU budget of the watchdog.
pub const ALWAYS_EXCLUDED: &[&str] = &["trim_empty_removal", "view_named_like_table"];

/// (group, features that must all be present): the wild statement is regenerated while any
/// signature of the group is open and avoided.
pub const GROUP_TRIGGERS: &[(&str, &[&str])] = &[
    ("int_overflow", &["op:arith", "lit:int_extreme"]),
    ("int_overflow", &["op:arith", "world:int_extreme"]),
    ("sum_extreme", &["fn:SUM", "world:int_extreme"]),
    ("sum_extreme", &["fn:SUM", "lit:int_extreme"]),
    ("sum_extreme", &["fn:AVG", "world:int_extreme"]),
    ("sum_extreme", &["fn:AVG", "lit:int_extreme"]),
    ("nonascii_store", &["insert_untyped", "lit:nonascii"]),
    ("nonascii_store", &["update_untyped", "lit:nonascii"]),
    ("nonascii_store", &["insert_select", "lit:nonascii"]),
    ("nonascii_store", &["cast", "lit:nonascii"]),
    ("view_named_like_table", &["view_named_like_table"]),
    ("double_division", &["op:div"]),
    ("format_precision", &["fn:FORMAT", "lit:int_extreme"]),
    ("substring_multibyte", &["fn:SUBSTRING", "lit:nonascii"]),
    ("substring_multibyte", &["fn:SUBSTRING", "world:nonascii"]),
    ("substring_multibyte", &["fn:SUBSTR", "lit:nonascii"]),
    ("substring_multibyte", &["fn:SUBSTR", "world:nonascii"]),
    ("trim_empty_removal", &["trim_empty_removal"]),
    ("ntile_empty", &["window:NTILE"]),
    ("interval_extreme", &["interval_arith"]),
    ("interval_extreme", &["fn:DATE_ADD"]),
    ("interval_extreme", &["fn:DATE_SUB"]),
    ("interval_extreme", &["fn:ADDDATE"]),
    ("cast_multibyte", &["cast", "lit:nonascii"]),
    ("cast_multibyte", &["cast", "world:nonascii"]),
    ("cast_multibyte", &["fn:CAST", "lit:nonascii"]),
    ("cast_multibyte", &["fn:CAST", "world:nonascii"]),
    ("locate_multibyte", &["fn:LOCATE", "lit:nonascii"]),
    ("locate_multibyte", &["fn:LOCATE", "world:nonascii"]),
    ("locate_min", &["fn:LOCATE", "world:int_extreme"]),
    ("abs_min", &["fn:ABS", "world:int_extreme"]),
    ("mod_min", &["mod", "world:int_extreme"]),
    ("mod_min", &["fn:MOD", "world:int_extreme"]),
];

pub fn avoiding_group(cfg: &GenCfg, group: &str) -> bool {
    let always = ALWAYS_EXCLUDED.contains(&group);
    GROUPS.iter().any(|(g, sigs)| *g == group && sigs.iter().any(|s| cfg.avoiding(s) || (always && cfg.known_open.iter().any(|k| k == s))))
}

// -------------------------------------------------------------------------------------------
// wild statement generator (text, no typing discipline)

struct Tab {
    name: String,
    cols: Vec<(String, ColTy)>,
}

struct W<'a> {
    tabs: &'a [Tab],
    index_cols: &'a [(String, String)],
    feats: Vec<String>,
}

fn pk<'a>(t: &mut Tape, xs: &[&'a str]) -> &'a str {
    xs[t.below(xs.len())]
}

impl<'a> W<'a> {
    fn feat(&mut self, f: &str) {
        if !self.feats.iter().any(|x| x == f) {
            self.feats.push(f.to_string());
        }
    }
    fn table(&mut self, t: &mut Tape) -> String {
        if self.tabs.is_empty() || t.chance(1, 12) {
            self.feat("missing_table");
            return pk(t, &["nope", "t9", "PUBLIC.nope", "nope.t0", "\"t0\""]).to_string();
        }
        self.tabs[t.below(self.tabs.len())].name.clone()
    }
    fn tab(&self, name: &str) -> Option<&'a Tab> {
        self.tabs.iter().find(|x| x.name == name)
    }
    fn column(&mut self, t: &mut Tape, scope: &[&'a Tab]) -> String {
        if scope.is_empty() || t.chance(1, 14) {
            self.feat("missing_column");
            return pk(t, &["nope", "t0.nope", "nope.nope", "t9_a", "t1.t0_a"]).to_string();
        }
        let tb = scope[t.below(scope.len())];
        let c = &tb.cols[t.below(tb.cols.len())].0;
        if t.chance(1, 6) {
            format!("{}.{}", tb.name, c)
        } else {
            c.clone()
        }
    }
    fn lit(&mut self, t: &mut Tape) -> String {
        match t.weighted(&[4, 4, 2, 4, 1, 1, 1, 1]) {
            0 => t.range(-3, 12).to_string(),
            1 => {
                self.feat("lit:int_extreme");
                pk(t, INT_LITS).to_string()
            }
            2 => {
                self.feat("lit:float_extreme");
                pk(t, FLOAT_LITS).to_string()
            }
            3 => {
                let s = pk(t, STR_LITS);
                if !s.is_ascii() {
                    self.feat("lit:nonascii");
                }
                if s == "''" {
                    self.feat("lit:empty_string");
                }
                s.to_string()
            }
            4 => "NULL".into(),
            5 => pk(t, &["TRUE", "FALSE"]).to_string(),
            6 => {
                self.feat("lit:long_string");
                format!("'{}'", pk(t, &["a", "é", "ab"]).repeat(*t.pick(&[100usize, 1000, 5000])))
            }
            _ => {
                self.feat("lit:temporal");
                format!("{} {}", pk(t, &["DATE", "TIME", "TIMESTAMP", "INTERVAL"]), pk(t, STR_LITS))
            }
        }
    }
    fn ty(&mut self, t: &mut Tape) -> String {
        pk(t, TYPES).to_string()
    }
    fn expr(&mut self, t: &mut Tape, scope: &[&'a Tab], depth: u32) -> String {
        if depth == 0 {
            return if t.chance(1, 2) { self.column(t, scope) } else { self.lit(t) };
        }
        let d = depth - 1;
        match t.weighted(&[3, 3, 6, 2, 5, 2, 1, 1, 1, 1, 2, 1, 1, 2]) {
            0 => self.column(t, scope),
            1 => self.lit(t),
            2 => {
                let op = pk(t, &["+", "-", "*", "/", "DIV", "||", "=", "<>", "<", ">=", "AND", "OR"]);
                if ["+", "-", "*"].contains(&op) {
                    self.feat("op:arith");
                }
                if ["/", "DIV"].contains(&op) {
                    self.feat("op:div");
                }
                let r = if ["/", "DIV"].contains(&op) && t.chance(1, 3) {
                    self.feat("div_by_zero");
                    pk(t, &["0", "0.0", "(1 - 1)", "'0'", "-0"]).to_string()
                } else {
                    self.expr(t, scope, d)
                };
                format!("({} {} {})", self.expr(t, scope, d), op, r)
            }
            3 => {
                let op = pk(t, &["-", "NOT", "+"]);
                if op == "-" {
                    self.feat("op:arith");
                }
                format!("({} {})", op, self.expr(t, scope, d))
            }
            4 => self.func(t, scope, d),
            _ if std::env::var("VERIF_C24_FUNC").is_ok() => self.func(t, scope, d),
            5 => {
                self.feat("cast");
                format!("CAST({} AS {})", self.expr(t, scope, d), self.ty(t))
            }
            6 => format!("({} IS {}NULL)", self.expr(t, scope, d), if t.chance(1, 2) { "NOT " } else { "" }),
            7 => format!("({} {}BETWEEN {} AND {})", self.expr(t, scope, d), if t.chance(1, 3) { "NOT " } else { "" }, self.expr(t, scope, 0), self.expr(t, scope, 0)),
            8 => {
                let n = t.range(0, 4);
                let items: Vec<String> = (0..n).map(|_| self.expr(t, scope, 0)).collect();
                format!("({} {}IN ({}))", self.expr(t, scope, d), if t.chance(1, 3) { "NOT " } else { "" }, items.join(", "))
            }
            9 => format!("({} LIKE {})", self.expr(t, scope, d), self.expr(t, scope, 0)),
            10 => {
                let n = t.range(1, 2);
                let mut s = String::from("CASE");
                if t.chance(1, 3) {
                    s.push_str(&format!(" {}", self.expr(t, scope, 0)));
                }
                for _ in 0..n {
                    s.push_str(&format!(" WHEN {} THEN {}", self.expr(t, scope, d), self.expr(t, scope, d)));
                }
                if t.chance(1, 2) {
                    s.push_str(&format!(" ELSE {}", self.expr(t, scope, d)));
                }
                s.push_str(" END");
                s
            }
            11 => {
                self.feat("subquery");
                let tb = self.table(t);
                let inner: Vec<&Tab> = self.tab(&tb).into_iter().collect();
                let two = t.chance(1, 4);
                if two {
                    self.feat("arity:subquery_columns");
                }
                format!("(SELECT {}{} FROM {}{})", self.expr(t, &inner, 1), if two { ", 1" } else { "" }, tb, if t.chance(1, 2) { " LIMIT 1" } else { "" })
            }
            12 => {
                self.feat("mod");
                let z = t.chance(1, 3);
                if z {
                    self.feat("div_by_zero");
                }
                format!("MOD({}, {})", self.expr(t, scope, d), if z { "0".to_string() } else { self.expr(t, scope, 0) })
            }
            _ => {
                // special syntactic forms
                match t.below(5) {
                    0 => {
                        self.feat("fn:SUBSTRING");
                        format!("SUBSTRING({} FROM {}{})", self.strish(t, scope), self.intish(t, scope), if t.chance(2, 3) { format!(" FOR {}", self.intish(t, scope)) } else { String::new() })
                    }
                    1 => {
                        self.feat("fn:TRIM");
                        let removal = self.strish(t, scope);
                        if !removal.starts_with('\'') || removal == "''" {
                            // empty removal string (literal, or possibly through a column)
                            self.feat("trim_empty_removal");
                        }
                        format!("TRIM({} {} FROM {})", pk(t, &["BOTH", "LEADING", "TRAILING"]), removal, self.strish(t, scope))
                    }
                    2 => {
                        self.feat("fn:POSITION");
                        format!("POSITION({} IN {})", self.strish(t, scope), self.strish(t, scope))
                    }
                    3 if t.chance(1, 2) => {
                        self.feat("interval_arith");
                        let f = pk(t, &["DATE_ADD", "DATE_SUB", "ADDDATE", "SUBDATE"]);
                        self.feat(&format!("fn:{}", f));
                        format!("{}({}, INTERVAL {} {})", f, self.strish(t, scope), self.intish(t, scope), pk(t, &["DAY", "MONTH", "YEAR", "HOUR", "SECOND", "WEEK", "MINUTE"]))
                    }
                    3 => {
                        self.feat("interval_arith");
                        format!("({} {} INTERVAL {} {})", self.expr(t, scope, 0), pk(t, &["+", "-"]), pk(t, &["'1'", "'-1'", "'99999999999'", "'9223372036854775807'", "'1-6'", "'x'", "''", "'1.5'"]), pk(t, &["DAY", "MONTH", "YEAR", "HOUR", "SECOND", "YEAR TO MONTH"]))
                    }
                    _ => {
                        self.feat("window");
                        let wf = pk(t, &["SUM", "ROW_NUMBER", "RANK", "LAG", "LEAD", "COUNT", "AVG", "MIN", "FIRST_VALUE", "NTILE", "DENSE_RANK", "LAST_VALUE", "MAX"]);
                        self.feat(&format!("window:{}", wf));
                        format!(
                            "{}({}) OVER ({}ORDER BY {}{})",
                            wf,
                            if t.chance(1, 3) { String::new() } else { self.expr(t, scope, 0) },
                            if t.chance(1, 2) { format!("PARTITION BY {} ", self.expr(t, scope, 0)) } else { String::new() },
                            self.expr(t, scope, 0),
                            if t.chance(1, 2) { format!(" ROWS BETWEEN {} PRECEDING AND {} FOLLOWING", pk(t, &["1", "0", "UNBOUNDED", "9223372036854775807", "18446744073709551615"]), pk(t, &["1", "0", "UNBOUNDED", "9223372036854775807"])) } else { String::new() }
                        )
                    }
                }
            }
        }
    }
    fn intish(&mut self, t: &mut Tape, scope: &[&'a Tab]) -> String {
        match t.weighted(&[3, 3, 3, 1]) {
            0 => t.range(-2, 6).to_string(),
            1 => {
                self.feat("lit:int_extreme");
                pk(t, INT_LITS).to_string()
            }
            2 => self.column(t, scope),
            _ => self.lit(t),
        }
    }
    fn strish(&mut self, t: &mut Tape, scope: &[&'a Tab]) -> String {
        match t.weighted(&[4, 2, 1]) {
            0 => {
                let s = pk(t, STR_LITS);
                if !s.is_ascii() {
                    self.feat("lit:nonascii");
                }
                s.to_string()
            }
            1 => self.column(t, scope),
            _ => self.lit(t),
        }
    }
    fn func(&mut self, t: &mut Tape, scope: &[&'a Tab], d: u32) -> String {
        let (mut name, mut arity) = *t.pick(FUNCS);
        // dev aid: VERIF_C24_FUNC=NAME forces the function
        if let Ok(f) = std::env::var("VERIF_C24_FUNC") {
            if let Some(x) = FUNCS.iter().find(|x| x.0 == f) {
                name = x.0;
                arity = x.1;
            }
        }
        self.feat(&format!("fn:{}", name));
        let n = match t.weighted(&[8, 1, 1]) {
            0 => arity,
            1 => {
                self.feat("arity:function");
                arity.saturating_sub(1)
            }
            _ => {
                self.feat("arity:function");
                arity + 1
            }
        };
        let args: Vec<String> = (0..n)
            .map(|i| match t.weighted(&[3, 3, 3, 2]) {
                0 => self.expr(t, scope, d.min(1)),
                1 => self.intish(t, scope),
                2 => self.strish(t, scope),
                _ => {
                    let _ = i;
                    self.lit(t)
                }
            })
            .collect();
        if name == "CAST" {
            return format!("CAST({} AS {})", args.first().cloned().unwrap_or_else(|| "1".into()), self.ty(t));
        }
        if name == "EXTRACT" {
            return format!("EXTRACT({} FROM {})", pk(t, &["YEAR", "MONTH", "DAY", "HOUR", "SECOND", "WEEK"]), args.first().cloned().unwrap_or_else(|| "1".into()));
        }
        format!("{}({}{})", name, if ["COUNT", "SUM", "AVG", "MIN", "MAX"].contains(&name) && t.chance(1, 5) { "DISTINCT " } else { "" }, args.join(", "))
    }
    fn limit_tail(&mut self, t: &mut Tape) -> String {
        let mut s = String::new();
        if t.chance(1, 2) {
            let l = pk(t, &["0", "1", "3", "9223372036854775807", "18446744073709551615", "4294967296", "2", "9223372036854775807", "18446744073709551615", "18446744073709551616", "-1", "1.5", "'a'", "4294967295", "100"]);
            if l.len() > 2 {
                self.feat("limit_extreme");
            }
            s.push_str(&format!(" LIMIT {}", l));
        }
        if t.chance(1, 3) {
            let o = pk(t, &["0", "1", "5", "9223372036854775807", "18446744073709551615", "-1", "4294967295", "100"]);
            if o.len() > 2 {
                self.feat("offset_extreme");
            }
            s.push_str(&format!(" OFFSET {}", o));
        }
        s
    }
    fn select(&mut self, t: &mut Tape) -> String {
        let tb = self.table(t);
        let mut scope: Vec<&Tab> = self.tab(&tb).into_iter().collect();
        let mut from = tb.clone();
        if t.chance(1, 5) {
            // join with a wild ON clause
            let tb2 = self.table(t);
            if let Some(x) = self.tab(&tb2) {
                if x.name != tb {
                    scope.push(x);
                    self.feat("join");
                    let kind = pk(t, &["JOIN", "LEFT JOIN", "CROSS JOIN", "RIGHT JOIN", "FULL OUTER JOIN", "NATURAL JOIN", ","]);
                    from = if kind == "," || kind == "CROSS JOIN" || kind == "NATURAL JOIN" {
                        format!("{} {} {}", tb, kind, tb2)
                    } else {
                        format!("{} {} {} ON {}", tb, kind, tb2, self.expr(t, &scope, 1))
                    };
                }
            }
        }
        let n = t.range(1, 3);
        let mut items: Vec<String> = (0..n).map(|_| self.expr(t, &scope, 2)).collect();
        if t.chance(1, 8) {
            items.push("*".into());
        }
        let mut s = format!("SELECT {}{} FROM {}", if t.chance(1, 8) { "DISTINCT " } else { "" }, items.join(", "), from);
        if t.chance(1, 2) {
            s.push_str(&format!(" WHERE {}", self.expr(t, &scope, 2)));
        }
        if t.chance(1, 5) {
            self.feat("group_by");
            s.push_str(&format!(" GROUP BY {}", self.expr(t, &scope, 1)));
            if t.chance(1, 2) {
                s.push_str(&format!(" HAVING {}", self.expr(t, &scope, 1)));
            }
        }
        if t.chance(1, 4) {
            let k = if t.chance(1, 3) {
                self.feat("order_by_position");
                pk(t, &["1", "2", "0", "99", "-1", "18446744073709551615"]).to_string()
            } else {
                self.expr(t, &scope, 1)
            };
            s.push_str(&format!(" ORDER BY {}{}", k, pk(t, &["", " DESC", " ASC"])));
        }
        s.push_str(&self.limit_tail(t));
        s
    }
    fn index_range(&mut self, t: &mut Tape) -> String {
        // predicates on an indexed column with bounds at the extremes
        let (tb, col) = if self.index_cols.is_empty() {
            let tb = self.table(t);
            let c = self.tab(&tb).map(|x| x.cols[0].0.clone()).unwrap_or_else(|| "a".into());
            (tb, c)
        } else {
            self.index_cols[t.below(self.index_cols.len())].clone()
        };
        self.feat("index_range");
        let b = |me: &mut Self, t: &mut Tape| match t.weighted(&[3, 2, 2, 1, 1]) {
            0 => {
                me.feat("lit:int_extreme");
                pk(t, INT_LITS).to_string()
            }
            1 => t.range(-3, 9).to_string(),
            2 => pk(t, STR_LITS).to_string(),
            3 => pk(t, FLOAT_LITS).to_string(),
            _ => "NULL".to_string(),
        };
        let pred = match t.below(8) {
            0 => format!("{} BETWEEN {} AND {}", col, b(self, t), b(self, t)),
            1 => format!("{} {} {}", col, pk(t, &["<", "<=", ">", ">=", "=", "<>"]), b(self, t)),
            2 => format!("{} > {} AND {} < {}", col, b(self, t), col, b(self, t)),
            3 => format!("{} >= {} AND {} <= {}", col, b(self, t), col, b(self, t)),
            4 => format!("{} IN ({}, {}, {})", col, b(self, t), b(self, t), b(self, t)),
            5 => format!("{} LIKE {}", col, pk(t, &["'a%'", "'%'", "''", "'é%'", "'a_%'", "'\u{10ffff}%'", "'%a'"])),
            6 => format!("{} NOT BETWEEN {} AND {}", col, b(self, t), b(self, t)),
            _ => format!("{} > {} OR {} < {}", col, b(self, t), col, b(self, t)),
        };
        let head = match t.below(4) {
            0 => "*".to_string(),
            1 => format!("COUNT(*), MIN({}), MAX({})", col, col),
            2 => col.clone(),
            _ => {
                self.feat("fn:SUM");
                format!("SUM({})", col)
            }
        };
        format!("SELECT {} FROM {} WHERE {}{}{}", head, tb, pred, if t.chance(1, 3) { format!(" ORDER BY {}{}", col, pk(t, &["", " DESC"])) } else { String::new() }, self.limit_tail(t))
    }
    fn dml(&mut self, t: &mut Tape) -> String {
        let tb = self.table(t);
        let scope: Vec<&Tab> = self.tab(&tb).into_iter().collect();
        let ncols = scope.first().map(|x| x.cols.len()).unwrap_or(2);
        match t.below(6) {
            0 | 1 => {
                // INSERT with wrong arity / mismatching types / extremes
                let n = match t.weighted(&[5, 2, 2]) {
                    0 => ncols,
                    1 => {
                        self.feat("arity:insert");
                        ncols.saturating_sub(1)
                    }
                    _ => {
                        self.feat("arity:insert");
                        ncols + 1
                    }
                };
                let rows = t.range(1, 2);
                let vals: Vec<String> = (0..rows).map(|_| format!("({})", (0..n).map(|_| if t.chance(1, 5) { self.expr(t, &[], 1) } else { self.lit(t) }).collect::<Vec<_>>().join(", "))).collect();
                self.feat("insert_untyped");
                let collist = if t.chance(1, 4) {
                    let k = t.range(1, n.max(1) as i64) as usize;
                    format!(" ({})", (0..k).map(|_| self.column(t, &scope)).collect::<Vec<_>>().join(", "))
                } else {
                    String::new()
                };
                format!("INSERT INTO {}{} VALUES {}", tb, collist, vals.join(", "))
            }
            2 => {
                self.feat("insert_select");
                format!("INSERT INTO {} {}", tb, self.select(t))
            }
            3 | 4 => {
                let c = self.column(t, &scope);
                self.feat("update_untyped");
                format!("UPDATE {} SET {} = {}{}", tb, c, self.expr(t, &scope, 2), if t.chance(2, 3) { format!(" WHERE {}", self.expr(t, &scope, 2)) } else { String::new() })
            }
            _ => format!("DELETE FROM {}{}", tb, if t.chance(3, 4) { format!(" WHERE {}", self.expr(t, &scope, 2)) } else { String::new() }),
        }
    }
    fn ddl(&mut self, t: &mut Tape) -> String {
        self.feat("ddl");
        let tb = self.table(t);
        let scope: Vec<&Tab> = self.tab(&tb).into_iter().collect();
        match t.below(14) {
            0 => {
                // CREATE TABLE: duplicate name or odd types / constraints
                let name = if t.chance(1, 3) { tb.clone() } else { format!("w{}", t.below(3)) };
                let n = t.range(1, 4);
                let mut cols: Vec<String> = (0..n)
                    .map(|i| {
                        format!(
                            "{} {}{}",
                            if t.chance(1, 8) { "a".to_string() } else { format!("c{}", i) },
                            self.ty(t),
                            pk(t, &["", "", " NOT NULL", " PRIMARY KEY", " UNIQUE", " DEFAULT 0", " DEFAULT 'x'", " DEFAULT NULL", " CHECK (1 = 0)", " REFERENCES nope (a)", " REFERENCES t0 (t0_a)", " DEFAULT (1 / 0)"])
                        )
                    })
                    .collect();
                if t.chance(1, 4) {
                    cols.push(pk(t, &["PRIMARY KEY (c0)", "PRIMARY KEY (nope)", "UNIQUE (c0, c0)", "CHECK (c0 > 'a')", "FOREIGN KEY (c0) REFERENCES t0 (t0_a)", "FOREIGN KEY (c0) REFERENCES t0 (nope)", "CHECK (nope > 0)", "PRIMARY KEY (c0), PRIMARY KEY (c0)"]).to_string());
                }
                format!("CREATE TABLE {} ({})", name, cols.join(", "))
            }
            1 => format!("DROP TABLE {}{}", if t.chance(1, 3) { "IF EXISTS " } else { "" }, tb),
            2 => format!("ALTER TABLE {} ADD COLUMN {} {}{}", tb, if t.chance(1, 3) { self.column(t, &scope) } else { "zz".into() }, self.ty(t), pk(t, &["", " NOT NULL", " DEFAULT 1", " DEFAULT 'x'", " PRIMARY KEY"])),
            3 => format!("ALTER TABLE {} DROP COLUMN {}", tb, self.column(t, &scope)),
            4 => format!("CREATE {}INDEX {} ON {} ({}{})", pk(t, &["", "UNIQUE "]), pk(t, &["ix0", "ix1", "wx"]), tb, self.column(t, &scope), pk(t, &["", " DESC", "(2)", "(0)", "(18446744073709551615)", ", nope"])),
            5 => format!("DROP INDEX {}", pk(t, &["ix0", "ix1", "wx", "nope"])),
            6 => format!("TRUNCATE TABLE {}", tb),
            7 => {
                let name = pk(t, &["v0", "v1", "t0"]);
                if name == "t0" {
                    self.feat("view_named_like_table");
                }
                format!("CREATE VIEW {} AS {}", name, self.select(t))
            }
            8 => format!("DROP VIEW {}{}", if t.chance(1, 3) { "IF EXISTS " } else { "" }, pk(t, &["v0", "v1", "nope", "t0"])),
            9 => format!("ALTER TABLE {} RENAME TO {}", tb, pk(t, &["t0", "t1", "r0"])),
            10 => format!("ALTER TABLE {} ALTER COLUMN {} SET DEFAULT {}", tb, self.column(t, &scope), self.lit(t)),
            11 => format!("REINDEX {}", pk(t, &["ix0", "t0", "nope", ""])),
            12 => format!("ALTER TABLE {} ADD CONSTRAINT k{} {}", tb, t.below(2), pk(t, &["UNIQUE (nope)", "CHECK (1 = 0)", "PRIMARY KEY (t0_a)", "FOREIGN KEY (t0_a) REFERENCES t1 (t1_a)", "CHECK (t0_a > 'x')"])),
            _ => format!("ALTER TABLE {} MODIFY COLUMN {} {}", tb, self.column(t, &scope), self.ty(t)),
        }
    }
    fn misc(&mut self, t: &mut Tape) -> String {
        match t.below(9) {
            0 => {
                self.feat("txn");
                pk(t, &["BEGIN", "COMMIT", "ROLLBACK", "SAVEPOINT s1", "ROLLBACK TO SAVEPOINT s1", "ROLLBACK TO SAVEPOINT nope", "RELEASE SAVEPOINT s1", "RELEASE SAVEPOINT nope", "START TRANSACTION"]).to_string()
            }
            1 => {
                // set operation with mismatching arity / types
                self.feat("set_op");
                let a = self.select(t);
                let b = self.select(t);
                format!("{} {} {}", a, pk(t, &["UNION", "UNION ALL", "INTERSECT", "EXCEPT", "INTERSECT ALL", "EXCEPT ALL"]), b)
            }
            2 => {
                self.feat("constant_select");
                let n = t.range(1, 3);
                format!("SELECT {}", (0..n).map(|_| self.expr(t, &[], 3)).collect::<Vec<_>>().join(", "))
            }
            3 => {
                self.feat("agg_extreme");
                let tb = self.table(t);
                let scope: Vec<&Tab> = self.tab(&tb).into_iter().collect();
                let f = pk(t, &["SUM", "AVG", "MIN", "MAX", "COUNT"]);
                self.feat(&format!("fn:{}", f));
                let f2 = pk(t, &["SUM", "AVG", "COUNT"]);
                self.feat(&format!("fn:{}", f2));
                format!("SELECT {}({}{}){} FROM {}{}", f, if t.chance(1, 5) { "DISTINCT " } else { "" }, self.expr(t, &scope, 1), if t.chance(1, 3) { format!(", {}({})", f2, self.expr(t, &scope, 1)) } else { String::new() }, tb, if t.chance(1, 3) { format!(" WHERE {}", self.expr(t, &scope, 1)) } else { String::new() })
            }
            4 => {
                self.feat("cte");
                format!("WITH c AS ({}) SELECT * FROM c{}", self.select(t), self.limit_tail(t))
            }
            5 => {
                self.feat("schema");
                pk(t, &["CREATE SCHEMA s1", "CREATE SCHEMA s1", "DROP SCHEMA s1", "DROP SCHEMA nope CASCADE", "CREATE ROLE r1", "DROP ROLE r1", "DROP ROLE nope", "GRANT SELECT ON t0 TO r1", "REVOKE SELECT ON t0 FROM nope", "GRANT ALL PRIVILEGES ON nope TO r1", "SET SCHEMA nope"]).to_string()
            }
            6 => {
                self.feat("derived");
                format!("SELECT * FROM ({}) AS d{}", self.select(t), self.limit_tail(t))
            }
            7 => {
                self.feat("insert_default");
                let tb = self.table(t);
                format!("INSERT INTO {} DEFAULT VALUES", tb)
            }
            _ => {
                self.feat("analyze");
                pk(t, &["SHOW TABLES", "SHOW COLUMNS FROM t0", "SHOW COLUMNS FROM nope", "DESCRIBE t0", "DESCRIBE nope", "SET sql_mode = 'x'", "SET autocommit = 0", "SHOW INDEX FROM t0", "SHOW CREATE TABLE t0"]).to_string()
            }
        }
    }
}

fn gen_iexpr(t: &mut Tape, ncols: usize, depth: u32) -> IExpr {
    let leaf = |t: &mut Tape| -> IExpr {
        if ncols > 0 && t.chance(1, 2) {
            IExpr::Col(t.below(ncols))
        } else {
            match t.weighted(&[3, 3]) {
                0 => IExpr::Lit(t.range(0, 9) as u64),
                _ => IExpr::Lit(*t.pick(&[i64::MAX as u64, i64::MAX as u64 - 1, 1 << 62, 1 << 32, (1 << 31) - 1, 1 << 31, 3037000500, 3037000499, 9007199254740993, 4611686018427387904, 2, 10])),
            }
        }
    };
    if depth == 0 {
        return leaf(t);
    }
    let d = depth - 1;
    match t.weighted(&[2, 3, 3, 3, 1]) {
        0 => leaf(t),
        1 => IExpr::Add(Box::new(gen_iexpr(t, ncols, d)), Box::new(gen_iexpr(t, ncols, d))),
        2 => IExpr::Sub(Box::new(gen_iexpr(t, ncols, d)), Box::new(gen_iexpr(t, ncols, d))),
        3 => IExpr::Mul(Box::new(gen_iexpr(t, ncols, d)), Box::new(gen_iexpr(t, ncols, d))),
        _ => IExpr::Neg(Box::new(gen_iexpr(t, ncols, d))),
    }
}

/// small literals only: no intermediate value can leave i64 (avoid mode of the overflow findings)
fn gen_iexpr_small(t: &mut Tape, ncols: usize, depth: u32) -> IExpr {
    if depth == 0 || t.chance(1, 4) {
        return if ncols > 0 && t.chance(1, 2) { IExpr::Col(t.below(ncols)) } else { IExpr::Lit(t.range(0, 1000) as u64) };
    }
    let d = depth - 1;
    match t.below(4) {
        0 => IExpr::Add(Box::new(gen_iexpr_small(t, ncols, d)), Box::new(gen_iexpr_small(t, ncols, d))),
        1 => IExpr::Sub(Box::new(gen_iexpr_small(t, ncols, d)), Box::new(gen_iexpr_small(t, ncols, d))),
        2 => IExpr::Mul(Box::new(gen_iexpr_small(t, ncols, d)), Box::new(gen_iexpr_small(t, ncols, d))),
        _ => IExpr::Neg(Box::new(gen_iexpr_small(t, ncols, d))),
    }
}

fn int_cols(tb: &TableDef) -> Vec<String> {
    tb.cols.iter().filter(|c| matches!(c.ty, ColTy::Int | ColTy::Bigint | ColTy::Smallint)).map(|c| c.name.clone()).collect()
}

// -------------------------------------------------------------------------------------------
// world with taught extremes

fn spice_world(t: &mut Tape, w: &mut World, ascii_only: bool) {
    for (tb, rows) in w.tables.iter_mut().zip(w.rows.iter_mut()) {
        for (ci, c) in tb.cols.iter_mut().enumerate() {
            // widen the type menu
            let pk_col = tb.pk.contains(&ci);
            c.ty = match (&c.ty, t.below(6)) {
                (ColTy::Int, 1) => ColTy::Bigint,
                (ColTy::Int, 2) if !pk_col => ColTy::Smallint,
                (ColTy::Varchar(_), 1) => ColTy::Char(4),
                (ColTy::Varchar(_), 2) => ColTy::Varchar(3),
                (ColTy::Double, 1) => ColTy::Real,
                (ColTy::Double, 2) => ColTy::Numeric(10, 2),
                (x, _) => (*x).clone(),
            };
        }
        for r in rows.iter_mut() {
            for (ci, v) in r.iter_mut().enumerate() {
                if tb.pk.contains(&ci) {
                    continue;
                }
                match (&tb.cols[ci].ty, t.below(6)) {
                    (ColTy::Int | ColTy::Bigint | ColTy::Smallint, 0) => *v = V::Int(*t.pick(INT_EXTREMES)),
                    (ColTy::Varchar(_) | ColTy::Char(_), 0) => {
                        let s = t.pick(&["", "é", "日本", "aé", "😀", "ÿ", "12", "a b", "%"]).to_string();
                        *v = V::Varchar(if ascii_only && !s.is_ascii() { "zz".to_string() } else { s })
                    }
                    (ColTy::Double | ColTy::Real | ColTy::Numeric(..), 0) => *v = V::dbl(*t.pick(&[1e308, -1e308, 1e-300, 9.3e18, -9.3e18, 1e19, 0.1, 16777217.0, 1e38, 3.5e38, -0.0])),
                    _ => {}
                }
            }
        }
    }
}

fn setup_sql(case: &Case) -> Vec<String> {
    if let Some(r) = &case.raw_setup {
        return r.clone();
    }
    let mut v = Vec::new();
    for (tb, rows) in case.world.tables.iter().zip(case.world.rows.iter()) {
        v.push(tb.create_sql(Dialect::Vibe));
        for r in rows {
            v.push(insert_sql(&tb.name, None, std::slice::from_ref(r), Dialect::Vibe));
        }
    }
    v.extend(case.indexes.iter().cloned());
    v.extend(case.history.iter().cloned());
    v
}

// -------------------------------------------------------------------------------------------
// oracle

/// CPU budget of the main thread per phase (setup, wild + probe). Statements with scalar
/// subqueries legitimately need 20-50 ms here and 20x that on an overloaded machine.
pub const CPU_BUDGET_MS: u64 = 20_000;

fn cpu_ms() -> u64 {
    let mut ts = libc::timespec { tv_sec: 0, tv_nsec: 0 };
    unsafe {
        libc::clock_gettime(libc::CLOCK_PROCESS_CPUTIME_ID, &mut ts);
    }
    ts.tv_sec as u64 * 1000 + ts.tv_nsec as u64 / 1_000_000
}

/// function-like words of a statement (part of hang signatures), at most three, sorted
fn sql_functions(sql: &str) -> String {
    let mut v: Vec<String> = crate::sqltext::tokenize(sql)
        .iter()
        .map(|t| t.text.to_ascii_uppercase())
        .filter(|w| FUNCS.iter().any(|f| f.0 == w) || ["TRIM", "POSITION", "OVER", "LIKE", "RECURSIVE", "INTERVAL"].contains(&w.as_str()))
        .collect();
    v.sort();
    v.dedup();
    v.truncate(3);
    v.join(",")
}

/// taught hang trigger, else the function list
fn hang_class(sql: &str) -> String {
    let toks: Vec<String> = crate::sqltext::tokenize(sql).iter().map(|t| t.text.to_ascii_uppercase()).collect();
    for i in 0..toks.len() {
        if toks[i] == "TRIM" && toks.get(i + 1).map(|x| x == "(").unwrap_or(false) {
            let mut j = i + 2;
            if toks.get(j).map(|x| ["BOTH", "LEADING", "TRAILING"].contains(&x.as_str())).unwrap_or(false) {
                j += 1;
            }
            if toks.get(j).map(|x| x == "''").unwrap_or(false) && toks.get(j + 1).map(|x| x == "FROM").unwrap_or(false) {
                return "trim_empty_removal".into();
            }
        }
    }
    sql_functions(sql)
}

pub fn psig(desc: &str) -> String {
    crate::c23::psig(desc)
}

fn stmt_kind(sql: &str) -> String {
    let mut it = sql.split_whitespace();
    let a = it.next().unwrap_or("").to_ascii_uppercase();
    let b = it.next().unwrap_or("").to_ascii_uppercase();
    match a.as_str() {
        "CREATE" | "DROP" | "ALTER" => format!("{}_{}", a, b.trim_matches(|c: char| !c.is_ascii_alphabetic())),
        _ => a.trim_matches(|c: char| !c.is_ascii_alphabetic()).to_string(),
    }
}

pub enum Step {
    ParseErr,
    Ok(Out),
    Err(ExecErr),
    Panic(String),
}

/// One statement through the dispatcher, panics captured.
pub fn step(db: &mut Database, sql: &str) -> Step {
    let parsed = match catch(|| vibesql_parser::Parser::parse_sql(sql)) {
        Ok(Ok(s)) => s,
        Ok(Err(_)) => return Step::ParseErr,
        // parser panics are C23's subject
        Err(_) => return Step::ParseErr,
    };
    match catch(|| engine::exec_stmt(db, &parsed)) {
        Ok(Ok(o)) => Step::Ok(o),
        Ok(Err(e)) => Step::Err(e),
        Err(p) => Step::Panic(p),
    }
}

fn release_note(desc: &str) -> &'static str {
    // `/` and `%` check MIN / -1 in every profile; + - * and negation only with overflow checks on
    if desc.contains("with overflow") && !desc.contains("remainder with overflow") && !desc.contains("divide with overflow") {
        " [overflow check of the verif/debug profile: a plain release build does not panic here but continues with the wrapped value]"
    } else {
        " [panics in every build profile]"
    }
}

fn quote_ident(n: &str) -> String {
    n.split('.')
        .map(|p| if !p.is_empty() && p.chars().all(|c| c.is_ascii_uppercase() || c.is_ascii_digit() || c == '_') && !p.chars().next().unwrap().is_ascii_digit() { p.to_string() } else { format!("\"{}\"", p.replace('"', "\"\"")) })
        .collect::<Vec<_>>()
        .join(".")
}

fn to_i128(v: &SqlValue) -> Result<Option<i128>, ()> {
    match v {
        SqlValue::Null => Ok(None),
        SqlValue::Integer(i) | SqlValue::Bigint(i) => Ok(Some(*i as i128)),
        SqlValue::Smallint(i) => Ok(Some(*i as i128)),
        SqlValue::Unsigned(u) => Ok(Some(*u as i128)),
        _ => Err(()),
    }
}

/// Compare an engine value with the exact value. None = acceptable.
fn exact_mismatch(got: &SqlValue, exact: i128) -> Option<(&'static str, String)> {
    let f_exact = |f: f64| -> bool { f.is_finite() && f.fract() == 0.0 && f.abs() < 1.7e38 && (f as i128) == exact };
    match got {
        SqlValue::Null => None,
        SqlValue::Integer(_) | SqlValue::Bigint(_) | SqlValue::Smallint(_) | SqlValue::Unsigned(_) => {
            let g = to_i128(got).ok().flatten().unwrap_or(0);
            if g == exact {
                None
            } else if (exact - g).rem_euclid(1i128 << 64) == 0 || (exact - g).rem_euclid(1i128 << 32) == 0 || (exact - g).rem_euclid(1i128 << 16) == 0 {
                Some(("wrapped", format!("{:?}", got)))
            } else {
                Some(("wrong_integer", format!("{:?}", got)))
            }
        }
        SqlValue::Double(f) | SqlValue::Numeric(f) => {
            if f_exact(*f) {
                None
            } else if f.is_finite() && ((*f - exact as f64).abs() <= (exact as f64).abs() * 1e-6) {
                Some(("float_rounded", format!("{:?}", got)))
            } else {
                Some(("float_wrong", format!("{:?}", got)))
            }
        }
        SqlValue::Float(f) | SqlValue::Real(f) => {
            let d = *f as f64;
            if f_exact(d) {
                None
            } else if d.is_finite() && ((d - exact as f64).abs() <= (exact as f64).abs() * 1e-3) {
                Some(("float32_rounded", format!("{:?}", got)))
            } else {
                Some(("float_wrong", format!("{:?}", got)))
            }
        }
        other => Some(("non_numeric", format!("{:?}", other))),
    }
}

fn usable(db: &mut Database, after: &str) -> Result<(), Verdict> {
    let mut names = db.list_tables();
    names.sort();
    for n in names {
        let q = format!("SELECT COUNT(*) FROM {}", quote_ident(&n));
        match step(db, &q) {
            Step::Ok(Out::Rows(r)) if r.len() == 1 => {}
            Step::Ok(o) => return Err(Verdict::fail(format!("unusable.count_star.odd_result.after[{}]", after), format!("`{}` returned {:?}", q, o))),
            Step::ParseErr => return Err(Verdict::Harness(format!("probe `{}` does not parse", q))),
            Step::Err(e) => return Err(Verdict::fail(format!("unusable.count_star.{}.after[{}]", e.kind(), after), format!("after the statement, `{}` fails: {}", q, e.text()))),
            Step::Panic(p) => return Err(Verdict::fail(format!("unusable.count_star.{}.after[{}]", psig(&p), after), format!("after the statement, `{}` panics: {}", q, p))),
        }
    }
    let probes = ["CREATE TABLE verif_probe_zq (a INTEGER, b VARCHAR(10))", "INSERT INTO verif_probe_zq VALUES (1, 'x')", "SELECT a, b FROM verif_probe_zq"];
    for (i, q) in probes.iter().enumerate() {
        match step(db, q) {
            Step::Ok(Out::Rows(r)) if i == 2 => {
                let ok = r.len() == 1 && r[0].values.len() == 2 && matches!(r[0].values[0], SqlValue::Integer(1)) && matches!(&r[0].values[1], SqlValue::Varchar(s) | SqlValue::Character(s) if s == "x");
                if !ok {
                    return Err(Verdict::fail(format!("unusable.fresh_table.wrong_rows.after[{}]", after), format!("`{}` returned {:?}", q, r)));
                }
            }
            Step::Ok(_) => {}
            Step::ParseErr => return Err(Verdict::Harness(format!("probe `{}` does not parse", q))),
            Step::Err(e) => return Err(Verdict::fail(format!("unusable.fresh_table.{}.{}.after[{}]", ["create", "insert", "select"][i], e.kind(), after), format!("after the statement, `{}` fails: {}", q, e.text()))),
            Step::Panic(p) => return Err(Verdict::fail(format!("unusable.fresh_table.{}.{}.after[{}]", ["create", "insert", "select"][i], psig(&p), after), format!("after the statement, `{}` panics: {}", q, p))),
        }
    }
    Ok(())
}

fn stored_int_rows(db: &Database, table: &str, cols: &[String]) -> Option<Vec<Vec<Option<i128>>>> {
    let tb = db.get_table(table)?;
    let idx: Vec<usize> = cols.iter().map(|c| tb.schema.columns.iter().position(|x| x.name.eq_ignore_ascii_case(c))).collect::<Option<Vec<_>>>()?;
    let mut out = Vec::new();
    for r in tb.scan() {
        let mut row = Vec::new();
        for &i in &idx {
            row.push(to_i128(r.values.get(i)?).ok()?);
        }
        out.push(row);
    }
    Some(out)
}

fn check_exact(db: &mut Database, wild: &Wild, obs: &mut Obs) -> Option<Verdict> {
    let sql = wild.sql();
    match wild {
        Wild::Sql(_) => None,
        Wild::ExactExpr { cols, expr, .. } => {
            let rows = match step(db, &sql) {
                Step::Ok(Out::Rows(r)) => r,
                Step::Ok(_) => return Some(Verdict::Harness(format!("`{}` did not return rows", sql))),
                Step::ParseErr => return Some(Verdict::Harness(format!("exactness query does not parse: {}", sql))),
                Step::Err(_) => {
                    obs.class("exact:engine_error");
                    return None;
                }
                Step::Panic(p) => return Some(Verdict::fail(format!("exec.{}", psig(&p)), format!("`{}` panicked: {}{}", sql, p, release_note(&p)))),
            };
            for r in &rows {
                if r.values.len() != cols.len() + 1 {
                    return Some(Verdict::Harness(format!("`{}`: row width {} != {}", sql, r.values.len(), cols.len() + 1)));
                }
                let input: Result<Vec<Option<i128>>, ()> = r.values[..cols.len()].iter().map(to_i128).collect();
                let Ok(input) = input else { continue };
                match expr.eval(&input) {
                    Err(()) => obs.class("exact:null_input"),
                    Ok(None) => obs.class("exact:model_beyond_i128"),
                    Ok(Some(x)) => {
                        obs.sub_evals += 1;
                        if x > i64::MAX as i128 || x < i64::MIN as i128 {
                            obs.class("exact:value_beyond_i64");
                        }
                        if let Some((kind, got)) = exact_mismatch(&r.values[cols.len()], x) {
                            return Some(Verdict::fail(
                                format!("inexact.int_expr.{}", kind),
                                format!("`{}`\ninput row {:?}\nexact value {}\nengine returned {} — neither the exact value nor an error/NULL", sql, input, x, got),
                            ));
                        }
                    }
                }
            }
            obs.class("exact:checked");
            None
        }
        Wild::ExactSum { table, cols, expr, group } => {
            let mut all = cols.clone();
            if let Some(g) = group {
                all.push(g.clone());
            }
            let stored = stored_int_rows(db, table, &all);
            let rows = match step(db, &sql) {
                Step::Ok(Out::Rows(r)) => r,
                Step::Ok(_) => return Some(Verdict::Harness(format!("`{}` did not return rows", sql))),
                Step::ParseErr => return Some(Verdict::Harness(format!("exactness query does not parse: {}", sql))),
                Step::Err(_) => {
                    obs.class("exact:engine_error");
                    return None;
                }
                Step::Panic(p) => return Some(Verdict::fail(format!("exec.{}", psig(&p)), format!("`{}` panicked: {}{}", sql, p, release_note(&p)))),
            };
            let Some(stored) = stored else {
                obs.class("exact:table_not_readable");
                return None;
            };
            // model: exact sum per group
            let mut groups: Vec<(Option<i128>, Option<i128>, bool)> = Vec::new(); // key, sum, model_valid
            for r in &stored {
                let key = if group.is_some() { r[cols.len()] } else { None };
                let v = expr.eval(&r[..cols.len()]);
                let slot = match groups.iter_mut().find(|g| g.0 == key) {
                    Some(s) => s,
                    None => {
                        groups.push((key, None, true));
                        groups.last_mut().unwrap()
                    }
                };
                match v {
                    Err(()) => {}
                    Ok(None) => slot.2 = false,
                    Ok(Some(x)) => match slot.1.unwrap_or(0).checked_add(x) {
                        Some(s) => slot.1 = Some(s),
                        None => slot.2 = false,
                    },
                }
            }
            if group.is_none() && groups.is_empty() {
                groups.push((None, None, true));
            }
            for r in &rows {
                let (key, got) = if group.is_some() {
                    if r.values.len() != 2 {
                        return Some(Verdict::Harness(format!("`{}`: row width {}", sql, r.values.len())));
                    }
                    let Ok(k) = to_i128(&r.values[0]) else { continue };
                    (k, &r.values[1])
                } else {
                    if r.values.len() != 1 {
                        return Some(Verdict::Harness(format!("`{}`: row width {}", sql, r.values.len())));
                    }
                    (None, &r.values[0])
                };
                let Some(g) = groups.iter().find(|g| g.0 == key) else { continue };
                if !g.2 {
                    obs.class("exact:model_beyond_i128");
                    continue;
                }
                let Some(x) = g.1 else { continue };
                obs.sub_evals += 1;
                if x > i64::MAX as i128 || x < i64::MIN as i128 {
                    obs.class("exact:value_beyond_i64");
                }
                if let Some((kind, gv)) = exact_mismatch(got, x) {
                    return Some(Verdict::fail(
                        format!("inexact.sum.{}", kind),
                        format!("`{}`\nstored integer inputs (columns {:?}): {:?}\nexact sum{} = {}\nengine returned {} — neither the exact value nor an error/NULL", sql, all, stored, key.map(|k| format!(" of group {}", k)).unwrap_or_default(), x, gv),
                    ));
                }
            }
            obs.class("exact:checked");
            None
        }
    }
}

const EXTREME_FEATS: &[&str] = &[
    "lit:int_extreme", "lit:float_extreme", "lit:nonascii", "lit:empty_string", "lit:long_string", "limit_extreme", "offset_extreme", "div_by_zero", "missing_table", "missing_column",
    "arity:function", "arity:insert", "arity:subquery_columns", "insert_untyped", "update_untyped", "cast", "index_range", "exact", "set_op", "order_by_position", "interval_arith", "agg_extreme",
];

pub const VIEW_SHADOW_SIG: &str = "abort_or_hang.exec.probe.view_named_like_table";

/// answers of the SIGSEGV / CPU-watchdog handlers for the three phases of a case
fn arm_lines(case: &Case, obs: &Obs, view_shadows_table: bool) {
    if !segv::installed() {
        return;
    }
    let wsql = case.wild.sql();
    let wkind = stmt_kind(&wsql);
    let mk = |phase: &str| {
        let sig = if phase == "probe" && view_shadows_table { VIEW_SHADOW_SIG.to_string() } else { format!("abort.stack_overflow.exec.{}[{}]", phase, if phase == "setup" { "history" } else { wkind.as_str() }) };
        let v = Verdict::fail(sig, format!("stack overflow on the {} MiB main-thread stack while executing ({}) — wild statement: {}", segv::stack_limit() >> 20, phase, vcore::runner::truncate(&wsql, 3000)));
        serde_json::to_string(&(v, obs)).unwrap_or_default()
    };
    let fns = hang_class(&wsql);
    let hang = |phase: &str| {
        let sig = if phase == "probe" && view_shadows_table {
            VIEW_SHADOW_SIG.to_string()
        } else if phase == "wild" && fns == "trim_empty_removal" {
            "hang.cpu.exec.trim_empty_removal".to_string()
        } else {
            format!("hang.cpu.exec.{}[{}{}]", phase, if phase == "setup" { "history" } else { wkind.as_str() }, if phase == "wild" && !fns.is_empty() { format!("|{}", fns) } else { String::new() })
        };
        let v = Verdict::fail(sig, format!("no result after {} s of CPU time ({}) on tables of at most a dozen rows — wild statement: {}", CPU_BUDGET_MS / 1000, phase, vcore::runner::truncate(&wsql, 3000)));
        serde_json::to_string(&(v, obs)).unwrap_or_default()
    };
    segv::arm_with_watchdog(&[mk("setup"), mk("wild"), mk("probe")], &[hang("setup"), hang("wild"), hang("probe")], CPU_BUDGET_MS);
}

impl C24 {
    pub fn run_case(&self, case: &Case, obs: &mut Obs) -> Verdict {
        obs.excluded = case.excluded as u64;
        for f in &case.feats {
            if !f.starts_with("fn:") {
                obs.class(&format!("feat:{}", f));
            }
        }
        let mut db = Database::new();
        arm_lines(case, obs, false);
        segv::set_phase(0);
        let setup = setup_sql(case);
        let mut setup_err = 0;
        for st in &setup {
            obs.sub_evals += 1;
            match step(&mut db, st) {
                Step::Ok(_) => {}
                Step::ParseErr | Step::Err(_) => setup_err += 1,
                Step::Panic(p) => {
                    segv::disarm();
                    obs.nontrivial = true;
                    return Verdict::fail(format!("exec.{}", psig(&p)), format!("setup/history statement panicked: {}{}\nstatement: {}", p, release_note(&p), st));
                }
            }
        }
        if setup_err > 0 {
            obs.class("setup_some_statements_rejected");
        }
        let sql = case.wild.sql();
        let kind = stmt_kind(&sql);
        // taught trigger: a view named like an existing table (unbounded expansion afterwards)
        let view_shadows_table = kind == "CREATE_VIEW" && {
            let toks = crate::sqltext::tokenize(&sql);
            let name = toks.iter().map(|t| t.text.to_ascii_uppercase()).find(|w| !["CREATE", "OR", "REPLACE", "VIEW"].contains(&w.as_str())).unwrap_or_default();
            db.list_tables().iter().any(|n| n.rsplit('.').next().map(|x| x.eq_ignore_ascii_case(&name)).unwrap_or(false))
        };
        // fresh CPU budget and (now that the state is known) final answers for wild + probe
        arm_lines(case, obs, view_shadows_table);
        segv::set_phase(1);
        obs.class(&format!("wild:{}", kind));
        let extreme = case.feats.iter().any(|f| EXTREME_FEATS.contains(&f.as_str()));
        if extreme {
            obs.class("has_extreme_or_type_error");
        }
        let verdict = match &case.wild {
            Wild::Sql(_) => match step(&mut db, &sql) {
                Step::ParseErr => {
                    obs.class("wild_parse_error");
                    if let Ok(f) = std::env::var("VERIF_LOG_PARSE_ERR") {
                        use std::io::Write;
                        if let Ok(mut fh) = std::fs::OpenOptions::new().create(true).append(true).open(f) {
                            let e = vibesql_parser::Parser::parse_sql(&sql).err().map(|e| e.message).unwrap_or_default();
                            let _ = writeln!(fh, "{}\t{}", e, sql);
                        }
                    }
                    None
                }
                Step::Ok(_) => {
                    obs.class("reached_execution");
                    obs.class("wild_ok");
                    obs.nontrivial = extreme;
                    None
                }
                Step::Err(e) => {
                    obs.class("reached_execution");
                    obs.class("wild_error");
                    obs.class(&format!("err:{}", e.kind()));
                    obs.nontrivial = extreme;
                    None
                }
                Step::Panic(p) => {
                    obs.class("reached_execution");
                    obs.nontrivial = true;
                    Some(Verdict::fail(format!("exec.{}", psig(&p)), format!("statement panicked: {}{}\nstatement: {}", p, release_note(&p), sql)))
                }
            },
            _ => {
                obs.class("reached_execution");
                obs.nontrivial = true;
                check_exact(&mut db, &case.wild, obs)
            }
        };
        if let Some(v) = verdict {
            segv::disarm();
            return v;
        }
        segv::set_phase(2);
        let r = usable(&mut db, &kind);
        segv::disarm();
        match r {
            Ok(()) => Verdict::Pass,
            Err(v) => {
                obs.nontrivial = true;
                match v {
                    Verdict::Fail { sig, detail } => Verdict::Fail { sig, detail: format!("{}\nwild statement: {}", detail, sql) },
                    other => other,
                }
            }
        }
    }
}

impl C24 {
    /// Fixed small schema (libFuzzer `exec` target): only indexes, history and the wild statement
    /// come from the tape, so byte-level mutations stay local.
    pub fn build_fixed(&self, t: &mut Tape, cfg: &GenCfg) -> Case {
        let ascii = avoiding_group(cfg, "nonascii_store");
        let col = |n: &str, ty: ColTy| ColDef { name: n.to_string(), ty, not_null: false };
        let mut t0 = TableDef { name: "t0".into(), cols: vec![col("t0_a", ColTy::Int), col("t0_b", ColTy::Bigint), col("t0_c", ColTy::Varchar(12)), col("t0_d", ColTy::Double)], ..Default::default() };
        t0.pk = vec![0];
        t0.cols[0].not_null = true;
        let t1 = TableDef { name: "t1".into(), cols: vec![col("t1_a", ColTy::Smallint), col("t1_b", ColTy::Numeric(10, 2)), col("t1_c", ColTy::Char(4)), col("t1_d", ColTy::Int)], ..Default::default() };
        let s = |x: &str| V::Varchar(if ascii && !x.is_ascii() { "zz".to_string() } else { x.to_string() });
        let rows0 = vec![
            vec![V::Int(1), V::Int(i64::MAX), s("a"), V::dbl(1.5)],
            vec![V::Int(2), V::Int(i64::MIN + 1), s(""), V::dbl(1e308)],
            vec![V::Int(3), V::Null, s("aé"), V::Null],
            vec![V::Int(4), V::Int((1 << 53) + 1), s("B"), V::dbl(-0.5)],
            vec![V::Int(5), V::Int(3037000500), s("abc"), V::dbl(16777217.0)],
        ];
        let rows1 = vec![
            vec![V::Int(7), V::dbl(2.5), s("ab"), V::Int(i32::MAX as i64)],
            vec![V::Int(i16::MAX as i64), V::dbl(-99999999.99), s("日本"), V::Int(-1)],
            vec![V::Null, V::Null, V::Null, V::Null],
            vec![V::Int(0), V::dbl(0.0), s(""), V::Int(0)],
        ];
        let world = World { tables: vec![t0, t1], rows: vec![rows0, rows1] };
        self.build_rest(t, cfg, world)
    }

    /// Deterministic grid (fixed cases): every function of FUNCS applied to every combination of a
    /// few taught atoms (extreme integer / float / string literals, columns holding i64::MAX,
    /// i64::MIN, 2^53+1, '', a multi-byte string, NULL), plus CAST of every atom to every type
    /// form and every binary operator over every pair of atoms. Random sampling reaches a given
    /// (function, extreme) pair rarely; the grid reaches each once.
    pub fn grid_cases(&self, tier: Tier) -> Vec<Case> {
        let col = |n: &str, ty: ColTy| ColDef { name: n.to_string(), ty, not_null: false };
        let mut t0 = TableDef { name: "t0".into(), cols: vec![col("t0_a", ColTy::Int), col("t0_b", ColTy::Bigint), col("t0_c", ColTy::Varchar(12)), col("t0_d", ColTy::Double)], ..Default::default() };
        t0.pk = vec![0];
        t0.cols[0].not_null = true;
        let s = |x: &str| V::Varchar(x.to_string());
        let rows0 = vec![
            vec![V::Int(1), V::Int(i64::MAX), s("a"), V::dbl(1.5)],
            vec![V::Int(2), V::Int(i64::MIN), s(""), V::dbl(1e308)],
            vec![V::Int(3), V::Null, s("aé"), V::Null],
            vec![V::Int(4), V::Int((1 << 53) + 1), s("B"), V::dbl(-0.5)],
        ];
        let world = World { tables: vec![t0], rows: vec![rows0] };
        let mk = |sql: String, feats: &[&str]| Case {
            world: world.clone(),
            indexes: vec!["CREATE INDEX ix0 ON t0 (t0_b)".into()],
            history: vec![],
            wild: Wild::Sql(sql),
            feats: feats.iter().map(|x| x.to_string()).chain(["grid".to_string(), "lit:int_extreme".to_string()]).collect(),
            excluded: 0,
            raw_setup: None,
        };
        let atoms_full: &[&str] = &["0", "-1", "9223372036854775807", "t0_b", "t0_a", "1e308", "t0_d", "''", "'abc'", "'aé'", "t0_c", "NULL", "70000", "0.5"];
        let atoms_mid: &[&str] = &["0", "9223372036854775807", "t0_b", "''", "'aé'", "t0_c", "1e308", "NULL"];
        let atoms_small: &[&str] = &["9223372036854775807", "t0_b", "'aé'", "t0_c", "0"];
        let mut v = Vec::new();
        for (name, arity) in FUNCS {
            if ["CAST", "EXTRACT", "NOSUCHFUNC"].contains(name) {
                continue;
            }
            let f = format!("fn:{}", name);
            match arity {
                0 => v.push(mk(format!("SELECT {}() FROM t0", name), &[&f])),
                1 => {
                    for a in atoms_full {
                        v.push(mk(format!("SELECT {}({}) FROM t0", name, a), &[&f]));
                    }
                }
                2 => {
                    for a in atoms_mid {
                        for b in atoms_mid {
                            v.push(mk(format!("SELECT {}({}, {}) FROM t0", name, a, b), &[&f]));
                        }
                    }
                }
                _ => {
                    if tier == Tier::Thorough {
                        for a in atoms_mid {
                            for b in atoms_mid {
                                for c in atoms_mid {
                                    v.push(mk(format!("SELECT {}({}, {}, {}) FROM t0", name, a, b, c), &[&f]));
                                }
                            }
                        }
                    } else {
                        for a in atoms_small {
                            for b in atoms_small {
                                for c in atoms_small {
                                    v.push(mk(format!("SELECT {}({}, {}, {}) FROM t0", name, a, b, c), &[&f]));
                                }
                            }
                        }
                    }
                }
            }
        }
        for a in atoms_full {
            for ty in TYPES {
                v.push(mk(format!("SELECT CAST({} AS {}) FROM t0", a, ty), &["cast"]));
            }
        }
        for op in ["+", "-", "*", "/", "DIV", "||", "=", "<", "AND", "LIKE"] {
            for a in atoms_mid {
                for b in atoms_mid {
                    v.push(mk(format!("SELECT ({} {} {}) FROM t0", a, op, b), &["op:grid"]));
                }
            }
        }
        for a in atoms_full {
            v.push(mk(format!("SELECT (- {}), (+ {}), (NOT {}) FROM t0", a, a, a), &["op:grid"]));
            v.push(mk(format!("SELECT * FROM t0 WHERE t0_b BETWEEN {} AND {}", a, a), &["index_range"]));
            v.push(mk(format!("SELECT * FROM t0 WHERE t0_b > {} ORDER BY t0_b LIMIT 2", a), &["index_range"]));
            v.push(mk(format!("SELECT * FROM t0 WHERE t0_b IN ({}, 1)", a), &["index_range"]));
            v.push(mk(format!("SELECT SUM({}), AVG({}), MIN({}), MAX({}), COUNT({}) FROM t0", a, a, a, a, a), &["agg_extreme"]));
            v.push(mk(format!("SELECT SUBSTRING(t0_c FROM {} FOR {}) FROM t0", a, a), &["fn:SUBSTRING"]));
            v.push(mk(format!("UPDATE t0 SET t0_b = {}", a), &["update_untyped"]));
            v.push(mk(format!("UPDATE t0 SET t0_c = {}", a), &["update_untyped"]));
            v.push(mk(format!("INSERT INTO t0 VALUES (9, {}, {}, {})", a, a, a), &["insert_untyped"]));
            v.push(mk(format!("SELECT t0_a FROM t0 LIMIT {}", a), &["limit_extreme"]));
            v.push(mk(format!("SELECT t0_a FROM t0 ORDER BY t0_a LIMIT 1 OFFSET {}", a), &["offset_extreme"]));
        }
        v
    }

    fn build_rest(&self, t: &mut Tape, cfg: &GenCfg, world: World) -> Case {
        let no_arith = avoiding_group(cfg, "int_overflow");
        let ascii_only = avoiding_group(cfg, "nonascii_store");
        let tame_sum = no_arith || avoiding_group(cfg, "sum_extreme");
        let mut excluded = no_arith as u32 + ascii_only as u32;
        let table_has_extreme = |tb: usize| world.rows[tb].iter().flatten().any(|v| matches!(v, V::Int(i) if i.unsigned_abs() >= (1 << 31)));
        let table_small = |tb: usize| world.rows[tb].iter().flatten().all(|v| !matches!(v, V::Int(i) if i.unsigned_abs() > 1000));
        let world_int_extreme = (0..world.tables.len()).any(table_has_extreme);
        let world_nonascii = world.rows.iter().flatten().flatten().any(|v| matches!(v, V::Varchar(s) if !s.is_ascii()));
        // indexes
        let mut indexes = Vec::new();
        let mut index_cols: Vec<(String, String)> = Vec::new();
        let ni = t.weighted(&[3, 4, 2]);
        for i in 0..ni {
            let tb = &world.tables[t.below(world.tables.len())];
            let c = &tb.cols[t.below(tb.cols.len())];
            let second = if tb.cols.len() > 1 && t.chance(1, 5) { format!(", {}", tb.cols[t.below(tb.cols.len())].name) } else { String::new() };
            indexes.push(format!("CREATE {}INDEX ix{} ON {} ({}{}{})", if t.chance(1, 5) { "UNIQUE " } else { "" }, i, tb.name, c.name, if t.chance(1, 5) { " DESC" } else { "" }, second));
            index_cols.push((tb.name.clone(), c.name.clone()));
        }
        // history from the typed grammar
        let mut history = Vec::new();
        {
            let g = Gen::new(&world, ExprOpts { float: true, arith: !no_arith, ..Default::default() });
            let nh = t.weighted(&[3, 3, 2, 1]);
            for _ in 0..nh {
                let ti = t.below(world.tables.len());
                let tab = &world.tables[ti];
                let scope = g.table_scope(ti, None);
                let st = match t.weighted(&[3, 3, 2, 1, 1, 1]) {
                    0 => {
                        let row: Vec<V> = tab.cols.iter().map(|c| gen_cell(t, &c.ty, 2)).collect();
                        insert_sql(&tab.name, None, std::slice::from_ref(&row), Dialect::Vibe)
                    }
                    1 => {
                        let c = &tab.cols[t.below(tab.cols.len())];
                        format!("UPDATE {} SET {} = {} WHERE {}", tab.name, c.name, g.expr(t, &scope, c.ty.ty(), 2).render(Dialect::Vibe), g.pred(t, &scope, 1).render(Dialect::Vibe))
                    }
                    2 => format!("DELETE FROM {} WHERE {}", tab.name, g.pred(t, &scope, 1).render(Dialect::Vibe)),
                    3 => t.pick(&["BEGIN", "SAVEPOINT s1", "BEGIN", "COMMIT"]).to_string(),
                    4 => format!("ALTER TABLE {} ADD COLUMN h{} INTEGER", tab.name, t.below(2)),
                    _ => format!("CREATE VIEW v{} AS SELECT * FROM {}", t.below(2), tab.name),
                };
                history.push(st);
            }
        }
        let tabs: Vec<Tab> = world.tables.iter().map(|tb| Tab { name: tb.name.clone(), cols: tb.cols.iter().map(|c| (c.name.clone(), c.ty.clone())).collect() }).collect();
        let mut tries = 0;
        let (wild, feats) = loop {
            let mut w = W { tabs: &tabs, index_cols: &index_cols, feats: Vec::new() };
            if world_int_extreme {
                w.feat("world:int_extreme");
            }
            if world_nonascii {
                w.feat("world:nonascii");
            }
            let forced: Option<usize> = std::env::var("VERIF_C24_WILD").ok().and_then(|s| s.parse().ok());
            let pick = t.weighted(&[6, 3, 3, 2, 3, 3, 2]);
            let wild = match forced.unwrap_or(pick) {
                0 => Wild::Sql(w.select(t)),
                1 => Wild::Sql(w.index_range(t)),
                2 => Wild::Sql(w.dml(t)),
                3 => Wild::Sql(w.ddl(t)),
                4 => Wild::Sql(w.misc(t)),
                5 => {
                    w.feat("exact");
                    w.feat("exact:expr");
                    let ti = t.below(world.tables.len());
                    let ic = int_cols(&world.tables[ti]);
                    let use_table = !ic.is_empty() && t.chance(3, 4) && !(no_arith && !table_small(ti));
                    let cols = if use_table { ic } else { vec![] };
                    let e = if no_arith { gen_iexpr_small(t, cols.len(), 2) } else { gen_iexpr(t, cols.len(), 3) };
                    if e.has_extreme() {
                        w.feat("lit:int_extreme");
                    }
                    Wild::ExactExpr { table: if use_table { Some(world.tables[ti].name.clone()) } else { None }, cols, expr: e }
                }
                _ => {
                    w.feat("exact");
                    w.feat("exact:sum");
                    let ti = t.below(world.tables.len());
                    let ic = int_cols(&world.tables[ti]);
                    if ic.is_empty() || (tame_sum && table_has_extreme(ti)) {
                        Wild::Sql(w.select(t))
                    } else {
                        let e = if t.chance(1, 2) { IExpr::Col(t.below(ic.len())) } else if no_arith { gen_iexpr_small(t, ic.len(), 2) } else { gen_iexpr(t, ic.len(), 2) };
                        let group = if t.chance(1, 3) { Some(ic[t.below(ic.len())].clone()) } else { None };
                        if group.is_some() {
                            w.feat("exact:sum_group_by");
                        }
                        Wild::ExactSum { table: world.tables[ti].name.clone(), cols: ic, expr: e, group }
                    }
                }
            };
            let feats = w.feats;
            if triggers_hit(cfg, &feats) && tries < 8 {
                tries += 1;
                excluded += 1;
                continue;
            }
            if triggers_hit(cfg, &feats) {
                break (Wild::Sql("SELECT 1".into()), vec!["gave_up_avoiding".to_string()]);
            }
            break (wild, feats);
        };
        Case { world, indexes, history, wild, feats, excluded, raw_setup: None }
    }
}

fn triggers_hit(cfg: &GenCfg, feats: &[String]) -> bool {
    let has = |need: &[&str]| need.iter().all(|n| feats.iter().any(|f| f == n));
    KNOWN_TRIGGERS.iter().any(|(sig, need)| cfg.avoiding(sig) && has(need)) || GROUP_TRIGGERS.iter().any(|(g, need)| avoiding_group(cfg, g) && has(need))
}

impl Check for C24 {
    type Case = Case;
    fn id(&self) -> &'static str {
        "C24"
    }
    fn rule(&self) -> String {
        "world = 1-3 tables x 2-4 columns (INTEGER/BIGINT/SMALLINT/VARCHAR/CHAR/DOUBLE/REAL/NUMERIC, optional PK) x 0-8 rows from vcore::sql::gen with one cell in six replaced by a taught extreme \
         (i64/i32/i16 bounds, 2^53+1, sqrt(i64::MAX), 1e308, empty / multi-byte strings), 0-2 CREATE [UNIQUE] INDEX, history of 0-3 well-typed INSERT/UPDATE/DELETE/DDL/transaction statements, then ONE wild \
         statement built without typing discipline: SELECT with arbitrary operand types, 80 functions with arity off by one, CAST to 26 type forms, SUBSTRING/TRIM/POSITION/INTERVAL/window forms, \
         LIMIT/OFFSET/ORDER BY position at extremes, range predicates on indexed columns with bounds at the extremes, aggregates over extreme values, division/MOD by zero, INSERT with wrong arity or \
         types, UPDATE/DELETE, DDL on existing/missing objects, set operations with mismatching arity, transactions; or a typed integer expression over + - * and unary minus (literals <= i64::MAX and integer columns) \
         / SUM over such an expression with optional GROUP BY, evaluated exactly in i128 by the harness. Fixed cases: a deterministic grid over a 4-row table holding i64::MAX, i64::MIN, 2^53+1, NULL, '', a \
         multi-byte string and 1e308: every function x every combination of 5-14 taught atoms (arity 0-3), CAST of every atom to each of the 26 type forms, 10 binary operators over all atom pairs, unary operators, \
         index range / aggregate / SUBSTRING / UPDATE / INSERT / LIMIT / OFFSET with every atom (about 4 000 cases quick, 7 000 thorough). Oracle: every statement returns Ok/Err (panic => failure with file+message signature); afterwards \
         SELECT COUNT(*) on every table and CREATE TABLE/INSERT/SELECT on a fresh table succeed; integer expressions and SUM return the exact value, an exactly equal float, NULL or an error. \
         Non-trivial = the wild statement parsed and reached the executor and carries a taught extreme or a deliberate type/arity/missing-object error (or is an exactness case). Distinct = hash of the case."
            .into()
    }
    fn assumptions(&self) -> Vec<String> {
        vec![
            "build profile `verif`: overflow checks and debug assertions are ON, so an unchecked integer overflow shows up as a panic here; a plain release build would continue with the wrapped value (stated in each finding)".into(),
            "statements go through vcore::engine::exec_stmt (the dispatcher mirrored from the repo's CLI/server/sqllogictest adapters) on the worker's main thread (8 MiB stack)".into(),
            "exactness model reads the stored integer values through the storage API (Table::scan), not through the executor under test".into(),
            "clock-dependent functions (CURRENT_DATE/TIME/TIMESTAMP, NOW, CURTIME) are not generated: the oracle must be a pure function of the case".into(),
            "watchdog: 20 s of main-thread CPU time per phase inside the worker (ITIMER_PROF + thread CPU clock => hang.cpu.*; independent of machine load), plus vcore's wall-clock watchdog (120 s, confirmed twice with 240 s => hang)".into(),
        ]
    }
    fn cases(&self, tier: Tier) -> u64 {
        match tier {
            Tier::Quick => 40_000,
            Tier::Thorough => 600_000, // ~5 min on 14 workers (unloaded machine), plus <= 10 min libFuzzer (prepare)
        }
    }
    fn tape_len(&self, _t: Tier) -> usize {
        700
    }
    fn isolated(&self) -> bool {
        true
    }
    fn timeout_s(&self) -> u64 {
        120
    }
    fn floors(&self) -> Vec<(&'static str, f64)> {
        vec![("reached_execution", 0.5), ("has_extreme_or_type_error", 0.4), ("exact:checked", 0.03)]
    }
    fn build(&self, t: &mut Tape, cfg: &GenCfg) -> Case {
        let mut world = gen_world(t, &WorldCfg { profile: Profile::IntStrFloat, max_rows: 8, pk_chance: (1, 3), not_null_chance: (1, 4), ..Default::default() });
        spice_world(t, &mut world, avoiding_group(cfg, "nonascii_store"));
        self.build_rest(t, cfg, world)
    }
    fn fixed_cases(&self, tier: Tier) -> Vec<Case> {
        self.grid_cases(tier)
    }
    fn prepare(&self, args: &vcore::Args) -> Result<(), String> {
        // thorough: bounded libFuzzer run of the `exec` target; artifacts become replay files
        crate::fuzzbridge::prepare_thorough(&crate::fuzzbridge::FuzzPlan { id: "C24", target: "exec", runs: 400_000, max_total_time_s: 600, timeout_s: 20 }, args)
    }
    fn extra_coverage(&self) -> serde_json::Map<String, serde_json::Value> {
        crate::fuzzbridge::coverage()
    }
    fn render(&self, c: &Case) -> String {
        let mut s = setup_sql(c).join(";\n");
        s.push_str(";\n-- wild statement:\n");
        s.push_str(&c.wild.sql());
        s.push_str(&format!("\n-- features: {}", c.feats.join(",")));
        s
    }
    fn run(&self, case: &Case, obs: &mut Obs) -> Verdict {
        let t0 = cpu_ms();
        let m0 = segv::main_thread_cpu_ms();
        let w0 = std::time::Instant::now();
        let v = self.run_case(case, obs);
        let used = cpu_ms().saturating_sub(t0);
        let used_main = segv::main_thread_cpu_ms().saturating_sub(m0);
        if used > 1000 && segv::installed() && std::env::var("VERIF_LOG_SLOW").is_ok() {
            // dev aid (VERIF_LOG_SLOW=1): which statements are slow without hanging => evidence/C24.slow.log
            let root = std::env::var("VERIF_ROOT").unwrap_or_else(|_| "/verif".into());
            use std::io::Write;
            if let Ok(mut fh) = std::fs::OpenOptions::new().create(true).append(true).open(std::path::Path::new(&root).join("evidence").join("C24.slow.log")) {
                let _ = writeln!(fh, "{} ms cpu (main thread {} ms, wall {} ms)\t{}\t{}", used, used_main, w0.elapsed().as_millis(), vcore::runner::truncate(&case.wild.sql(), 4000), if used > 5000 { serde_json::to_string(case).unwrap_or_default() } else { String::new() });
            }
        }
        if segv::installed() {
            crate::log_unknown_failure("C24", &v, case);
        }
        v
    }
}
