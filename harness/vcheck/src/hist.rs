//! History runner shared by C09 / C10 / C11 / C12 / C15: every statement is applied to the
//! engine and to the executable model; the relations of the property in focus produce
//! failures, deviations that belong to another property are counted and the model is
//! re-synchronised with the engine so that the history can go on.

use crate::agg::{AExpr, APred};
use crate::dml::*;
use serde::{Deserialize, Serialize};
use vcore::engine;
use vcore::sql::ir::BinOp;
use vcore::val::V;
use vcore::{Obs, Tape, Verdict};

#[derive(Clone, Debug, Serialize, Deserialize)]
pub struct HCase {
    pub specs: Vec<TSpec>,
    pub stmts: Vec<Stmt>,
    /// hand-written regression scenario (overrides specs/stmts)
    #[serde(default)]
    pub scenario: Option<vcore::scenario::Scenario>,
}

#[derive(Clone, Copy, Debug, PartialEq, Eq)]
pub enum Focus {
    C09,
    C10,
    C11,
    C12,
    C15,
}
impl Focus {
    fn id(self) -> &'static str {
        match self {
            Focus::C09 => "c09",
            Focus::C10 => "c10",
            Focus::C11 => "c11",
            Focus::C12 => "c12",
            Focus::C15 => "c15",
        }
    }
}

fn stmt_kind(s: &Stmt) -> &'static str {
    match s {
        Stmt::Insert { rows, .. } => {
            if rows.len() > 1 {
                "insert_multi"
            } else {
                "insert"
            }
        }
        Stmt::InsertSelect { .. } => "insert_select",
        Stmt::Update { .. } => "update",
        Stmt::Delete { where_: None, .. } => "delete_all",
        Stmt::Delete { .. } => "delete",
        Stmt::Truncate { .. } => "truncate",
        Stmt::Replace { .. } => "replace",
        Stmt::Upsert { .. } => "upsert",
        Stmt::CreateIndex { .. } => "create_index",
        Stmt::DropIndex { .. } => "drop_index",
        _ => "txn",
    }
}

fn where_shape(s: &Stmt, specs: &[TSpec]) -> &'static str {
    let (t, w) = match s {
        Stmt::Update { t, where_, .. } | Stmt::Delete { t, where_ } => (*t, where_),
        _ => return "",
    };
    match w {
        None => ".nowhere",
        Some(APred::Cmp(AExpr::Col(c), BinOp::Eq, AExpr::Lit(_))) | Some(APred::Cmp(AExpr::Lit(_), BinOp::Eq, AExpr::Col(c))) if specs[t].pk == vec![*c] => ".pk_eq",
        _ => "",
    }
}

pub fn gen_history(t: &mut Tape, c: &DmlCfg, max_stmts: usize) -> HCase {
    let specs = gen_specs(t, c);
    let mut state: Vec<Rows> = vec![Vec::new(); specs.len()];
    let mut next_key = 1i64;
    let mut stmts = Vec::new();
    // initial load: a few multi-row inserts per table, parents first
    for ti in 0..specs.len() {
        let n = match t.weighted(&[6, 1, 2]) {
            0 => t.range(2, c.max_rows as i64) as usize,
            1 => 0,
            _ => 1,
        };
        let mut rows = Vec::new();
        for _ in 0..n {
            rows.push(gen_row(t, &specs, &state, ti, &mut next_key));
        }
        for chunk in rows.chunks(4) {
            let s = Stmt::Insert { t: ti, rows: chunk.to_vec() };
            if let Ok(o) = model_apply(&specs, &state, &s) {
                state = o.state;
            }
            stmts.push(s);
        }
    }
    let n = t.range(1, max_stmts as i64) as usize;
    for _ in 0..n {
        let mut s = gen_stmt(t, &specs, &state, c, &mut next_key);
        // Self-referencing foreign keys: rows only ever point at earlier rows (a forest) as long
        // as neither the key nor the referencing column is updated; cycles would make the
        // engine's recursive referential actions (and the model's) run away.
        if let Stmt::Update { t: ti, sets, where_ } = &s {
            if specs[*ti].fks.iter().any(|f| f.parent == *ti && sets.iter().any(|(c, _)| *c == f.col || *c == f.pcol)) {
                s = Stmt::Delete { t: *ti, where_: where_.clone() };
            }
        }
        // the generator follows the model so that later statements see plausible data
        if let Ok(o) = model_apply(&specs, &state, &s) {
            state = o.state;
        }
        stmts.push(s);
    }
    HCase { specs, stmts, scenario: None }
}

pub fn render(case: &HCase) -> String {
    if let Some(sc) = &case.scenario {
        return sc.steps.iter().map(|s| s.sql.clone()).collect::<Vec<_>>().join(";\n");
    }
    let mut v = setup_sql(&case.specs);
    for s in &case.stmts {
        v.push(stmt_sql(s, &case.specs));
    }
    v.join(";\n")
}

fn read_engine_state(db: &vibesql_storage::Database, specs: &[TSpec]) -> Vec<Rows> {
    specs.iter().map(|s| db.get_table(&s.name).map(|t| t.scan().iter().map(|r| r.values.iter().map(V::from_sql).collect()).collect()).unwrap_or_default()).collect()
}

pub fn run_history(case: &HCase, focus: Focus, obs: &mut Obs) -> Verdict {
    if let Some(sc) = &case.scenario {
        obs.nontrivial = true;
        obs.class("scenario_regression_input");
        return match vcore::scenario::run(sc) {
            Ok(()) => Verdict::Pass,
            Err(d) => Verdict::fail(format!("{}.scenario.{}", focus.id(), sc.name), d),
        };
    }
    let specs = &case.specs;
    let mut db = vibesql_storage::Database::new();
    for st in setup_sql(specs) {
        if let Err(e) = engine::exec(&mut db, &st) {
            // a schema the engine refuses is outside the domain (e.g. FK to a non-key column)
            obs.class("schema_rejected");
            obs.class(&format!("schema_rejected:{}", vcore::runner::truncate(&e.text(), 60)));
            return Verdict::Pass;
        }
    }
    let live: Vec<Vec<bool>> = specs.iter().map(|s| vec![true; s.indexes.len()]).collect();
    let mut state: Vec<Rows> = vec![Vec::new(); specs.len()];
    let mut log: Vec<String> = Vec::new();
    let id = focus.id();
    let mut interesting = false;
    // returns Some(verdict) when the failure is fatal for this run
    macro_rules! report {
        ($prop:expr, $sig:expr, $detail:expr) => {{
            let sig: String = $sig;
            if $prop == focus {
                if vcore::kf::is_open_global(&sig) {
                    let stop = sig.ends_with(".self_reference") || sig.ends_with(".two_fks_same_parent");
                    if !obs.known_hits.contains(&sig) {
                        obs.known_hits.push(sig);
                    }
                    if stop {
                        // the engine's state is now wrong in a recorded way: later deviations
                        // of this history would only be consequences
                        obs.class("stopped_after_known_self_reference_defect");
                        obs.nontrivial = true;
                        return Verdict::Pass;
                    }
                } else {
                    return Verdict::fail(sig, format!("{}\n--- history so far ---\n{}", $detail, log.join(";\n")));
                }
            } else {
                obs.class(&format!("other_property:{}", $prop.id()));
            }
        }};
    }
    for s in &case.stmts {
        let sql = stmt_sql(s, specs);
        log.push(sql.clone());
        obs.sub_evals += 1;
        let kind = stmt_kind(s);
        // statements on a table with a self-referencing FOREIGN KEY (recorded defects: the cascade
        // works on stale row positions of the same table)
        // (referential actions started by a statement on another table can reach such a table too,
        // so the whole schema is looked at)
        let schema_self_ref = specs.iter().enumerate().any(|(i, sp)| sp.fks.iter().any(|f| f.parent == i));
        let stmt_self_ref = schema_self_ref && matches!(s, Stmt::Delete { .. } | Stmt::Update { .. } | Stmt::Truncate { .. });
        let schema_two_fks = specs.iter().any(|sp| sp.fks.iter().any(|f| sp.fks.iter().filter(|g| g.parent == f.parent).count() >= 2));
        let stmt_two_fks = schema_two_fks && matches!(s, Stmt::Delete { .. } | Stmt::Update { .. });
        let stmt_sfx = if stmt_self_ref {
            ".self_reference"
        } else if stmt_two_fks {
            ".two_fks_same_parent"
        } else {
            ""
        };
        let pre = state.clone();
        let opaque = matches!(s, Stmt::Replace { .. } | Stmt::Upsert { .. });
        let m = model_apply(specs, &state, s);
        let e = match vcore::runner::catch(|| engine::exec(&mut db, &sql)) {
            Ok(r) => r,
            Err(p) => Err(engine::ExecErr::Exec(format!("Panic {}", p))),
        };
        if opaque {
            // no model of the statement's effect: a failure must change nothing, a success is
            // taken over from the engine; the invariants below judge the resulting state
            obs.class(&format!("opaque:{}:{}", kind, if e.is_ok() { "ok" } else { "err" }));
            if let Err(err) = &e {
                if let Err(d) = state_matches(&db, specs, &pre) {
                    report!(Focus::C11, format!("c11.changed_on_error.{}.rejected", kind), format!("`{}` failed ({}) but changed the database:\n{}", sql, err.text(), d));
                }
            } else {
                interesting = true;
            }
            state = read_engine_state(&db, specs);
        }
        let fk_involved = match s {
            Stmt::Insert { t, .. } | Stmt::Update { t, .. } | Stmt::Delete { t, .. } | Stmt::Truncate { t } | Stmt::InsertSelect { t, .. } => {
                !specs[*t].fks.is_empty() || specs.iter().any(|sp| sp.fks.iter().any(|f| f.parent == *t))
            }
            _ => false,
        };
        match (&m, &e) {
            _ if opaque => {}
            (Ok(o), Ok(out)) => {
                let ecount = match out {
                    engine::Out::Count(n) => Some(*n),
                    _ => None,
                };
                state = o.state.clone();
                let mut bad: Option<String> = None;
                // with a self-referencing FOREIGN KEY the statement's own rows and the cascaded rows
                // live in the same table: which of them the count covers is not defined
                let self_ref = match s {
                    Stmt::Delete { t, .. } | Stmt::Update { t, .. } => specs[*t].fks.iter().any(|f| f.parent == *t),
                    _ => false,
                };
                if let (Some(n), false) = (ecount, self_ref) {
                    // TRUNCATE / DELETE counts and cascaded effects: the reported count is the statement's own rows
                    if n != o.count {
                        bad = Some(format!("statement `{}` reports {} rows, the definition gives {}", sql, n, o.count));
                    }
                }
                if let Err(d) = state_matches(&db, specs, &state) {
                    bad = Some(format!("after `{}`:\n{}", sql, d));
                }
                if let Some(d) = bad {
                    let shape = where_shape(s, specs);
                    if fk_involved {
                        let self_sfx = stmt_sfx;
                        // one signature per recorded root cause, whatever statement kind exposes it
                        report!(Focus::C12, if self_sfx.is_empty() { format!("c12.effect.{}", kind) } else { format!("c12{}", self_sfx) }, d);
                    } else {
                        report!(Focus::C09, format!("c09.effect.{}{}", kind, shape), d);
                    }
                    state = read_engine_state(&db, specs);
                } else if o.count > 0 {
                    interesting = true;
                }
            }
            (Ok(_), Err(err)) => {
                // the engine may legitimately be stricter (row-at-a-time checking); the statement
                // must then have had no effect
                obs.class("engine_rejects_legal_statement");
                // tolerated only for UPDATEs that can hit a transient duplicate while rows are
                // validated one at a time; every other refusal of a legal statement is a failure
                let transient_dup_possible = matches!(s, Stmt::Update { t, sets, .. } if sets.iter().any(|(c, _)| {
                    specs[*t].pk.contains(c) || specs[*t].uniques.iter().any(|u| u.contains(c)) || specs[*t].indexes.iter().any(|(_, cols, uq)| *uq && cols.contains(c))
                })) && err.text().contains("onstraint");
                if !transient_dup_possible {
                    report!(Focus::C09, format!("c09.rejects_legal.{}.{}", kind, err.kind()), format!("`{}` is legal (the definition applies it to {} rows) but the engine refused it: {}", sql, m.as_ref().map(|o| o.count).unwrap_or(0), err.text()));
                }
                if let Err(d) = state_matches(&db, specs, &pre) {
                    report!(Focus::C11, format!("c11.changed_on_error.{}.legal_statement", kind), format!("`{}` failed ({}) but changed the database:\n{}", sql, err.text(), d));
                    state = read_engine_state(&db, specs);
                } else {
                    state = pre.clone();
                }
            }
            (Err(rej), Err(err)) => {
                obs.class(&format!("rejected:{}", rej.name()));
                interesting = true;
                if let Err(d) = state_matches(&db, specs, &pre) {
                    report!(Focus::C11, format!("c11.changed_on_error.{}.{}", kind, rej.name()), format!("`{}` failed ({}) but changed the database:\n{}", sql, err.text(), d));
                    state = read_engine_state(&db, specs);
                } else {
                    state = pre.clone();
                }
            }
            (Err(rej), Ok(_)) => {
                let d = format!("`{}` must be rejected ({}) but succeeded", sql, rej.name());
                match rej {
                    Reject::ForeignKey | Reject::Restrict => report!(Focus::C12, format!("c12.accepted.{}.{}", rej.name(), kind), d),
                    _ => report!(Focus::C10, format!("c10.accepted.{}.{}", rej.name(), kind), d),
                }
                // The other properties presuppose that declared constraints hold; once the engine has
                // accepted a violating statement their oracles no longer apply to this history.
                let own = matches!((rej, focus), (Reject::ForeignKey | Reject::Restrict, Focus::C12)) || focus == Focus::C10;
                if !own {
                    obs.class("stopped_after_accepted_violation");
                    obs.nontrivial = interesting && case.stmts.len() >= 3;
                    return Verdict::Pass;
                }
                state = read_engine_state(&db, specs);
            }
        }
        // invariants on the engine's own state after every statement
        if let Some((rej, d)) = engine_violates(&db, specs, &live) {
            let sig = if opaque { format!("c10.invariant.{}.after_{}", rej.name(), kind) } else { format!("c10.invariant.{}", rej.name()) };
            report!(Focus::C10, sig, format!("after `{}` a declared constraint does not hold: {}", sql, d));
            if opaque {
                // known defect of the upsert path: everything later in this history is a consequence
                obs.class("stopped_after_known_upsert_defect");
                obs.nontrivial = interesting && case.stmts.len() >= 3;
                return Verdict::Pass;
            }
        }
        if specs.iter().any(|s| !s.fks.is_empty()) {
            let es = read_engine_state(&db, specs);
            if let Some(d) = orphans(specs, &es) {
                let sfx = stmt_sfx;
                let sig = if !sfx.is_empty() {
                    format!("c12{}", sfx)
                } else if e.is_err() {
                    format!("c12.orphan.after_failed_{}", kind)
                } else {
                    format!("c12.orphan.after_{}", kind)
                };
                report!(Focus::C12, sig, format!("after `{}` ({}): {}", sql, if e.is_err() { "which returned an error" } else { "which succeeded" }, d));
                // the history continues from the engine's actual state
                state = es;
            }
        }
        // ON DUPLICATE KEY UPDATE has recorded defects (no constraint validation, no index
        // maintenance): once one has run successfully, later deviations are consequences of it
        // (a failed one may have applied some of its rows before failing, with the same gaps)
        if matches!(s, Stmt::Upsert { .. }) && vcore::kf::open_sigs().iter().any(|k| k.ends_with(".after_upsert")) {
            if focus == Focus::C15 {
                if let Some(d) = index_mirror(&db, specs, &live) {
                    report!(Focus::C15, format!("c15.mirror.after_{}", kind), format!("after `{}`: {}", sql, d));
                }
            }
            obs.class("stopped_after_upsert_with_open_findings");
            obs.nontrivial = interesting && case.stmts.len() >= 3;
            return Verdict::Pass;
        }
        if focus == Focus::C15 {
            if let Some(d) = index_mirror(&db, specs, &live) {
                report!(Focus::C15, format!("c15.mirror.after_{}", kind), format!("after `{}`: {}", sql, d));
                if opaque {
                    obs.class("stopped_after_known_upsert_defect");
                    obs.nontrivial = interesting && case.stmts.len() >= 3;
                    return Verdict::Pass;
                }
            }
        }
    }
    obs.nontrivial = interesting && case.stmts.len() >= 3;
    Verdict::Pass
}
