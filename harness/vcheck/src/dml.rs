//! Shared machinery for the DML / constraint / transaction properties (C09-C15): a small
//! schema + statement IR, an executable model of statement effects (atomic, final-state
//! constraint checking, foreign-key actions), and a history runner that compares the engine
//! with the model after every statement.

use crate::agg::{eval, holds, AExpr, APred, ATable, MV};
use serde::{Deserialize, Serialize};
use vcore::engine;
use vcore::sql::ir::{lit_sql, BinOp, ColTy, Dialect, FkAction};
use vcore::val::{CRow, CV, V};
use vcore::Tape;

#[derive(Clone, Debug, Serialize, Deserialize)]
pub struct Fk {
    pub col: usize,
    pub parent: usize,
    pub pcol: usize,
    pub on_delete: FkAction,
    pub on_update: FkAction,
    /// written as a column-level `REFERENCES` clause instead of a table-level FOREIGN KEY
    #[serde(default)]
    pub inline: bool,
}

#[derive(Clone, Debug, Serialize, Deserialize)]
pub struct TSpec {
    pub name: String,
    pub cols: Vec<(String, ColTy)>,
    pub not_null: Vec<bool>,
    pub pk: Vec<usize>,
    pub uniques: Vec<Vec<usize>>,
    /// CHECK (col op literal) style predicates over this table's columns
    pub checks: Vec<APred>,
    pub fks: Vec<Fk>,
    /// user-defined indexes: (name, columns, unique)
    pub indexes: Vec<(String, Vec<usize>, bool)>,
}

impl TSpec {
    pub fn atable(&self, rows: &[Vec<V>]) -> ATable {
        ATable { cols: self.cols.clone(), rows: rows.to_vec() }
    }
    pub fn create_sql(&self, all: &[TSpec]) -> String {
        let shell = self.atable(&[]);
        let mut parts: Vec<String> = self
            .cols
            .iter()
            .enumerate()
            .map(|(i, (n, t))| {
                let inline = self
                    .fks
                    .iter()
                    .find(|f| f.inline && f.col == i && all[f.parent].name != self.name)
                    .map(|f| format!(" REFERENCES {} ({}) ON DELETE {} ON UPDATE {}", all[f.parent].name, all[f.parent].cols[f.pcol].0, f.on_delete.sql(), f.on_update.sql()))
                    .unwrap_or_default();
                format!("{} {}{}{}", n, t.sql(), if self.not_null[i] { " NOT NULL" } else { "" }, inline)
            })
            .collect();
        if !self.pk.is_empty() {
            parts.push(format!("PRIMARY KEY ({})", self.pk.iter().map(|&i| self.cols[i].0.clone()).collect::<Vec<_>>().join(", ")));
        }
        for u in &self.uniques {
            parts.push(format!("UNIQUE ({})", u.iter().map(|&i| self.cols[i].0.clone()).collect::<Vec<_>>().join(", ")));
        }
        for c in &self.checks {
            parts.push(format!("CHECK ({})", c.render(&shell)));
        }
        // a FOREIGN KEY naming the table being created is refused by CREATE TABLE: self references
        // are added by ALTER TABLE in setup_sql
        for f in self.fks.iter().filter(|f| !f.inline && all[f.parent].name != self.name) {
            parts.push(format!(
                "FOREIGN KEY ({}) REFERENCES {} ({}) ON DELETE {} ON UPDATE {}",
                self.cols[f.col].0,
                all[f.parent].name,
                all[f.parent].cols[f.pcol].0,
                f.on_delete.sql(),
                f.on_update.sql()
            ));
        }
        format!("CREATE TABLE {} ({})", self.name, parts.join(", "))
    }
    pub fn index_sql(&self, k: usize) -> String {
        let (n, cols, uniq) = &self.indexes[k];
        format!("CREATE {}INDEX {} ON {} ({})", if *uniq { "UNIQUE " } else { "" }, n, self.name, cols.iter().map(|&i| self.cols[i].0.clone()).collect::<Vec<_>>().join(", "))
    }
}

#[derive(Clone, Debug, Serialize, Deserialize)]
pub enum Stmt {
    Insert { t: usize, rows: Vec<Vec<V>> },
    /// INSERT INTO t SELECT * FROM t WHERE p (ids shifted by a constant to stay unique is not possible in SQL text, so
    /// this is used on tables without keys)
    InsertSelect { t: usize, where_: Option<APred> },
    Update { t: usize, sets: Vec<(usize, AExpr)>, where_: Option<APred> },
    Delete { t: usize, where_: Option<APred> },
    Truncate { t: usize },
    Begin,
    Commit,
    Rollback,
    Savepoint(String),
    RollbackTo(String),
    Release(String),
    CreateIndex { t: usize, k: usize },
    DropIndex { t: usize, k: usize },
    /// REPLACE INTO t VALUES ...: executed on the engine only (no model of its effect); the
    /// invariants (constraints, index mirror) are checked afterwards and the model re-reads the state
    Replace { t: usize, rows: Vec<Vec<V>> },
    /// INSERT INTO t VALUES ... ON DUPLICATE KEY UPDATE col = literal (same treatment)
    Upsert { t: usize, rows: Vec<Vec<V>>, set: (usize, V) },
}

pub fn stmt_sql(s: &Stmt, specs: &[TSpec]) -> String {
    match s {
        Stmt::Insert { t, rows } => vcore::sql::ir::insert_sql(&specs[*t].name, None, rows, Dialect::Vibe),
        Stmt::InsertSelect { t, where_ } => {
            let sh = specs[*t].atable(&[]);
            format!("INSERT INTO {} SELECT * FROM {}{}", specs[*t].name, specs[*t].name, where_.as_ref().map(|w| format!(" WHERE {}", w.render(&sh))).unwrap_or_default())
        }
        Stmt::Update { t, sets, where_ } => {
            let sh = specs[*t].atable(&[]);
            format!(
                "UPDATE {} SET {}{}",
                specs[*t].name,
                sets.iter().map(|(c, e)| format!("{} = {}", specs[*t].cols[*c].0, e.render(&sh))).collect::<Vec<_>>().join(", "),
                where_.as_ref().map(|w| format!(" WHERE {}", w.render(&sh))).unwrap_or_default()
            )
        }
        Stmt::Delete { t, where_ } => {
            let sh = specs[*t].atable(&[]);
            format!("DELETE FROM {}{}", specs[*t].name, where_.as_ref().map(|w| format!(" WHERE {}", w.render(&sh))).unwrap_or_default())
        }
        Stmt::Truncate { t } => format!("TRUNCATE TABLE {}", specs[*t].name),
        Stmt::Begin => "BEGIN".into(),
        Stmt::Commit => "COMMIT".into(),
        Stmt::Rollback => "ROLLBACK".into(),
        Stmt::Savepoint(n) => format!("SAVEPOINT {}", n),
        Stmt::RollbackTo(n) => format!("ROLLBACK TO SAVEPOINT {}", n),
        Stmt::Release(n) => format!("RELEASE SAVEPOINT {}", n),
        Stmt::Replace { t, rows } => vcore::sql::ir::insert_sql(&specs[*t].name, None, rows, Dialect::Vibe).replacen("INSERT INTO", "REPLACE INTO", 1),
        Stmt::Upsert { t, rows, set } => format!("{} ON DUPLICATE KEY UPDATE {} = {}", vcore::sql::ir::insert_sql(&specs[*t].name, None, rows, Dialect::Vibe), specs[*t].cols[set.0].0, vcore::sql::ir::bare_lit(&set.1, Dialect::Vibe)),
        Stmt::CreateIndex { t, k } => specs[*t].index_sql(*k),
        Stmt::DropIndex { t, k } => format!("DROP INDEX {}", specs[*t].indexes[*k].0),
    }
}

// ---------------------------------------------------------------------------------------------
// model

pub type Rows = Vec<Vec<V>>;

#[derive(Clone, Debug, PartialEq)]
pub enum Reject {
    NotNull,
    PrimaryKey,
    Unique,
    Check,
    ForeignKey,
    Restrict,
    Type,
}
impl Reject {
    pub fn name(&self) -> &'static str {
        match self {
            Reject::NotNull => "not_null",
            Reject::PrimaryKey => "primary_key",
            Reject::Unique => "unique",
            Reject::Check => "check",
            Reject::ForeignKey => "foreign_key",
            Reject::Restrict => "restrict",
            Reject::Type => "type",
        }
    }
}

fn veq(a: &V, b: &V) -> bool {
    if *a == V::Null || *b == V::Null {
        return false;
    }
    CV::from_sql(&a.to_sql()).same(&CV::from_sql(&b.to_sql()), 0.0)
}

fn mv_to_v(m: MV, ty: &ColTy) -> V {
    match m {
        MV::Null => V::Null,
        MV::I(i) => match ty {
            ColTy::Double => V::dbl(i as f64),
            _ => V::Int(i as i64),
        },
        MV::F(f) => match ty {
            ColTy::Int => V::Int(f as i64),
            _ => V::dbl(f),
        },
        MV::S(s) => V::Varchar(s),
    }
}

/// constraint validation of one table's rows (final-state semantics)
pub fn validate_table(spec: &TSpec, rows: &Rows) -> Result<(), Reject> {
    for r in rows {
        for (i, nn) in spec.not_null.iter().enumerate() {
            if (*nn || spec.pk.contains(&i)) && r[i] == V::Null {
                return Err(Reject::NotNull);
            }
        }
        for c in &spec.checks {
            if holds(c, r) == Some(false) {
                return Err(Reject::Check);
            }
        }
    }
    let dup = |cols: &Vec<usize>| -> bool {
        for i in 0..rows.len() {
            if cols.iter().any(|&c| rows[i][c] == V::Null) {
                continue;
            }
            for j in 0..i {
                if cols.iter().all(|&c| veq(&rows[i][c], &rows[j][c])) {
                    return true;
                }
            }
        }
        false
    };
    if !spec.pk.is_empty() && dup(&spec.pk) {
        return Err(Reject::PrimaryKey);
    }
    for u in &spec.uniques {
        if dup(u) {
            return Err(Reject::Unique);
        }
    }
    for (_, cols, uniq) in &spec.indexes {
        // only indexes that currently exist are enforced: the caller passes a spec whose
        // `indexes` list holds the live ones
        if *uniq && dup(cols) {
            return Err(Reject::Unique);
        }
    }
    Ok(())
}

/// referential integrity of the whole state
pub fn orphans(specs: &[TSpec], state: &[Rows]) -> Option<String> {
    for (ti, s) in specs.iter().enumerate() {
        for f in &s.fks {
            for r in &state[ti] {
                if r[f.col] != V::Null && !state[f.parent].iter().any(|p| veq(&p[f.pcol], &r[f.col])) {
                    return Some(format!("{}.{} = {:?} has no parent in {}.{}", s.name, s.cols[f.col].0, r[f.col], specs[f.parent].name, specs[f.parent].cols[f.pcol].0));
                }
            }
        }
    }
    None
}

#[derive(Clone, Debug)]
pub struct Outcome {
    pub state: Vec<Rows>,
    pub count: usize,
}

/// Apply the parent-side effect of removing / changing referenced key values.
/// `old_keys` are the (parent table, column, old value, new value or None for delete) changes.
fn propagate(specs: &[TSpec], state: &mut Vec<Rows>, parent: usize, pcol: usize, old: &V, new: Option<&V>, depth: u32) -> Result<(), Reject> {
    if depth > 8 || *old == V::Null {
        return Ok(());
    }
    // is the old value still present in the parent (another row with the same key)? then nothing to do
    if state[parent].iter().any(|p| veq(&p[pcol], old)) {
        return Ok(());
    }
    for ci in 0..specs.len() {
        for f in specs[ci].fks.clone() {
            if f.parent != parent || f.pcol != pcol {
                continue;
            }
            let action = if new.is_some() { f.on_update } else { f.on_delete };
            let hit: Vec<usize> = (0..state[ci].len()).filter(|&i| veq(&state[ci][i][f.col], old)).collect();
            if hit.is_empty() {
                continue;
            }
            match action {
                FkAction::NoAction | FkAction::Restrict => return Err(Reject::Restrict),
                FkAction::SetNull => {
                    if specs[ci].not_null[f.col] || specs[ci].pk.contains(&f.col) {
                        return Err(Reject::NotNull);
                    }
                    for &i in &hit {
                        let before = state[ci][i][f.col].clone();
                        state[ci][i][f.col] = V::Null;
                        // the child's own key may be referenced by grandchildren
                        for (k, _) in specs[ci].cols.iter().enumerate() {
                            if k == f.col {
                                propagate(specs, state, ci, k, &before, Some(&V::Null), depth + 1)?;
                            }
                        }
                    }
                }
                FkAction::Cascade => {
                    if let Some(nv) = new {
                        for &i in &hit {
                            let before = state[ci][i][f.col].clone();
                            state[ci][i][f.col] = nv.clone();
                            propagate(specs, state, ci, f.col, &before, Some(nv), depth + 1)?;
                        }
                    } else {
                        let removed: Vec<Vec<V>> = hit.iter().map(|&i| state[ci][i].clone()).collect();
                        let mut keep = Vec::new();
                        for (i, r) in state[ci].iter().enumerate() {
                            if !hit.contains(&i) {
                                keep.push(r.clone());
                            }
                        }
                        state[ci] = keep;
                        for r in removed {
                            for k in 0..specs[ci].cols.len() {
                                propagate(specs, state, ci, k, &r[k], None, depth + 1)?;
                            }
                        }
                    }
                }
            }
        }
    }
    Ok(())
}

/// Executable definition of one statement's effect: atomic, constraints checked on the final
/// state. `live` tells which user indexes currently exist (for unique indexes).
pub fn model_apply(specs: &[TSpec], state: &[Rows], s: &Stmt) -> Result<Outcome, Reject> {
    let mut st: Vec<Rows> = state.to_vec();
    let count;
    match s {
        Stmt::Insert { t, rows } => {
            for r in rows {
                st[*t].push(r.clone());
            }
            count = rows.len();
            validate_table(&specs[*t], &st[*t])?;
            // FK of the new rows (parents may be rows of the same statement for self references)
            for r in rows {
                for f in &specs[*t].fks {
                    if r[f.col] != V::Null && !st[f.parent].iter().any(|p| veq(&p[f.pcol], &r[f.col])) {
                        return Err(Reject::ForeignKey);
                    }
                }
            }
        }
        Stmt::InsertSelect { t, where_ } => {
            let add: Rows = st[*t].iter().filter(|r| where_.as_ref().map(|w| holds(w, r) == Some(true)).unwrap_or(true)).cloned().collect();
            count = add.len();
            st[*t].extend(add);
            validate_table(&specs[*t], &st[*t])?;
        }
        Stmt::Update { t, sets, where_ } => {
            let mut n = 0;
            let mut changes: Vec<(usize, V, V)> = Vec::new();
            let old_rows = st[*t].clone();
            for (i, r) in old_rows.iter().enumerate() {
                if where_.as_ref().map(|w| holds(w, r) == Some(true)).unwrap_or(true) {
                    n += 1;
                    for (c, e) in sets {
                        let nv = mv_to_v(eval(e, r), &specs[*t].cols[*c].1);
                        if !(nv == V::Null && r[*c] == V::Null) && !veq(&nv, &r[*c]) {
                            changes.push((*c, r[*c].clone(), nv.clone()));
                        }
                        st[*t][i][*c] = nv;
                    }
                }
            }
            count = n;
            validate_table(&specs[*t], &st[*t])?;
            // child side: new FK values must have parents
            for (i, r) in st[*t].iter().enumerate() {
                for f in &specs[*t].fks {
                    if sets.iter().any(|(c, _)| *c == f.col) && r[f.col] != V::Null && !veq(&r[f.col], &old_rows[i][f.col]) && !st[f.parent].iter().any(|p| veq(&p[f.pcol], &r[f.col])) {
                        return Err(Reject::ForeignKey);
                    }
                }
            }
            // parent side: referenced key values that disappeared
            for (c, old, new) in changes {
                propagate(specs, &mut st, *t, c, &old, Some(&new), 0)?;
            }
            for (ti, sp) in specs.iter().enumerate() {
                validate_table(sp, &st[ti])?;
            }
        }
        Stmt::Delete { t, where_ } => {
            let (gone, keep): (Rows, Rows) = st[*t].iter().cloned().partition(|r| where_.as_ref().map(|w| holds(w, r) == Some(true)).unwrap_or(true));
            count = gone.len();
            st[*t] = keep;
            for r in &gone {
                for k in 0..specs[*t].cols.len() {
                    propagate(specs, &mut st, *t, k, &r[k], None, 0)?;
                }
            }
        }
        Stmt::Truncate { t } => {
            // TRUNCATE is rejected when another table references this one
            if specs.iter().enumerate().any(|(ci, sp)| ci != *t && sp.fks.iter().any(|f| f.parent == *t)) {
                return Err(Reject::Restrict);
            }
            count = st[*t].len();
            st[*t].clear();
        }
        _ => {
            count = 0;
        }
    }
    Ok(Outcome { state: st, count })
}

// ---------------------------------------------------------------------------------------------
// engine observation

pub fn engine_rows(db: &vibesql_storage::Database, spec: &TSpec) -> Option<Vec<CRow>> {
    db.get_table(&spec.name).map(|t| t.scan().iter().map(engine::canon_row).collect())
}

pub fn model_crows(rows: &Rows) -> Vec<CRow> {
    rows.iter().map(|r| r.iter().map(|v| CV::from_sql(&v.to_sql())).collect()).collect()
}

pub fn state_matches(db: &vibesql_storage::Database, specs: &[TSpec], state: &[Rows]) -> Result<(), String> {
    for (ti, s) in specs.iter().enumerate() {
        let Some(er) = engine_rows(db, s) else { return Err(format!("table {} missing in the engine", s.name)) };
        let mr = model_crows(&state[ti]);
        if !vcore::val::multiset_eq(&er, &mr, 1e-9) {
            return Err(format!("table {}:\nexpected (model):\n{}engine:\n{}", s.name, vcore::val::show_rows(&mr, 25), vcore::val::show_rows(&er, 25)));
        }
    }
    Ok(())
}

/// Validate the engine's own rows against the declared constraints (C10 invariant)
pub fn engine_violates(db: &vibesql_storage::Database, specs: &[TSpec], live_idx: &[Vec<bool>]) -> Option<(Reject, String)> {
    for (ti, s) in specs.iter().enumerate() {
        let Some(t) = db.get_table(&s.name) else { continue };
        let rows: Rows = t.scan().iter().map(|r| r.values.iter().map(V::from_sql).collect()).collect();
        let mut sp = s.clone();
        sp.indexes = s.indexes.iter().enumerate().filter(|(k, _)| live_idx[ti][*k]).map(|(_, x)| x.clone()).collect();
        if let Err(e) = validate_table(&sp, &rows) {
            return Some((e, format!("table {} holds {:?}", s.name, rows)));
        }
    }
    None
}

/// Compare every index structure with a rebuild from scratch (C15)
pub fn index_mirror(db: &vibesql_storage::Database, specs: &[TSpec], live_idx: &[Vec<bool>]) -> Option<String> {
    use vibesql_storage::database::IndexData;
    let mut rebuilt = db.clone();
    for s in specs {
        if let Some(t) = rebuilt.get_table_mut(&s.name) {
            t.rebuild_indexes();
        }
        // the registry keys indexes by the table name as the parser wrote it (upper-cased)
        rebuilt.rebuild_indexes(&s.name.to_uppercase());
    }
    for (ti, s) in specs.iter().enumerate() {
        let (Some(a), Some(b)) = (db.get_table(&s.name), rebuilt.get_table(&s.name)) else { continue };
        if a.primary_key_index() != b.primary_key_index() {
            return Some(format!("primary-key hash index of {} differs from a rebuild: {:?} vs {:?}", s.name, a.primary_key_index(), b.primary_key_index()));
        }
        if a.unique_indexes() != b.unique_indexes() {
            return Some(format!("unique hash indexes of {} differ from a rebuild: {:?} vs {:?}", s.name, a.unique_indexes(), b.unique_indexes()));
        }
        for (k, (name, _, _)) in s.indexes.iter().enumerate() {
            if !live_idx[ti][k] {
                continue;
            }
            match (db.get_index_data(name), rebuilt.get_index_data(name)) {
                (Some(IndexData::InMemory { data: x }), Some(IndexData::InMemory { data: y })) => {
                    let norm = |m: &std::collections::BTreeMap<Vec<vibesql_types::SqlValue>, Vec<usize>>| {
                        m.iter()
                            .map(|(k, v)| {
                                let mut v = v.clone();
                                v.sort();
                                (k.clone(), v)
                            })
                            .collect::<Vec<_>>()
                    };
                    if norm(x) != norm(y) {
                        return Some(format!("user index {} differs from a rebuild:\n  have {:?}\n  want {:?}", name, norm(x), norm(y)));
                    }
                }
                (None, _) => return Some(format!("user index {} has no data", name)),
                _ => {}
            }
        }
    }
    None
}

// ---------------------------------------------------------------------------------------------
// generation

#[derive(Clone, Debug)]
pub struct DmlCfg {
    pub tables: usize,
    pub pk: bool,
    pub composite_pk: bool,
    pub uniques: bool,
    pub not_null: bool,
    pub checks: bool,
    pub fks: bool,
    pub self_fk: bool,
    pub user_indexes: bool,
    pub unique_indexes: bool,
    pub max_rows: usize,
    pub key_updates: bool,
    /// allow column-level REFERENCES clauses
    pub inline_fk: bool,
    /// allow ON DELETE/UPDATE SET NULL on a NOT NULL child column (the action can then only fail)
    pub setnull_on_notnull: bool,
    /// allow two FOREIGN KEYs of one table to reference the same parent
    pub two_fks_same_parent: bool,
    /// generate REPLACE INTO (checked by invariants only)
    pub replace: bool,
    /// generate INSERT .. ON DUPLICATE KEY UPDATE (checked by invariants only)
    pub odku: bool,
}

const WORDS: &[&str] = &["a", "b", "ab", "", "A", "c"];

pub fn gen_v(t: &mut Tape, ty: &ColTy, nullable: bool) -> V {
    if nullable && t.chance(1, 6) {
        return V::Null;
    }
    match ty {
        ColTy::Int => V::Int(*t.pick(&[1i64, 2, 3, 4, 5, 0, 6, 7, -1, 10])),
        ColTy::Double => V::dbl((t.range(0, 16) - 4) as f64 / 2.0),
        _ => V::Varchar(t.pick(WORDS).to_string()),
    }
}

pub fn gen_specs(t: &mut Tape, c: &DmlCfg) -> Vec<TSpec> {
    let mut specs: Vec<TSpec> = Vec::new();
    for ti in 0..c.tables {
        let ncols = t.range(2, 4) as usize;
        let mut cols = Vec::new();
        for k in 0..ncols {
            let ty = if k == 0 { ColTy::Int } else { t.pick(&[ColTy::Int, ColTy::Varchar(12), ColTy::Int, ColTy::Double]).clone() };
            cols.push((format!("t{}_{}", ti, ["k", "a", "b", "c"][k]), ty));
        }
        let mut s = TSpec { name: format!("t{}", ti), cols, not_null: vec![false; ncols], pk: vec![], uniques: vec![], checks: vec![], fks: vec![], indexes: vec![] };
        if c.pk && t.chance(2, 3) {
            s.pk = if c.composite_pk && ncols > 2 && t.chance(1, 4) { vec![0, 1] } else { vec![0] };
        }
        if c.uniques && t.chance(1, 2) {
            let u = t.range(1, ncols as i64 - 1) as usize;
            if !s.pk.contains(&u) || s.pk.len() > 1 {
                // one third of the UNIQUE constraints span two columns
                let u2 = t.range(1, ncols as i64 - 1) as usize;
                if ncols >= 3 && u2 != u && t.chance(1, 3) {
                    s.uniques.push(vec![u, u2]);
                } else {
                    s.uniques.push(vec![u]);
                    // sometimes a second single-column UNIQUE constraint
                    if ncols >= 3 && u2 != u && !s.pk.contains(&u2) && t.chance(1, 3) {
                        s.uniques.push(vec![u2]);
                    }
                }
            }
        }
        if c.not_null {
            for k in 0..ncols {
                if t.chance(1, 4) {
                    s.not_null[k] = true;
                }
            }
        }
        if c.checks && t.chance(1, 2) {
            let k = t.below(ncols);
            let lit = gen_v(t, &s.cols[k].1, false);
            s.checks.push(APred::Cmp(AExpr::Col(k), *t.pick(&[BinOp::Ge, BinOp::Ne, BinOp::Lt, BinOp::Le]), AExpr::Lit(lit)));
        }
        // up to two foreign keys per table (the second one on another column)
        for fk_round in 0..2 {
        if fk_round == 1 && (s.fks.is_empty() || !t.chance(1, 3)) {
            break;
        }
        if c.fks && (ti > 0 || c.self_fk) && (fk_round == 1 || t.chance(3, 4)) {
            // reference the key column of an earlier table (or of this table)
            let parent = if ti > 0 && !(c.self_fk && t.chance(1, 5)) { t.below(ti) } else { ti };
            if !c.two_fks_same_parent && s.fks.iter().any(|f| f.parent == parent) {
                break;
            }
            let (pspec_cols, ppk): (Vec<(String, ColTy)>, Vec<usize>) = if parent == ti { (s.cols.clone(), s.pk.clone()) } else { (specs[parent].cols.clone(), specs[parent].pk.clone()) };
            // parent column must be the single-column primary key (the engine requires a key)
            if ppk.len() == 1 {
                let pcol = ppk[0];
                let cands: Vec<usize> = (1..ncols).filter(|&k| s.cols[k].1 == pspec_cols[pcol].1 && !s.pk.contains(&k) && !s.fks.iter().any(|f| f.col == k)).collect();
                if !cands.is_empty() {
                    let col = cands[t.below(cands.len())];
                    let act = |t: &mut Tape| *t.pick(&[FkAction::Cascade, FkAction::SetNull, FkAction::NoAction, FkAction::NoAction]);
                    let inline = c.inline_fk && t.chance(1, 4);
                    let (od, ou) = (act(t), act(t));
                    if !c.setnull_on_notnull && (od == FkAction::SetNull || ou == FkAction::SetNull) {
                        s.not_null[col] = false;
                    }
                    s.fks.push(Fk { col, parent, pcol, on_delete: od, on_update: ou, inline });
                }
            }
        }
        }
        if c.user_indexes {
            let n = t.range(0, 2) as usize;
            for k in 0..n {
                let col = t.below(ncols);
                let uniq = c.unique_indexes && t.chance(1, 4);
                let mut cs = vec![col];
                if t.chance(1, 4) {
                    let c2 = t.below(ncols);
                    if c2 != col {
                        cs.push(c2);
                    }
                }
                s.indexes.push((format!("ix{}_{}", ti, k), cs, uniq));
            }
        }
        specs.push(s);
    }
    specs
}

/// a row for table `ti`, with keys mostly fresh and FK values mostly pointing at existing parents
pub fn gen_row(t: &mut Tape, specs: &[TSpec], state: &[Rows], ti: usize, next_key: &mut i64) -> Vec<V> {
    let s = &specs[ti];
    let mut r: Vec<V> = Vec::new();
    for (k, (_, ty)) in s.cols.iter().enumerate() {
        let nullable = !s.not_null[k] && !s.pk.contains(&k);
        let mut v = gen_v(t, ty, nullable);
        if k == 0 {
            // key column: fresh ascending value, sometimes a duplicate of an existing one
            v = if t.chance(1, 6) && !state[ti].is_empty() { state[ti][t.below(state[ti].len())][0].clone() } else { V::Int(*next_key) };
            *next_key += 1;
            if v == V::Null && !nullable {
                v = V::Int(*next_key);
            }
        }
        if let Some(f) = s.fks.iter().find(|f| f.col == k) {
            let parents = &state[f.parent];
            v = if !parents.is_empty() && t.chance(4, 5) {
                parents[t.below(parents.len())][f.pcol].clone()
            } else if nullable && t.chance(1, 2) {
                V::Null
            } else {
                gen_v(t, ty, false)
            };
        }
        r.push(v);
    }
    r
}

pub fn gen_pred(t: &mut Tape, spec: &TSpec, rows: &Rows, depth: u32) -> APred {
    let tb = spec.atable(rows);
    // literals of the other numeric type included (k = 2.0 on an INTEGER key)
    crate::c02::gen_pred(t, &tb, &[0], depth, true, false)
}

pub fn gen_stmt(t: &mut Tape, specs: &[TSpec], state: &[Rows], c: &DmlCfg, next_key: &mut i64) -> Stmt {
    let ti = t.below(specs.len());
    let s = &specs[ti];
    let ncols = s.cols.len();
    if (c.replace || c.odku) && s.fks.is_empty() && !specs.iter().any(|x| x.fks.iter().any(|f| f.parent == ti)) && t.chance(1, 7) {
        let n = *t.pick(&[1usize, 1, 2, 3]);
        let mut rows = Vec::new();
        for _ in 0..n {
            let mut r = gen_row(t, specs, state, ti, next_key);
            // collide with an existing key half of the time
            if !state[ti].is_empty() && t.chance(1, 2) {
                r[0] = state[ti][t.below(state[ti].len())][0].clone();
            }
            rows.push(r);
        }
        if c.replace && (!c.odku || t.chance(1, 2)) {
            return Stmt::Replace { t: ti, rows };
        }
        let col = t.range(if ncols > 1 { 1 } else { 0 }, ncols as i64 - 1) as usize;
        let v = gen_v(t, &s.cols[col].1, !s.not_null[col] && !s.pk.contains(&col));
        return Stmt::Upsert { t: ti, rows, set: (col, v) };
    }
    match t.weighted(&[5, 4, 3, 1, 1]) {
        0 => {
            let n = *t.pick(&[1usize, 1, 2, 3, 5]);
            let mut rows = Vec::new();
            for _ in 0..n {
                rows.push(gen_row(t, specs, state, ti, next_key));
            }
            Stmt::Insert { t: ti, rows }
        }
        1 => {
            let nsets = *t.pick(&[1usize, 1, 2]);
            let mut sets: Vec<(usize, AExpr)> = Vec::new();
            for _ in 0..nsets {
                let col = if c.key_updates && t.chance(1, 3) { 0 } else { t.range(if ncols > 1 { 1 } else { 0 }, ncols as i64 - 1) as usize };
                if sets.iter().any(|(x, _)| *x == col) {
                    continue;
                }
                let ty = s.cols[col].1.clone();
                let e = match t.weighted(&[4, 2, 2]) {
                    0 => AExpr::Lit(gen_v(t, &ty, !s.not_null[col] && !s.pk.contains(&col))),
                    1 if ty == ColTy::Int => AExpr::Bin(Box::new(AExpr::Col(col)), BinOp::Add, Box::new(AExpr::Lit(V::Int(1)))),
                    _ => {
                        // another column of the same type (pre-update value)
                        let same: Vec<usize> = (0..ncols).filter(|&k| s.cols[k].1 == ty).collect();
                        AExpr::Col(same[t.below(same.len())])
                    }
                };
                sets.push((col, e));
            }
            if sets.is_empty() {
                sets.push((ncols - 1, AExpr::Lit(V::Null)));
                if s.not_null[ncols - 1] || s.pk.contains(&(ncols - 1)) {
                    sets[0].1 = AExpr::Lit(gen_v(t, &s.cols[ncols - 1].1, false));
                }
            }
            Stmt::Update { t: ti, sets, where_: if t.chance(4, 5) { Some(gen_pred(t, s, &state[ti], 1)) } else { None } }
        }
        2 => Stmt::Delete { t: ti, where_: if t.chance(5, 6) { Some(gen_pred(t, s, &state[ti], 1)) } else { None } },
        3 => Stmt::Truncate { t: ti },
        _ => {
            if s.pk.is_empty() && s.uniques.is_empty() {
                Stmt::InsertSelect { t: ti, where_: if t.chance(1, 2) { Some(gen_pred(t, s, &state[ti], 1)) } else { None } }
            } else {
                Stmt::Delete { t: ti, where_: Some(gen_pred(t, s, &state[ti], 0)) }
            }
        }
    }
}

pub fn setup_sql(specs: &[TSpec]) -> Vec<String> {
    let mut v: Vec<String> = specs.iter().map(|s| s.create_sql(specs)).collect();
    for s in specs {
        for (k, f) in s.fks.iter().enumerate() {
            if specs[f.parent].name == s.name {
                v.push(format!(
                    "ALTER TABLE {} ADD CONSTRAINT fk_self_{}_{} FOREIGN KEY ({}) REFERENCES {} ({}) ON DELETE {} ON UPDATE {}",
                    s.name, s.name, k, s.cols[f.col].0, s.name, s.cols[f.pcol].0, f.on_delete.sql(), f.on_update.sql()
                ));
            }
        }
    }
    for s in specs {
        for k in 0..s.indexes.len() {
            v.push(s.index_sql(k));
        }
    }
    v
}

pub fn lit(v: &V) -> String {
    lit_sql(v, Dialect::Vibe)
}
