//! C07 — aggregates and grouping follow their SQL definitions on every input.

use crate::agg::*;
use serde::{Deserialize, Serialize};
use vcore::engine;
use vcore::val::show_rows;
use vcore::{Check, GenCfg, Obs, Tape, Tier, Verdict};

pub struct C07;

#[derive(Clone, Debug, Serialize, Deserialize)]
pub struct Case {
    pub table: ATable,
    pub query: AQuery,
    pub columnar_off: bool,
}

pub fn load(table: &ATable) -> Result<vibesql_storage::Database, String> {
    let mut db = vibesql_storage::Database::new();
    for st in table.setup_sql() {
        engine::exec(&mut db, &st).map_err(|e| format!("vibesql rejected setup statement `{}`: {}", vcore::runner::truncate(&st, 300), e.text()))?;
    }
    Ok(db)
}

impl Check for C07 {
    type Case = Case;
    fn id(&self) -> &'static str {
        "C07"
    }
    fn rule(&self) -> String {
        "one table of 2-5 INTEGER/DOUBLE/VARCHAR columns, 0-40 rows (NULL densities 0/.2/.6/1, -0.0, duplicates; occasionally 1000-3000 rows), loaded through INSERT; \
         a query with 1-4 aggregates (COUNT(*), COUNT/SUM/AVG/MIN/MAX over a column or a+b / a*k, DISTINCT forms), optional WHERE, GROUP BY over 0-2 columns, optional HAVING, \
         LIMIT/OFFSET on ungrouped queries. Oracle: executable model in the harness (groups with NULLs as one group, aggregates over non-NULL values, NULL on empty, exact i128 integer sums, \
         float sums within 1e-9*sum|x|). Non-trivial = some group has an all-NULL argument, or the filtered input is empty, or a group key is NULL/-0.0. Distinct = hash of the case."
            .into()
    }
    fn assumptions(&self) -> Vec<String> {
        vec![
            "the model's grouping equality is value equality with NULL = NULL and 0.0 = -0.0 (the documented SqlValue Eq)".into(),
            "ungrouped queries the columnar gate accepts are answered by the columnar path (class columnar_path_taken); a difference there that the two recorded DOUBLE defects cannot explain is reported under c07.trigger.columnar_path (its six defects were repaired in /repo, the entry is fixed and suppresses nothing)".into(),
        ]
    }
    fn cases(&self, tier: Tier) -> u64 {
        match tier {
            Tier::Quick => 300_000,
            Tier::Thorough => 8_000_000,
        }
    }
    fn tape_len(&self, _t: Tier) -> usize {
        700
    }
    fn build(&self, t: &mut Tape, cfg: &GenCfg) -> Case {
        let c = AggGenCfg {
            max_rows: 40,
            gate_only: false,
            allow_having: true,
            allow_limit: true,
            allow_strings: true,
            allow_nulls: true,
            allow_empty: true,
            allow_arith_args: true,
            allow_distinct: true,
            big_tables: if cfg.tier == Tier::Thorough { 6 } else { 50 },
            exact_floats: cfg.avoiding("c07.trigger.float_f32_precision") || cfg.avoiding("c07.trigger.float_where_epsilon"),
        };
        let table = gen_table(t, &c);
        let query = gen_query(t, &table, &c);
        Case { table, query, columnar_off: cfg.avoiding("c07.trigger.columnar_path") }
    }
    fn render(&self, c: &Case) -> String {
        let mut s: Vec<String> = c.table.setup_sql().iter().map(|x| vcore::runner::truncate(x, 1500)).collect();
        s.push(c.query.render(&c.table, Dodge::None));
        if c.columnar_off {
            s.push("-- (columnar gate forced off by verif hook)".into());
        }
        s.join(";\n")
    }
    fn run(&self, case: &Case, obs: &mut Obs) -> Verdict {
        let db = match load(&case.table) {
            Ok(d) => d,
            Err(e) => return Verdict::Harness(e),
        };
        let q = &case.query;
        let sql = q.render(&case.table, Dodge::None);
        let m = model(&case.table, q);
        obs.excluded = case.columnar_off as u64;
        obs.class(if q.group_by.is_empty() { "ungrouped" } else { "grouped" });
        if m.filtered == 0 {
            obs.class("empty_input");
        }
        let allnull_group = m.rows.iter().any(|r| r.iter().skip(q.group_by.len()).any(|c| matches!(c, vcore::val::CV::Null)));
        let null_key = m.rows.iter().any(|r| r.iter().take(q.group_by.len()).any(|c| matches!(c, vcore::val::CV::Null) || matches!(c, vcore::val::CV::F(f) if *f == 0.0 && f.is_sign_negative())));
        obs.nontrivial = allnull_group || m.filtered == 0 || null_key;
        vibesql_executor::verif_hooks::set_columnar_off(case.columnar_off);
        let taken0 = vibesql_executor::verif_hooks::columnar_taken();
        let got = engine::query(&db, &sql);
        vibesql_executor::verif_hooks::set_columnar_off(false);
        let columnar = vibesql_executor::verif_hooks::columnar_taken() > taken0;
        if columnar {
            obs.class("columnar_path_taken");
        }
        let got = match got {
            Ok(g) => g,
            Err(e) => {
                let sig = if columnar { "c07.trigger.columnar_path".to_string() } else { format!("c07.error.{}", e.kind()) };
                return Verdict::fail(sig, format!("{}\n{}", sql, e.text()));
            }
        };
        if matches_model(&m, &got) {
            return Verdict::Pass;
        }
        let sig = if is_double(&case.table, &where_cols(q)) {
            // scan-level filter compares DOUBLE with an epsilon of 1e-9
            "c07.trigger.float_where_epsilon".to_string()
        } else if is_double(&case.table, &agg_cols(q)) || is_double(&case.table, &q.group_by) {
            // DOUBLE arithmetic / SUM / AVG are carried out in f32
            "c07.trigger.float_f32_precision".to_string()
        } else if columnar {
            "c07.trigger.columnar_path".to_string()
        } else if m.rows.len() != got.len() {
            format!("c07.row_count.{}{}", if q.group_by.is_empty() { "ungrouped" } else { "grouped" }, if q.having.is_some() { ".having" } else { "" })
        } else {
            // first aggregate whose column differs in some row (rows aligned by sort is not
            // available; use the first aggregate kind that cannot be matched)
            let mut which = "values".to_string();
            for (i, a) in q.aggs.iter().enumerate() {
                let col = q.group_by.len() + i;
                let exp: Vec<_> = m.rows.iter().map(|r| vec![r[col].clone()]).collect();
                let have: Vec<_> = got.iter().map(|r| vec![r.get(col).cloned().unwrap_or(vcore::val::CV::Null)]).collect();
                if !vcore::val::multiset_eq(&exp, &have, 1e-6) {
                    which = format!("{}{}{}", a.f.sql(), if a.distinct { ".distinct" } else { "" }, if a.arg.is_none() { ".star" } else { "" });
                    break;
                }
            }
            format!("c07.diff.{}.{}", which, if q.group_by.is_empty() { "ungrouped" } else { "grouped" })
        };
        Verdict::fail(sig, format!("{}\nexpected (model):\n{}got (vibesql):\n{}", sql, show_rows(&m.rows, 30), show_rows(&got, 30)))
    }
}
