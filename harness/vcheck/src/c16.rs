//! C16 — query results do not depend on the index storage backend: twin databases run the
//! same history (index DDL included); one keeps user indexes in memory, the other has a memory
//! budget of zero with SpillPolicy::SpillToDisk so that every non-empty index lives in the
//! disk-backed B+ tree.

use crate::c02::{gen_case, run_twins_with, Case, HistCfg};
use std::sync::atomic::{AtomicU64, Ordering};
use vcore::{Check, GenCfg, Obs, Tape, Tier, Verdict};
use vibesql_storage::{Database, DatabaseConfig};

pub struct C16;

static COUNTER: AtomicU64 = AtomicU64::new(0);

struct TmpDir(std::path::PathBuf);
impl Drop for TmpDir {
    fn drop(&mut self) {
        let _ = std::fs::remove_dir_all(&self.0);
    }
}

fn spill_config() -> DatabaseConfig {
    let mut c = DatabaseConfig::server_default();
    c.memory_budget = 0;
    c.spill_policy = vibesql_storage::database::SpillPolicy::SpillToDisk;
    c
}

impl Check for C16 {
    type Case = Case;
    fn id(&self) -> &'static str {
        "C16"
    }
    fn rule(&self) -> String {
        "cases as in C02 (one table with a unique id and INTEGER/DOUBLE/VARCHAR columns, NULLs, duplicate keys; 1-3 single/multi-column index definitions incl. DESC, prefix and UNIQUE; histories of INSERT / UPDATE of indexed columns / DELETE / DROP+CREATE INDEX / ANALYZE; then 1-6 SELECTs with =, ranges, BETWEEN, IN, IS NULL, AND/OR, ORDER BY + LIMIT on indexed columns). \
         Twin A = Database::new() (in-memory BTreeMap indexes); twin B = Database::with_path_and_config(fresh directory, memory_budget 0, SpillPolicy::SpillToDisk): every index created over a non-empty table is spilled to the disk-backed B+ tree and maintained there. Both twins execute every statement. \
         Oracle: every DML reports the same outcome/count and every query returns the same multiset (the same sequence under ORDER BY .. id). Non-trivial = a query that references the leading column of an index returned rows while an index of twin B was disk-backed. Distinct = hash of the case."
            .into()
    }
    fn assumptions(&self) -> Vec<String> {
        vec![
            "the disk-backed branch is reached through the memory budget / spill policy; the 100k-row table-size threshold selects the same IndexData::DiskBacked code and is not generated (too slow per case)".into(),
            "twin A is the reference (its agreement with index-free execution is C02's subject)".into(),
        ]
    }
    fn cases(&self, tier: Tier) -> u64 {
        match tier {
            Tier::Quick => 25_000,
            Tier::Thorough => 300_000,
        }
    }
    fn tape_len(&self, _t: Tier) -> usize {
        900
    }
    fn floors(&self) -> Vec<(&'static str, f64)> {
        vec![("statement_with_disk_backed_index", 0.5)]
    }
    fn build(&self, t: &mut Tape, cfg: &GenCfg) -> Case {
        let on = |s: &str| !(cfg.avoid_known && cfg.known_open.iter().any(|k| k.contains(s)));
        let h = HistCfg {
            max_rows: if cfg.tier == Tier::Thorough { 60 } else { 24 },
            max_ops: 12,
            allow_desc: on("desc_index"),
            allow_prefix: on("prefix_index"),
            allow_multi: on("multi_column"),
            allow_null: on("null_key"),
            allow_unique: on("unique"),
            allow_order: on("order"),
            cross_type: on("cross_type"),
        };
        gen_case(t, &h)
    }
    fn render(&self, c: &Case) -> String {
        crate::c02::C02.render(c)
    }
    fn run(&self, case: &Case, obs: &mut Obs) -> Verdict {
        let root = std::env::var("VERIF_ROOT").unwrap_or_else(|_| "/verif".into());
        let dir = std::path::Path::new(&root).join("target").join("tmp").join("c16").join(format!("{}-{}", std::process::id(), COUNTER.fetch_add(1, Ordering::Relaxed)));
        if let Err(e) = std::fs::create_dir_all(&dir) {
            return Verdict::Harness(format!("cannot create {}: {}", dir.display(), e));
        }
        let _guard = TmpDir(dir.clone());
        let spilled = Database::with_path_and_config(dir, spill_config());
        if let Some(r) = &case.raw {
            // hand-written regression input: every statement runs on both twins
            let mut a = Database::new();
            let mut b = spilled;
            for st in &r.statements {
                for (db, who) in [(&mut a, "in-memory twin"), (&mut b, "spill-to-disk twin")] {
                    if let Err(e) = vcore::engine::exec(db, st) {
                        return Verdict::Harness(format!("{} rejected `{}`: {}", who, st, e.text()));
                    }
                }
            }
            obs.nontrivial = true;
            obs.class("raw_regression_input");
            obs.class("statement_with_disk_backed_index");
            for q in &r.queries {
                let (x, y) = (vcore::engine::query(&a, q), vcore::engine::query(&b, q));
                let ok = match (&x, &y) {
                    (Ok(x), Ok(y)) => vcore::val::multiset_eq(x, y, 1e-9),
                    (Err(_), Err(_)) => true,
                    _ => false,
                };
                if !ok {
                    let show = |r: &Result<Vec<vcore::val::CRow>, vcore::engine::ExecErr>| match r {
                        Ok(rows) => vcore::val::show_rows(rows, 30),
                        Err(e) => format!("  ERROR {}\n", e.text()),
                    };
                    return Verdict::fail("c16.raw.diff".to_string(), format!("{}\nin-memory indexes:\n{}spill-to-disk configuration:\n{}", q, show(&x), show(&y)));
                }
            }
            return Verdict::Pass;
        }
        let mut inner = Obs::default();
        let v = run_twins_with(case, &mut inner, "c16", spilled, true);
        let disk = inner.classes.iter().any(|c| c == "statement_with_disk_backed_index");
        for k in &inner.classes {
            obs.class(k);
        }
        obs.sub_evals += inner.sub_evals;
        obs.nontrivial = inner.nontrivial && disk;
        match v {
            Verdict::Fail { sig, detail } => {
                let sig = if disk { sig } else { format!("{}.no_disk_backed_index", sig) };
                Verdict::Fail { sig, detail: detail.replace("without indexes", "in-memory indexes (twin A)").replace("with indexes", "spill-to-disk configuration (twin B)") }
            }
            other => other,
        }
    }
}
