//! C34 — row/statement triggers fire once per affected row / statement with the right OLD/NEW
//! images, WHEN gates firing, and a failing trigger fails the statement without changing the table.
//! Model-based: the trigger bodies write audit rows; the expected audit multiset is computed by a
//! model of the firings.

use serde::{Deserialize, Serialize};
use vcore::engine;
use vcore::val::{CRow, CV};
use vcore::{Check, GenCfg, Obs, Tape, Tier, Verdict};
use vibesql_storage::Database;

type Val = Option<i64>;
/// (k, a, b)
type TRow = [Val; 3];
const COLS: [&str; 3] = ["k", "a", "b"];

#[derive(Clone, Copy, Debug, PartialEq, Eq, Serialize, Deserialize)]
pub enum Ev {
    Insert,
    Update,
    /// UPDATE OF (column index)
    UpdateOf(usize),
    /// UPDATE OF (a, b)
    UpdateOfAB,
    Delete,
}

#[derive(Clone, Copy, Debug, PartialEq, Eq, Serialize, Deserialize)]
pub enum Cmp {
    Gt,
    Le,
    Eq,
    IsNull,
}

#[derive(Clone, Debug, Serialize, Deserialize)]
pub struct When {
    /// true = NEW, false = OLD
    pub new: bool,
    pub col: usize,
    pub cmp: Cmp,
    pub lit: i64,
}

#[derive(Clone, Debug, Serialize, Deserialize)]
pub enum Action {
    /// INSERT INTO aud VALUES (tag, OLD.k, OLD.a, OLD.b, NEW.k, NEW.a, NEW.b)
    Audit,
    /// INSERT INTO guard VALUES (<NEW|OLD>.<col>): guard.g is NOT NULL, so the action fails
    /// exactly for rows whose value is NULL
    Guard { new: bool, col: usize },
}

#[derive(Clone, Debug, Serialize, Deserialize)]
pub struct Trig {
    pub name: String,
    pub before: bool,
    pub ev: Ev,
    pub row: bool,
    pub when: Option<When>,
    pub action: Action,
}

#[derive(Clone, Debug, Serialize, Deserialize)]
pub enum Pred {
    All,
    KEq(i64),
    AGt(i64),
    AIsNull,
    BLe(i64),
}

#[derive(Clone, Debug, Serialize, Deserialize)]
pub enum SetE {
    Lit(Val),
    /// column = column + 1
    Inc,
}

#[derive(Clone, Debug, Serialize, Deserialize)]
pub enum Dml {
    Insert(Vec<TRow>),
    Update { sets: Vec<(usize, SetE)>, pred: Pred },
    Delete(Pred),
}

#[derive(Clone, Debug, Serialize, Deserialize)]
pub struct C34Case {
    pub trigs: Vec<Trig>,
    pub load: Vec<TRow>,
    pub stmts: Vec<Dml>,
    #[serde(default)]
    pub scenario: Option<vcore::scenario::Scenario>,
}

fn lit(v: &Val) -> String {
    match v {
        None => "NULL".into(),
        Some(i) if *i < 0 => format!("({})", i),
        Some(i) => i.to_string(),
    }
}

impl Pred {
    fn sql(&self) -> String {
        match self {
            Pred::All => String::new(),
            Pred::KEq(v) => format!(" WHERE k = {}", v),
            Pred::AGt(v) => format!(" WHERE a > {}", v),
            Pred::AIsNull => " WHERE a IS NULL".into(),
            Pred::BLe(v) => format!(" WHERE b <= {}", v),
        }
    }
    fn holds(&self, r: &TRow) -> bool {
        match self {
            Pred::All => true,
            Pred::KEq(v) => r[0] == Some(*v),
            Pred::AGt(v) => r[1].map(|a| a > *v).unwrap_or(false),
            Pred::AIsNull => r[1].is_none(),
            Pred::BLe(v) => r[2].map(|b| b <= *v).unwrap_or(false),
        }
    }
}

impl Dml {
    fn sql(&self) -> String {
        match self {
            Dml::Insert(rows) => format!("INSERT INTO t VALUES {}", rows.iter().map(|r| format!("({}, {}, {})", lit(&r[0]), lit(&r[1]), lit(&r[2]))).collect::<Vec<_>>().join(", ")),
            Dml::Update { sets, pred } => format!(
                "UPDATE t SET {}{}",
                sets.iter()
                    .map(|(c, e)| match e {
                        SetE::Lit(v) => format!("{} = {}", COLS[*c], lit(v)),
                        SetE::Inc => format!("{} = {} + 1", COLS[*c], COLS[*c]),
                    })
                    .collect::<Vec<_>>()
                    .join(", "),
                pred.sql()
            ),
            Dml::Delete(p) => format!("DELETE FROM t{}", p.sql()),
        }
    }
    fn kind(&self) -> &'static str {
        match self {
            Dml::Insert(r) if r.len() > 1 => "insert_multi",
            Dml::Insert(_) => "insert",
            Dml::Update { .. } => "update",
            Dml::Delete(_) => "delete",
        }
    }
}

impl Trig {
    fn tag(&self) -> String {
        self.name.clone()
    }
    fn create_sql(&self) -> String {
        let ev = match self.ev {
            Ev::Insert => "INSERT".to_string(),
            Ev::Update => "UPDATE".to_string(),
            Ev::UpdateOf(c) => format!("UPDATE OF ({})", COLS[c]),
            Ev::UpdateOfAB => "UPDATE OF (a, b)".to_string(),
            Ev::Delete => "DELETE".to_string(),
        };
        let when = match &self.when {
            None => String::new(),
            Some(w) => {
                let r = format!("{}.{}", if w.new { "NEW" } else { "OLD" }, COLS[w.col]);
                match w.cmp {
                    Cmp::Gt => format!(" WHEN ({} > {})", r, w.lit),
                    Cmp::Le => format!(" WHEN ({} <= {})", r, w.lit),
                    Cmp::Eq => format!(" WHEN ({} = {})", r, w.lit),
                    Cmp::IsNull => format!(" WHEN ({} IS NULL)", r),
                }
            }
        };
        format!("CREATE TRIGGER {} {} {} ON t FOR EACH {}{} BEGIN SELECT 1; END", self.name, if self.before { "BEFORE" } else { "AFTER" }, ev, if self.row { "ROW" } else { "STATEMENT" }, when)
    }
    fn body(&self) -> String {
        let has_old = self.row && !matches!(self.ev, Ev::Insert);
        let has_new = self.row && !matches!(self.ev, Ev::Delete);
        match &self.action {
            Action::Audit => {
                let o = |c: &str| if has_old { format!("OLD.{}", c) } else { "NULL".into() };
                let n = |c: &str| if has_new { format!("NEW.{}", c) } else { "NULL".into() };
                format!("INSERT INTO aud VALUES ('{}', {}, {}, {}, {}, {}, {})", self.tag(), o("k"), o("a"), o("b"), n("k"), n("a"), n("b"))
            }
            Action::Guard { new, col } => format!("INSERT INTO guard VALUES ({}.{})", if *new { "NEW" } else { "OLD" }, COLS[*col]),
        }
    }
    fn feature(&self) -> String {
        format!(
            "{}_{}_{}{}{}",
            if self.before { "before" } else { "after" },
            match self.ev {
                Ev::Insert => "insert",
                Ev::Update => "update",
                Ev::UpdateOf(_) | Ev::UpdateOfAB => "update_of",
                Ev::Delete => "delete",
            },
            if self.row { "row" } else { "statement" },
            if self.when.is_some() { "_when" } else { "" },
            if matches!(self.action, Action::Guard { .. }) { "_failing" } else { "" }
        )
    }
    fn when_holds(&self, old: Option<&TRow>, new: Option<&TRow>) -> bool {
        match &self.when {
            None => true,
            Some(w) => {
                let r = if w.new { new } else { old };
                let Some(r) = r else { return false };
                let v = r[w.col];
                match w.cmp {
                    Cmp::Gt => v.map(|x| x > w.lit).unwrap_or(false),
                    Cmp::Le => v.map(|x| x <= w.lit).unwrap_or(false),
                    Cmp::Eq => v == Some(w.lit),
                    Cmp::IsNull => v.is_none(),
                }
            }
        }
    }
}

/// (tag, old k a b, new k a b)
type AudRow = (String, [Val; 6]);

#[derive(Default, Debug)]
struct Expect {
    /// firings that must be recorded
    must: Vec<AudRow>,
    /// firings that may or may not be recorded (UPDATE OF on a named but unchanged column)
    may: Vec<AudRow>,
    guard_must: Vec<i64>,
    guard_may: Vec<i64>,
    /// triggers (by position) that contributed guard rows / failures
    guard_trigs: Vec<usize>,
    /// some firing's action fails: the statement must fail
    fails: bool,
    /// the failure depends on a `may` firing: either outcome of the statement is acceptable
    may_fail: bool,
}

fn expect_for(trigs: &[Trig], stmt: &Dml, t: &[TRow]) -> (Vec<TRow>, Expect, usize) {
    let mut e = Expect::default();
    // affected rows as (old, new)
    let mut affected: Vec<(Option<TRow>, Option<TRow>)> = Vec::new();
    let mut after: Vec<TRow> = Vec::new();
    let (ev_kind, set_cols): (u8, Vec<usize>) = match stmt {
        Dml::Insert(rows) => {
            after = t.to_vec();
            for r in rows {
                affected.push((None, Some(*r)));
                after.push(*r);
            }
            (0, vec![])
        }
        Dml::Update { sets, pred } => {
            for r in t {
                if pred.holds(r) {
                    let mut n = *r;
                    for (c, s) in sets {
                        n[*c] = match s {
                            SetE::Lit(v) => *v,
                            SetE::Inc => r[*c].map(|x| x + 1),
                        };
                    }
                    affected.push((Some(*r), Some(n)));
                    after.push(n);
                } else {
                    after.push(*r);
                }
            }
            (1, sets.iter().map(|s| s.0).collect())
        }
        Dml::Delete(pred) => {
            for r in t {
                if pred.holds(r) {
                    affected.push((Some(*r), None));
                } else {
                    after.push(*r);
                }
            }
            (2, vec![])
        }
    };
    for (ti, tr) in trigs.iter().enumerate() {
        let ev_match = match (tr.ev, ev_kind) {
            (Ev::Insert, 0) | (Ev::Update, 1) | (Ev::Delete, 2) => true,
            (Ev::UpdateOf(c), 1) => set_cols.contains(&c),
            (Ev::UpdateOfAB, 1) => set_cols.contains(&1) || set_cols.contains(&2),
            _ => false,
        };
        if !ev_match {
            continue;
        }
        if !tr.row {
            e.must.push((tr.tag(), [None; 6]));
            continue;
        }
        for (old, new) in &affected {
            if !tr.when_holds(old.as_ref(), new.as_ref()) {
                continue;
            }
            // UPDATE OF c: the column is assigned; when its value does not change the standard
            // (assignment) and the engine (value change) readings differ: either is accepted
            let optional = match tr.ev {
                Ev::UpdateOf(c) => old.unwrap()[c] == new.unwrap()[c],
                // fires for certain when a listed, assigned column changes its value
                Ev::UpdateOfAB => !(1..=2).any(|c| set_cols.contains(&c) && old.unwrap()[c] != new.unwrap()[c]),
                _ => false,
            };
            match &tr.action {
                Action::Audit => {
                    let o = old.unwrap_or([None; 3]);
                    let n = new.unwrap_or([None; 3]);
                    let row = (tr.tag(), [o[0], o[1], o[2], n[0], n[1], n[2]]);
                    if optional {
                        e.may.push(row);
                    } else {
                        e.must.push(row);
                    }
                }
                Action::Guard { new: use_new, col } => {
                    if !e.guard_trigs.contains(&ti) {
                        e.guard_trigs.push(ti);
                    }
                    let src = if *use_new { new } else { old };
                    match src.unwrap()[*col] {
                        None => {
                            if optional {
                                e.may_fail = true;
                            } else {
                                e.fails = true;
                            }
                        }
                        Some(v) => {
                            if optional {
                                e.guard_may.push(v);
                            } else {
                                e.guard_must.push(v);
                            }
                        }
                    }
                }
            }
        }
    }
    let n = affected.len();
    (after, e, n)
}

fn read_t(db: &Database) -> Vec<TRow> {
    let g = |v: &vibesql_types::SqlValue| match v {
        vibesql_types::SqlValue::Integer(i) => Some(*i),
        vibesql_types::SqlValue::Null => None,
        other => panic!("unexpected value in t: {:?}", other),
    };
    db.get_table("t").map(|t| t.scan().iter().map(|r| [g(&r.values[0]), g(&r.values[1]), g(&r.values[2])]).collect()).unwrap_or_default()
}

fn read_aud(db: &Database) -> Vec<AudRow> {
    let g = |v: &vibesql_types::SqlValue| match v {
        vibesql_types::SqlValue::Integer(i) => Some(*i),
        _ => None,
    };
    db.get_table("aud")
        .map(|t| {
            t.scan()
                .iter()
                .map(|r| {
                    let tag = match &r.values[0] {
                        vibesql_types::SqlValue::Varchar(s) => s.clone(),
                        o => format!("{:?}", o),
                    };
                    (tag, [g(&r.values[1]), g(&r.values[2]), g(&r.values[3]), g(&r.values[4]), g(&r.values[5]), g(&r.values[6])])
                })
                .collect()
        })
        .unwrap_or_default()
}

fn read_guard(db: &Database) -> Vec<i64> {
    db.get_table("guard")
        .map(|t| {
            t.scan()
                .iter()
                .filter_map(|r| match &r.values[0] {
                    vibesql_types::SqlValue::Integer(i) => Some(*i),
                    _ => None,
                })
                .collect()
        })
        .unwrap_or_default()
}

fn sorted<T: Ord + Clone>(v: &[T]) -> Vec<T> {
    let mut v = v.to_vec();
    v.sort();
    v
}

/// new = old ++ must ++ (subset of may)?  returns (missing, extra)
fn bag_diff<T: Ord + Clone>(old: &[T], new: &[T], must: &[T], may: &[T]) -> (Vec<T>, Vec<T>) {
    let mut want = old.to_vec();
    want.extend(must.iter().cloned());
    let mut have = new.to_vec();
    let mut missing = Vec::new();
    for w in want {
        if let Some(i) = have.iter().position(|h| *h == w) {
            have.remove(i);
        } else {
            missing.push(w);
        }
    }
    let mut may = may.to_vec();
    let mut extra = Vec::new();
    for h in have {
        if let Some(i) = may.iter().position(|m| *m == h) {
            may.remove(i);
        } else {
            extra.push(h);
        }
    }
    (missing, extra)
}

pub struct C34;

fn gen_val(t: &mut Tape, nullable: bool) -> Val {
    if nullable && t.chance(1, 5) {
        None
    } else {
        Some(*t.pick(&[1i64, 2, 3, 5, 0, 8]))
    }
}

fn gen_pred(t: &mut Tape, rows: &[TRow]) -> Pred {
    match t.weighted(&[3, 2, 3, 1, 2]) {
        0 => Pred::KEq(if !rows.is_empty() && t.chance(4, 5) { rows[t.below(rows.len())][0].unwrap_or(0) } else { 99 }),
        1 => Pred::All,
        2 => Pred::AGt(*t.pick(&[1i64, 2, 0, 5, 100])),
        3 => Pred::AIsNull,
        _ => Pred::BLe(*t.pick(&[2i64, 0, 5, -1])),
    }
}

impl Check for C34 {
    type Case = C34Case;
    fn id(&self) -> &'static str {
        "C34"
    }
    fn rule(&self) -> String {
        "table t(k INTEGER PRIMARY KEY, a INTEGER, b INTEGER) with 1-4 triggers drawn from {BEFORE, AFTER} x {INSERT, UPDATE, UPDATE OF (col), DELETE} x {FOR EACH ROW, FOR EACH STATEMENT} x optional WHEN (OLD|NEW.col > / <= / = literal, IS NULL); \
         bodies either record (tag, OLD.k, OLD.a, OLD.b, NEW.k, NEW.a, NEW.b) in an audit table or insert OLD/NEW.col into guard(g INTEGER NOT NULL), which fails exactly for rows where that value is NULL. \
         Histories: committed load, then 1-8 statements: INSERT of 1-4 rows, UPDATE (a/b = literal or col + 1) and DELETE with WHERE k = v / a > v / a IS NULL / b <= v / none (matching zero, one or many rows). \
         Oracle (model of firings): after every statement the audit and guard tables grew by exactly one row per (matching row trigger x affected row whose WHEN holds) with that row's pre/post images and one row per matching statement trigger (also when no row is affected); \
         when some firing's body fails the statement returns an error and t is unchanged; otherwise the statement succeeds and t equals the model. A row trigger for UPDATE OF (c) on a row whose c is assigned but unchanged may or may not fire (both readings accepted). \
         Non-trivial = at least one trigger matched a statement that affected >= 1 row (or a statement trigger matched). Distinct = hash of the case."
            .into()
    }
    fn assumptions(&self) -> Vec<String> {
        vec![
            "triggers are created through the AST (CreateTriggerStmt with TriggerAction::RawSql), the way the repository's own tests do; CREATE TRIGGER text is parsed only for the header and WHEN expression".into(),
            "trigger bodies write to tables without triggers (no recursion); firing order among triggers and rows is not compared (multisets)".into(),
            "after a statement that must fail, only t is required to be unchanged; the audit/guard models are re-read from the engine".into(),
        ]
    }
    fn cases(&self, tier: Tier) -> u64 {
        match tier {
            Tier::Quick => 600_000,
            Tier::Thorough => 15_000_000,
        }
    }
    fn tape_len(&self, _t: Tier) -> usize {
        600
    }
    fn build(&self, t: &mut Tape, g: &GenCfg) -> C34Case {
        let avoid = |f: &str| g.avoid_known && g.known_open.iter().any(|s| s.contains(f));
        let no_stmt = avoid("_statement");
        let no_before = avoid(".before_");
        let no_when = avoid("_when");
        let no_fail = avoid("_failing");
        let no_upd_of = avoid("update_of");
        let n = t.range(1, 4) as usize;
        let mut trigs = Vec::new();
        for i in 0..n {
            let ev = match t.weighted(&[3, 3, 2, 3]) {
                0 => Ev::Insert,
                1 => Ev::Update,
                2 if !no_upd_of => {
                    if t.chance(1, 3) {
                        Ev::UpdateOfAB
                    } else {
                        Ev::UpdateOf(1 + t.below(2))
                    }
                }
                2 => Ev::Update,
                _ => Ev::Delete,
            };
            let row = no_stmt || !t.chance(1, 4);
            let before = !no_before && t.chance(1, 2);
            let has_old = row && ev != Ev::Insert;
            let has_new = row && ev != Ev::Delete;
            let when = if row && !no_when && t.chance(1, 3) {
                let new = if has_old && has_new { t.chance(1, 2) } else { has_new };
                Some(When { new, col: t.below(3), cmp: *t.pick(&[Cmp::Gt, Cmp::Le, Cmp::Eq, Cmp::IsNull]), lit: *t.pick(&[2i64, 1, 3, 0]) })
            } else {
                None
            };
            let action = if row && !no_fail && !trigs.iter().any(|x: &Trig| matches!(x.action, Action::Guard { .. })) && t.chance(1, 4) {
                let new = if has_old && has_new { t.chance(1, 2) } else { has_new };
                Action::Guard { new, col: 1 + t.below(2) }
            } else {
                Action::Audit
            };
            trigs.push(Trig { name: format!("tr{}", i), before, ev, row, when, action });
        }
        let mut model: Vec<TRow> = Vec::new();
        let mut nk = 1i64;
        let mut load = Vec::new();
        for _ in 0..t.range(0, 6) {
            let r = [Some(nk), gen_val(t, true), gen_val(t, true)];
            nk += 1;
            load.push(r);
            model.push(r);
        }
        let mut stmts = Vec::new();
        for _ in 0..t.range(1, 8) {
            let s = match t.weighted(&[3, 4, 3]) {
                0 => {
                    let mut rows = Vec::new();
                    for _ in 0..*t.pick(&[1usize, 2, 3, 4]) {
                        rows.push([Some(nk), gen_val(t, true), gen_val(t, true)]);
                        nk += 1;
                    }
                    Dml::Insert(rows)
                }
                1 => {
                    let mut sets = Vec::new();
                    let c = 1 + t.below(2);
                    sets.push((c, if t.chance(1, 2) { SetE::Inc } else { SetE::Lit(gen_val(t, true)) }));
                    if t.chance(1, 4) {
                        sets.push((3 - c, SetE::Lit(gen_val(t, true))));
                    }
                    Dml::Update { sets, pred: gen_pred(t, &model) }
                }
                _ => Dml::Delete(gen_pred(t, &model)),
            };
            let (after, e, _) = expect_for(&trigs, &s, &model);
            if !e.fails {
                model = after;
            }
            stmts.push(s);
        }
        C34Case { trigs, load, stmts, scenario: None }
    }
    fn render(&self, c: &C34Case) -> String {
        if let Some(sc) = &c.scenario {
            return sc.steps.iter().map(|s| s.sql.clone()).collect::<Vec<_>>().join(";\n");
        }
        let mut v = vec!["CREATE TABLE t (k INTEGER PRIMARY KEY, a INTEGER, b INTEGER)".to_string()];
        if !c.load.is_empty() {
            v.push(Dml::Insert(c.load.clone()).sql());
        }
        for tr in &c.trigs {
            v.push(format!("{}  -- body: {}", tr.create_sql().replace("BEGIN SELECT 1; END", ""), tr.body()));
        }
        v.extend(c.stmts.iter().map(|s| s.sql()));
        v.join(";\n")
    }
    fn run(&self, case: &C34Case, obs: &mut Obs) -> Verdict {
        if let Some(sc) = &case.scenario {
            obs.nontrivial = true;
            obs.class("scenario_regression_input");
            return match vcore::scenario::run(sc) {
                Ok(()) => Verdict::Pass,
                Err(d) => Verdict::fail(format!("c34.scenario.{}", sc.name), d),
            };
        }
        let mut db = Database::new();
        let setup = [
            "CREATE TABLE t (k INTEGER PRIMARY KEY, a INTEGER, b INTEGER)",
            "CREATE TABLE aud (tag VARCHAR(20), ok INTEGER, oa INTEGER, ob INTEGER, nk INTEGER, na INTEGER, nb INTEGER)",
            "CREATE TABLE guard (g INTEGER NOT NULL)",
        ];
        for s in setup {
            if let Err(e) = engine::exec(&mut db, s) {
                return Verdict::Harness(format!("setup `{}` failed: {}", s, e.text()));
            }
        }
        if !case.load.is_empty() {
            if let Err(e) = engine::exec(&mut db, &Dml::Insert(case.load.clone()).sql()) {
                return Verdict::Harness(format!("load failed: {}", e.text()));
            }
        }
        let mut log: Vec<String> = Vec::new();
        for tr in &case.trigs {
            let sql = tr.create_sql();
            let mut stmt = match engine::parse(&sql) {
                Ok(s) => s,
                Err(e) => return Verdict::Harness(format!("trigger header `{}` does not parse: {}", sql, e.text())),
            };
            if let vibesql_ast::Statement::CreateTrigger(ct) = &mut stmt {
                ct.triggered_action = vibesql_ast::TriggerAction::RawSql(tr.body());
            } else {
                return Verdict::Harness("CREATE TRIGGER parsed to something else".into());
            }
            if let Err(e) = engine::exec_stmt(&mut db, &stmt) {
                return Verdict::Harness(format!("creating trigger `{}` failed: {}", sql, e.text()));
            }
            log.push(format!("{} -- body: {}", sql, tr.body()));
            obs.class(&format!("trigger:{}", tr.feature()));
        }
        let mut model: Vec<TRow> = case.load.clone();
        let mut nontrivial = false;
        macro_rules! fail {
            ($sig:expr, $detail:expr) => {{
                let sig: String = $sig;
                if vcore::kf::is_open_global(&sig) {
                    if !obs.known_hits.contains(&sig) {
                        obs.known_hits.push(sig);
                    }
                    obs.nontrivial = true;
                    return Verdict::Pass;
                } else {
                    return Verdict::fail(sig, format!("{}\n--- history ---\n{}", $detail, log.join(";\n")));
                }
            }};
        }
        let feat = |tag: &str| case.trigs.iter().find(|t| t.name == tag).map(|t| t.feature()).unwrap_or_else(|| "unknown".into());
        for s in &case.stmts {
            let sql = s.sql();
            log.push(sql.clone());
            obs.sub_evals += 1;
            let (after, e, n_aff) = expect_for(&case.trigs, s, &model);
            let aud0 = read_aud(&db);
            let g0 = read_guard(&db);
            let r = match vcore::runner::catch(|| engine::exec(&mut db, &sql)) {
                Ok(Ok(o)) => Ok(o),
                Ok(Err(x)) => Err(x.text()),
                Err(p) => Err(format!("PANIC {}", p)),
            };
            let t1 = read_t(&db);
            let aud1 = read_aud(&db);
            let g1 = read_guard(&db);
            if !e.must.is_empty() || !e.guard_must.is_empty() || e.fails {
                nontrivial = true;
            }
            if n_aff == 0 {
                obs.class("statement_affecting_zero_rows");
            }
            // which failing trigger is involved (for signatures)
            let failing_feat = e.guard_trigs.first().map(|&i| case.trigs[i].feature()).unwrap_or_else(|| "none".into());
            if e.fails {
                obs.class("failing_trigger_statement");
                if r.is_ok() {
                    fail!(format!("c34.failing_trigger_ignored.{}.{}", s.kind(), failing_feat), format!("`{}`: a trigger body fails for an affected row (INSERT of NULL into guard.g NOT NULL) but the statement succeeded", sql));
                }
                if sorted(&t1) != sorted(&model) {
                    fail!(format!("c34.table_changed_on_trigger_failure.{}.{}", s.kind(), failing_feat), format!("`{}` failed ({}) but t changed:\nbefore {:?}\nafter  {:?}", sql, r.as_ref().err().unwrap(), sorted(&model), sorted(&t1)));
                }
                continue;
            }
            if e.may_fail && r.is_err() {
                if sorted(&t1) != sorted(&model) {
                    fail!(format!("c34.table_changed_on_trigger_failure.{}.{}", s.kind(), failing_feat), format!("`{}` failed ({}) but t changed:\nbefore {:?}\nafter  {:?}", sql, r.as_ref().err().unwrap(), sorted(&model), sorted(&t1)));
                }
                continue;
            }
            if let Err(err) = &r {
                let f = case.trigs.first().map(|t| t.feature()).unwrap_or_default();
                fail!(format!("c34.rejects_valid.{}.{}", s.kind(), f), format!("`{}` is valid and no trigger body fails, but the statement failed: {}", sql, err));
            }
            if sorted(&t1) != sorted(&after) {
                let f = case.trigs.first().map(|t| t.feature()).unwrap_or_default();
                fail!(format!("c34.table_effect.{}.{}", s.kind(), f), format!("after `{}` t differs:\nexpected {:?}\nactual   {:?}", sql, sorted(&after), sorted(&t1)));
            }
            model = after;
            let (missing, extra) = bag_diff(&aud0, &aud1, &e.must, &e.may);
            if !missing.is_empty() || !extra.is_empty() {
                // classify by the first deviating trigger
                let tag = missing.first().or(extra.first()).map(|r| r.0.clone()).unwrap();
                let miss_t = missing.iter().filter(|r| r.0 == tag).count();
                let extra_t = extra.iter().filter(|r| r.0 == tag).count();
                let rel = if miss_t > 0 && extra_t == miss_t {
                    "wrong_row_image"
                } else if miss_t > extra_t {
                    "missing_firing"
                } else {
                    "extra_firing"
                };
                let zero = if n_aff == 0 { ".zero_rows" } else { "" };
                fail!(
                    format!("c34.{}.{}.{}{}", rel, s.kind(), feat(&tag), zero),
                    format!("after `{}` ({} affected rows) the audit table differs from the expected firings (tag, OLD k a b, NEW k a b):\nmissing {:?}\nunexpected {:?}", sql, n_aff, missing, extra)
                );
            }
            let (gm, gx) = bag_diff(&g0, &g1, &e.guard_must, &e.guard_may);
            if !gm.is_empty() || !gx.is_empty() {
                let rel = if !gm.is_empty() && gx.len() == gm.len() {
                    "wrong_row_image"
                } else if gm.len() > gx.len() {
                    "missing_firing"
                } else {
                    "extra_firing"
                };
                fail!(format!("c34.{}.{}.{}", rel, s.kind(), failing_feat), format!("after `{}` the guard table differs from the expected firings: missing {:?} unexpected {:?}", sql, gm, gx));
            }
        }
        obs.nontrivial = nontrivial;
        Verdict::Pass
    }
}

#[allow(dead_code)]
fn _unused(_: CRow, _: CV) {}
