//! C06 — predicates partition rows consistently under three-valued logic (TLP / NoREC).

use serde::{Deserialize, Serialize};
use vcore::engine;
use vcore::sql::gen::*;
use vcore::sql::ir::*;
use vcore::val::{multiset_eq, show_rows, CRow, CV};
use vcore::{Check, GenCfg, Obs, Tape, Tier, Verdict};

pub struct C06;

#[derive(Clone, Copy, Debug, PartialEq, Eq, Serialize, Deserialize)]
pub enum Form {
    Plain,
    Distinct,
    JoinOn,
    GroupAgg,
    Having,
    Agg,
    NoRec,
}

#[derive(Clone, Debug, Serialize, Deserialize)]
pub struct Case {
    pub world: World,
    pub form: Form,
    /// FROM + optional WHERE w of the base query (items filled per form)
    pub base: Select,
    /// partitioning predicate
    pub p: Expr,
    /// group key / aggregate argument column (GroupAgg, Having, Agg)
    pub key: Option<Expr>,
    pub arg: Option<Expr>,
    pub columnar_off: bool,
    #[serde(default)]
    pub excluded: u32,
}

const TOL: f64 = 1e-9;

fn and(a: Option<Expr>, b: Expr) -> Expr {
    match a {
        Some(a) => bin(a, BinOp::And, b),
        None => b,
    }
}

fn three(p: &Expr) -> [Expr; 3] {
    [p.clone(), Expr::Not(Box::new(p.clone())), Expr::IsNull(Box::new(p.clone()), false)]
}

fn has_self_join(s: &Select) -> bool {
    fn names(f: &FromItem, out: &mut Vec<String>) {
        match f {
            FromItem::Table { name, .. } => out.push(name.clone()),
            FromItem::Derived { q, .. } => {
                if let SetExpr::Select(s) = &q.body {
                    for f in &s.from {
                        names(f, out);
                    }
                }
            }
            FromItem::Join { l, r, .. } => {
                names(l, out);
                names(r, out);
            }
        }
    }
    let mut v = Vec::new();
    for f in &s.from {
        names(f, &mut v);
    }
    let n = v.len();
    v.sort();
    v.dedup();
    v.len() < n
}

fn has_right_full(s: &Select) -> bool {
    fn go(f: &FromItem) -> bool {
        match f {
            FromItem::Join { l, kind, r, .. } => matches!(kind, JoinKind::Right | JoinKind::Full) || go(l) || go(r),
            _ => false,
        }
    }
    s.from.iter().any(go)
}

/// combine partitioned aggregate rows (k?, count, sum, min, max) into per-key totals
fn combine_aggs(parts: &[Vec<CRow>], keyed: bool) -> Vec<CRow> {
    let off = if keyed { 1 } else { 0 };
    let mut out: Vec<CRow> = Vec::new();
    for part in parts {
        for r in part {
            let pos = if keyed { out.iter().position(|o| o[0].same(&r[0], 0.0)) } else if out.is_empty() { None } else { Some(0) };
            match pos {
                None => out.push(r.clone()),
                Some(i) => {
                    let o = &mut out[i];
                    // count
                    if let (CV::Int(a), CV::Int(b)) = (&o[off], &r[off]) {
                        o[off] = CV::Int(a + b);
                    }
                    // sum (NULL = no contribution)
                    o[off + 1] = match (o[off + 1].as_f64(), r[off + 1].as_f64()) {
                        (Some(a), Some(b)) => CV::F(a + b),
                        (Some(a), None) => CV::F(a),
                        (None, Some(b)) => CV::F(b),
                        (None, None) => CV::Null,
                    };
                    // min / max
                    for (j, want_less) in [(off + 2, true), (off + 3, false)] {
                        let pick_new = match (&o[j], &r[j]) {
                            (CV::Null, _) => true,
                            (_, CV::Null) => false,
                            (a, b) => {
                                let c = b.sort_cmp(a);
                                if want_less {
                                    c == std::cmp::Ordering::Less
                                } else {
                                    c == std::cmp::Ordering::Greater
                                }
                            }
                        };
                        if pick_new {
                            o[j] = r[j].clone();
                        }
                    }
                }
            }
        }
    }
    out
}

impl Check for C06 {
    type Case = Case;
    fn id(&self) -> &'static str {
        "C06"
    }
    fn rule(&self) -> String {
        "world of 1-3 INTEGER/VARCHAR tables (NULL densities 0/.2/.6/1); a base query Q (single table, comma/INNER/LEFT joins, derived tables, optional WHERE w) \
         and a predicate p from {comparisons, AND/OR/NOT, IS [NOT] NULL, BETWEEN, IN lists, LIKE, CASE} of depth <= 4. Forms: plain, DISTINCT, p inside JOIN ON, \
         GROUP BY with COUNT/SUM/MIN/MAX (partitions combined arithmetically), HAVING p over key/aggregates, aggregate without GROUP BY, and NoREC \
         (#rows WHERE p == #TRUE of `SELECT p`). Oracle: Q == Q&p (+) Q&NOT p (+) Q&(p IS NULL) as multisets (sets for DISTINCT). \
         Non-trivial = p evaluates to NULL for >= 1 row and to TRUE for >= 1 row of Q. Distinct = hash of the case."
            .into()
    }
    fn assumptions(&self) -> Vec<String> {
        vec![
            "metamorphic oracle: no reference engine; the four queries are executed by vibesql itself, so a defect that affects all of them identically is invisible here (C01 covers that)".into(),
            "SUM partitions are combined in f64 and compared with 1e-9 relative tolerance".into(),
        ]
    }
    fn cases(&self, tier: Tier) -> u64 {
        match tier {
            Tier::Quick => 200_000,
            Tier::Thorough => 6_000_000,
        }
    }
    fn tape_len(&self, _t: Tier) -> usize {
        500
    }
    fn build(&self, t: &mut Tape, cfg: &GenCfg) -> Case {
        let world = gen_world(t, &WorldCfg::default());
        let g = Gen::new(&world, ExprOpts { like: true, ..Default::default() });
        let mut excluded = 0;
        let mut qo = QueryOpts { derived: true, ..Default::default() };
        if cfg.avoiding("c06.trigger.right_full_join") {
            qo.right_full = false;
            excluded += 1;
        }
        if cfg.avoiding("c06.trigger.self_join") {
            qo.self_join = false;
            excluded += 1;
        }
        let form = *t.pick(&[Form::Plain, Form::NoRec, Form::Distinct, Form::JoinOn, Form::GroupAgg, Form::Having, Form::Agg]);
        let mut feats = Vec::new();
        let (from, scope) = if form == Form::JoinOn {
            // explicit two-table inner join with an equality; p goes into ON
            let nt = world.tables.len();
            let a = t.below(nt);
            let mut b = t.below(nt);
            if !qo.self_join && b == a {
                b = (a + 1) % nt;
            }
            let (qa, qb) = if a == b { (Some("r0"), Some("r1")) } else { (None, None) };
            let sa = g.table_scope(a, qa);
            let sb = g.table_scope(b, qb);
            let l = &sa[t.below(sa.len())];
            // column 0 of every table is INTEGER, so an INTEGER partner always exists
            let l = if sb.iter().any(|c| c.ty == l.ty) { l } else { &sa[0] };
            let rs: Vec<&ScopeCol> = sb.iter().filter(|c| c.ty == l.ty).collect();
            let r = rs[t.below(rs.len())];
            let on = bin(l.expr(), BinOp::Eq, r.expr());
            let mk = |ti: usize, q: Option<&str>| FromItem::Table { name: world.tables[ti].name.clone(), alias: q.map(|s| s.to_string()) };
            let mut scope = sa.clone();
            scope.extend(sb.clone());
            (vec![FromItem::Join { l: Box::new(mk(a, qa)), kind: JoinKind::Inner, r: Box::new(mk(b, qb)), on: Some(on) }], scope)
        } else {
            g.gen_from(t, &qo, &mut feats)
        };
        let mut base = Select { from, ..Default::default() };
        if t.chance(1, 3) {
            base.where_ = Some(g.pred(t, &scope, 2));
        }
        let depth = t.range(1, 4) as u32;
        let mut key = None;
        let mut arg = None;
        let p = match form {
            Form::Having => {
                let k = &scope[t.below(scope.len())];
                key = Some(k.expr());
                let ints: Vec<&ScopeCol> = scope.iter().filter(|c| c.ty == Ty::Int).collect();
                let a = ints[t.below(ints.len())].expr();
                arg = Some(a.clone());
                // predicate over COUNT(*), MIN(arg) and the key
                let cnt = Expr::Agg { f: AggFn::Count, distinct: false, arg: None };
                let mn = Expr::Agg { f: AggFn::Min, distinct: false, arg: Some(Box::new(a)) };
                let atom = |t: &mut Tape| match t.below(3) {
                    0 => bin(cnt.clone(), *t.pick(&[BinOp::Gt, BinOp::Eq, BinOp::Le]), int(t.range(0, 3))),
                    1 => bin(mn.clone(), *t.pick(&[BinOp::Gt, BinOp::Eq, BinOp::Le, BinOp::Ne]), int(gen_int_val(t))),
                    _ => Expr::IsNull(Box::new(mn.clone()), t.chance(1, 2)),
                };
                match t.below(4) {
                    0 => atom(t),
                    1 => bin(atom(t), BinOp::And, atom(t)),
                    2 => bin(atom(t), BinOp::Or, atom(t)),
                    _ => Expr::Not(Box::new(atom(t))),
                }
            }
            _ => g.pred(t, &scope, depth),
        };
        match form {
            Form::Plain | Form::Distinct | Form::JoinOn | Form::NoRec => {
                let n = t.range(1, 3) as usize;
                for i in 0..n {
                    let c = &scope[t.below(scope.len())];
                    base.items.push((c.expr(), Some(format!("c{}", i))));
                }
                base.distinct = form == Form::Distinct;
            }
            Form::GroupAgg | Form::Agg => {
                if form == Form::GroupAgg {
                    key = Some(scope[t.below(scope.len())].expr());
                }
                let ints: Vec<&ScopeCol> = scope.iter().filter(|c| c.ty == Ty::Int).collect();
                arg = Some(ints[t.below(ints.len())].expr());
            }
            Form::Having => {}
        }
        Case { world, form, base, p, key, arg, columnar_off: cfg.avoiding("c06.trigger.columnar_path"), excluded }
    }
    fn render(&self, c: &Case) -> String {
        format!(
            "{};\n-- form {:?}{}\n-- Q: {}\n-- p: {}",
            c.world.setup_sql(Dialect::Vibe).join(";\n"),
            c.form,
            if c.columnar_off { " (columnar gate off)" } else { "" },
            queries(c).0,
            c.p.render(Dialect::Vibe)
        )
    }
    fn run(&self, case: &Case, obs: &mut Obs) -> Verdict {
        let mut db = vibesql_storage::Database::new();
        for st in case.world.setup_sql(Dialect::Vibe) {
            if let Err(e) = engine::exec(&mut db, &st) {
                return Verdict::Harness(format!("vibesql rejected setup statement `{}`: {}", st, e.text()));
            }
        }
        obs.class(&format!("form:{:?}", case.form));
        obs.excluded = case.excluded as u64 + case.columnar_off as u64;
        let (q, parts) = queries(case);
        let mut trig: Vec<&str> = Vec::new();
        // (the self_join trigger was retired with the repair of the SIMD WHERE filter, 2dfbe02d)
        if has_self_join(&case.base) {
            obs.class("self_join");
        }
        vibesql_executor::verif_hooks::set_columnar_off(case.columnar_off);
        let taken0 = vibesql_executor::verif_hooks::columnar_taken();
        let whole = engine::query(&db, &q);
        let part_res: Vec<_> = parts.iter().map(|s| engine::query(&db, s)).collect();
        vibesql_executor::verif_hooks::set_columnar_off(false);
        if vibesql_executor::verif_hooks::columnar_taken() > taken0 {
            obs.class("columnar_path_taken");
            trig.push("columnar_path");
        }
        let sig = |shape: &str| {
            if trig.is_empty() {
                format!("c06.{:?}.{}", case.form, shape)
            } else {
                format!("c06.trigger.{}", trig[0])
            }
        };
        let whole = match whole {
            Ok(w) => w,
            Err(e) => {
                // Q itself fails: a partition query may fail too; asymmetry is the finding
                if part_res.iter().all(|r| r.is_err()) {
                    obs.class("all_error");
                    return Verdict::Pass;
                }
                return Verdict::fail(sig(&format!("error_asymmetry.{}", e.kind())), format!("Q fails but a partition succeeds\nQ: {}\n{}", q, e.text()));
            }
        };
        let mut prs: Vec<Vec<CRow>> = Vec::new();
        for (s, r) in parts.iter().zip(part_res) {
            match r {
                Ok(rows) => prs.push(rows),
                Err(e) => {
                    return Verdict::fail(sig(&format!("partition_error.{}", e.kind())), format!("Q succeeds but a partition fails\nQ: {}\npartition: {}\n{}", q, s, e.text()))
                }
            }
        }
        obs.sub_evals = 1 + prs.len() as u64;
        let (ok, shape, combined): (bool, &str, Vec<CRow>) = match case.form {
            Form::Plain | Form::JoinOn => {
                let all: Vec<CRow> = prs.iter().flatten().cloned().collect();
                obs.nontrivial = !prs[0].is_empty() && !prs[2].is_empty();
                (multiset_eq(&whole, &all, TOL), "multiset", all)
            }
            Form::Distinct => {
                let mut all: Vec<CRow> = Vec::new();
                for r in prs.iter().flatten() {
                    if !all.iter().any(|x| vcore::val::rows_same(x, r, 0.0)) {
                        all.push(r.clone());
                    }
                }
                obs.nontrivial = !prs[0].is_empty() && !prs[2].is_empty();
                (multiset_eq(&whole, &all, TOL), "set", all)
            }
            Form::Having => {
                let all: Vec<CRow> = prs.iter().flatten().cloned().collect();
                obs.nontrivial = !prs[0].is_empty() && (!prs[2].is_empty() || !prs[1].is_empty());
                (multiset_eq(&whole, &all, TOL), "groups", all)
            }
            Form::GroupAgg => {
                let all = combine_aggs(&prs, true);
                obs.nontrivial = !prs[0].is_empty() && !prs[2].is_empty();
                (multiset_eq(&whole, &all, TOL), "group_aggregates", all)
            }
            Form::Agg => {
                let all = combine_aggs(&prs, false);
                let cnt = |rows: &Vec<CRow>| rows.first().map(|r| matches!(r[0], CV::Int(n) if n > 0)).unwrap_or(false);
                obs.nontrivial = cnt(&prs[0]) && cnt(&prs[2]);
                (multiset_eq(&whole, &all, TOL), "aggregates", all)
            }
            Form::NoRec => {
                // whole = SELECT p FROM ..  ; prs[0] = SELECT 1 FROM .. WHERE p
                let trues = whole.iter().filter(|r| matches!(r[0], CV::Int(1))).count();
                let nulls = whole.iter().filter(|r| matches!(r[0], CV::Null)).count();
                obs.nontrivial = trues > 0 && nulls > 0;
                let got = prs[0].len();
                (trues == got, "norec_count", vec![vec![CV::Int(trues as i128), CV::Int(got as i128)]])
            }
        };
        if ok {
            return Verdict::Pass;
        }
        let mut d = format!("Q: {}\nrows of Q:\n{}", q, show_rows(&whole, 25));
        for (s, r) in parts.iter().zip(prs.iter()) {
            d.push_str(&format!("partition: {}\n{}", s, show_rows(r, 25)));
        }
        d.push_str(&format!("combined partitions:\n{}", show_rows(&combined, 25)));
        Verdict::fail(sig(shape), d)
    }
}

/// (whole query, partition queries)
fn queries(c: &Case) -> (String, Vec<String>) {
    let d = Dialect::Vibe;
    let agg_items = |key: &Option<Expr>, arg: &Expr| {
        let mut items: Vec<(Expr, Option<String>)> = Vec::new();
        if let Some(k) = key {
            items.push((k.clone(), Some("k".into())));
        }
        items.push((Expr::Agg { f: AggFn::Count, distinct: false, arg: None }, Some("n".into())));
        for (f, n) in [(AggFn::Sum, "s"), (AggFn::Min, "mn"), (AggFn::Max, "mx")] {
            items.push((Expr::Agg { f, distinct: false, arg: Some(Box::new(arg.clone())) }, Some(n.into())));
        }
        items
    };
    match c.form {
        Form::Plain | Form::Distinct => {
            let q = c.base.render(d);
            let parts = three(&c.p)
                .iter()
                .map(|p| {
                    let mut s = c.base.clone();
                    s.where_ = Some(and(c.base.where_.clone(), p.clone()));
                    s.render(d)
                })
                .collect();
            (q, parts)
        }
        Form::JoinOn => {
            let q = c.base.render(d);
            let parts = three(&c.p)
                .iter()
                .map(|p| {
                    let mut s = c.base.clone();
                    if let Some(FromItem::Join { on, .. }) = s.from.get_mut(0) {
                        *on = Some(and(on.clone(), p.clone()));
                    }
                    s.render(d)
                })
                .collect();
            (q, parts)
        }
        Form::GroupAgg | Form::Agg => {
            let arg = c.arg.clone().unwrap_or(int(1));
            let mut b = c.base.clone();
            b.items = agg_items(&c.key, &arg);
            if let Some(k) = &c.key {
                b.group_by = vec![k.clone()];
            }
            let q = b.render(d);
            let parts = three(&c.p)
                .iter()
                .map(|p| {
                    let mut s = b.clone();
                    s.where_ = Some(and(b.where_.clone(), p.clone()));
                    s.render(d)
                })
                .collect();
            (q, parts)
        }
        Form::Having => {
            let arg = c.arg.clone().unwrap_or(int(1));
            let mut b = c.base.clone();
            b.items = agg_items(&c.key, &arg);
            b.group_by = vec![c.key.clone().unwrap_or(int(1))];
            let q = b.render(d);
            let parts = three(&c.p)
                .iter()
                .map(|p| {
                    let mut s = b.clone();
                    s.having = Some(p.clone());
                    s.render(d)
                })
                .collect();
            (q, parts)
        }
        Form::NoRec => {
            let mut sp = c.base.clone();
            sp.items = vec![(c.p.clone(), Some("p".into()))];
            let mut sw = c.base.clone();
            sw.items = vec![(int(1), Some("one".into()))];
            sw.where_ = Some(and(c.base.where_.clone(), c.p.clone()));
            (sp.render(d), vec![sw.render(d)])
        }
    }
}
